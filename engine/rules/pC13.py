"""C13 — every advertised option value is accepted and survivable: structural clauses C13-ZERO, C13-ADV,
C13-RANGE, C13-NOLOCK (DESIGN.md §3)."""
from facts import norm, show, walk, strip_refs, deep_strip, callee_name, find_calls, guard_conditions, const_str, place_fields
import pC04
import pC05
import pC19

EXPLANATION = (
    "Decides structural clauses of C13, not that a search after each setting completes (C04): (ZERO) no integer "
    "division/remainder by the hash-table length without a non-emptiness guard (the advertised minimum Hash=0 yields an "
    "empty table); (ADV) the set of options advertised by `uci` equals the set of names handled by `setoption`, each "
    "name dispatching to its own option's setter; (RANGE) for each spin option min <= default <= max on the evaluated "
    "constants, the setter stores the parsed value in its own EngineOptions field, the hash setter's value reaches "
    "TranspositionTable::resize, and the size arithmetic cannot overflow for the advertised maximum; (NOLOCK) "
    "setoption reaches only try_lock, never a blocking lock; (CONSUME) every function other than the UCI dispatcher that "
    "reads a numeric EngineOptions field (today: TimeStrategy::new reading move_overhead) has all of its panic sites "
    "discharged by the interval / class rules of the C04 machinery, so no advertised value can abort the engine where "
    "the value is used."
)


def run(fx, rep, tier):
    pC19.rule_zero(fx, rep, rid="C13-ZERO")
    ex = fx.one("uci::Uci::execute")
    arms = pC05.arm_regions(fx, ex)
    rule_adv(fx, rep, ex, arms)
    rule_range(fx, rep, ex, arms)
    pC05.rule_noblock(fx, rep, ex, arms, names=("SetOption", "IsReady"), rid="C13-NOLOCK")
    rule_consume(fx, rep, ex)
    rule_accept(fx, rep)
    rule_name(fx, rep)
    rule_table(fx, rep)
    rule_after_bestmove(fx, rep, ex)


def rule_after_bestmove(fx, rep, ex):
    """C13-NOLOCK/after-bestmove. `setoption` may only *try* the state lock, so "every value can be set between searches"
    needs the search thread to let go of the lock as soon as the GUI has its `bestmove`: a GUI sends the next game's options
    right after it. Between the `best_move` report and the end of the search thread nothing may make a pass over the
    transposition table (a sweep / reset / resize there holds the lock for a time that grows with `Hash`, and a `setoption`
    arriving meanwhile is refused and never applied)."""
    import pC14
    n, ok = 0, True
    for (_sbb, _st, cl) in pC05.spawned_closures(fx, ex):
        if cl is None:
            continue
        bms = [(bb, t) for bb, t in cl.calls() if norm(callee_name(t) or "").endswith("::best_move")]
        for (bb, t) in bms:
            after = cl.reachable(t["target"]) if "target" in t else set()
            for ab in sorted(after):
                t2 = cl.blocks[ab]["term"]
                if t2["k"] != "call":
                    continue
                cn = callee_name(t2)
                cb = fx.body(cn) if cn else None
                if cb is None:
                    continue
                n += 1
                hits = pC14.table_pass_in(fx, fx.cone([cb.name]))
                rep.obligation(not hits)
                if hits:
                    ok = False
                    rep.violation("C13-NOLOCK", f"C13-NOLOCK/after-bestmove/{norm(cb.name).split('::')[-1]}", f"the search thread calls `{cb.name}` (line {t2.get('line')}) after reporting its move and before "
                                  f"releasing the state lock; it contains {hits[0][1]}: while that pass runs a `setoption` is refused by try_lock and the value is never applied", {"fn": cl.name, "file": cl.file, "line": t2.get("line")})
    if n == 0:
        rep.notes.append("C13-NOLOCK: no in-crate call after the best_move report in the search thread (nothing to decide)")
    rep.rule("C13-NOLOCK/after-bestmove", n, 0, ok, "no table pass between the bestmove report and the release of the state lock")


def rule_table(fx, rep):
    """`Hash` may be 0, so the table may have no slots while every one of its operations is still called - by the search, and
    by the `setoption` / `ucinewgame` handlers on the input thread (reset, resize), which no search cone contains. The panic
    sites in the cone of the table's own methods are therefore discharged here with the C04 machinery (an index needs its
    non-empty guard, a chunk / window size must be a positive constant, a division needs a non-zero divisor): seed C13-6a
    cleared the table in `len.div_ceil(4)`-sized chunks, which is a chunk size of 0 for the empty table."""
    import core
    import pC04
    roots = [b.name for b in fx.fn_bodies() if norm(b.name).startswith("engine::transposition_table::TranspositionTable::") and b.kind == "AssocFn" and "::tests::" not in b.name]
    if not roots:
        rep.rule("C13-TABLE", 0, 0, True, "table methods not found: not decided")
        return
    def c_range_index(site, fx):
        # v[i] for i drawn from 0..v.len()
        if not (site.family == "index" and len(site.ops) == 2):
            return False
        base = deep_strip(site.ops[0])
        while isinstance(base, tuple) and base and base[0] in ("ref", "deref"):
            base = deep_strip(base[1])
        rng = [x for x in walk(site.ops[1]) if isinstance(x, tuple) and x and x[0] == "agg" and str(x[1]).endswith("Range::Range") and len(x[2]) == 2]
        if len(rng) != 1 or deep_strip(rng[0][2][0]) != ("const", 0):
            return False
        hi = deep_strip(rng[0][2][1])
        if not (isinstance(hi, tuple) and hi and hi[0] == "call" and str(hi[1]).split("::")[-1] == "len" and hi[2]):
            return False
        y = deep_strip(hi[2][0])
        while isinstance(y, tuple) and y and y[0] in ("ref", "deref"):
            y = deep_strip(y[1])
        ix = deep_strip(site.ops[1])
        direct = isinstance(ix, tuple) and ix and ix[0] == "field" and ix[2] == "0" and bool(find_calls(ix, "::next"))
        return show(y) == show(base) and direct

    def c_size_arith(site, fx):
        return site.family == "arith" and site.what == "Mul" and C.in_fn(site, "transposition_table::calculate_number_of_entries")

    def c_entry_size(site, fx):
        if not (site.family == "divzero" and C.in_fn(site, "transposition_table::calculate_number_of_entries")):
            return False
        blk = site.body.blocks[site.bb]
        for st in reversed(blk["stmts"]):
            rv = st.get("rv")
            if rv and rv["k"] == "binop" and rv["op"] == "Eq":
                return bool(find_calls(site.body.expr(rv["a"], expand_named=True, at=site.bb), "mem::size_of"))
        return False
    import classes as C
    extra = [("range-index", c_range_index, "v[i] with i drawn from 0..v.len()", "checked"),
             ("table-size-arith", c_size_arith, "size_mb * 1024 * 1024: overflow-free up to the advertised maximum (C13-RANGE/hash-overflow)", "checked"),
             ("entry-size", c_entry_size, "division by size_of::<entry>(), which holds a 64-bit key", "belief")]
    sub = type(rep)(rep.prop, rep.tier)
    q = core.QUIET
    core.QUIET = True
    try:
        pC04.run_cone(fx, sub, "C13-TABLE", roots, pC04.exempt_roots(fx), 5, extra_classes=extra)
    finally:
        core.QUIET = q
    for v in sub.violations:
        rep.violation("C13-TABLE", v["key"], v["msg"] + " - the table may be empty (Hash 0), and reset / resize run on the input thread", v["site"])
    rep.obligations += sub.obligations
    rep.discharged += sub.discharged
    r = sub.rules[-1]
    rep.rule("C13-TABLE", r["instances"], 5, not sub.violations, "panic sites of the table's own methods (shared with C04-CONE)")


STR_OPS = {
    "to_string": lambda x: x, "to_owned": lambda x: x, "from": lambda x: x, "into": lambda x: x, "as_str": lambda x: x, "deref": lambda x: x,
    "borrow": lambda x: x, "as_ref": lambda x: x, "clone": lambda x: x,
    "trim": lambda x: x.strip(), "trim_end": lambda x: x.rstrip(), "trim_start": lambda x: x.lstrip(),
    "to_lowercase": lambda x: x.lower(), "to_ascii_lowercase": lambda x: x.lower(),
    "to_uppercase": lambda x: x.upper(), "to_ascii_uppercase": lambda x: x.upper(),
}


def str_transform(e):
    """If `e` is a chain of modelled string operations applied to one parsed token, return a python function doing the same
    to a string (the token itself is returned unchanged by the identity function); None if some step is not modelled."""
    d = deep_strip(e)
    if not (isinstance(d, tuple) and d and d[0] == "call" and isinstance(d[1], str)):
        return None
    last = d[1].split("::")[-1]
    if find_calls(d, "Try>::branch") and not any(find_calls(a, "Try>::branch") for a in d[2][:1]):
        return None
    if last in ("branch",) or "Try>::branch" in d[1]:
        return lambda x: x  # the parsed token itself
    if last in STR_OPS and len(d[2]) >= 1:
        inner = str_transform_or_leaf(d[2][0])
        return (lambda x, f=STR_OPS[last], g=inner: f(g(x))) if inner else None
    if last == "collect" and len(d[2]) == 1:
        it = deep_strip(d[2][0])
        if isinstance(it, tuple) and it and it[0] == "call" and str(it[1]).split("::")[-1] == "split_whitespace":
            inner = str_transform_or_leaf(it[2][0])
            return (lambda x, g=inner: "".join(g(x).split())) if inner else None
    return None


def str_transform_or_leaf(e):
    d = deep_strip(e)
    # projections out of the parser's result tuple: (.. as Continue).0.1
    while isinstance(d, tuple) and d and d[0] in ("field", "as"):
        d = deep_strip(d[1])
    if isinstance(d, tuple) and d and d[0] == "call" and isinstance(d[1], str) and "Try>::branch" in d[1]:
        return lambda x: x
    return str_transform(e)


def rule_name(fx, rep):
    """The dispatcher compares the option name it receives with each option's NAME, exactly. The name it receives is whatever
    the parser stores in UciCommand::SetOption.name: the operations applied to the parsed token there (to_string, trim,
    case mapping, split_whitespace + collect ..) are applied here to every advertised NAME and must return it unchanged -
    otherwise that option can no longer be set and the resulting Err ends the input loop (seed C13-5b: `Move Overhead`
    arriving as `MoveOverhead`). Operations outside the modelled set leave the clause undecided."""
    names = option_names(fx)
    ok = True
    n = 0
    sites = 0
    for b in fx.fn_bodies():
        if "::tests::" in b.name or " as std::clone::Clone>" in b.name or " as core::clone::Clone>" in b.name:
            continue
        for bb, j, st in b.stmts():
            rv = st.get("rv")
            if not (rv and rv["k"] == "agg" and rv.get("agg") == "adt" and norm(rv["adt"]).endswith("UciCommand") and rv.get("variant") == "SetOption"):
                continue
            ops = dict(zip(rv["fields"], rv["ops"]))
            if "name" not in ops:
                continue
            sites += 1
            e = b.expr(ops["name"], expand_named=True, at=bb)
            f = str_transform_or_leaf(e)
            if f is None:
                rep.notes.append(f"C13-NAME: the option name stored by `{b.name}` is computed by operations this rule does not model (`{show(e)[:80]}`); not decided")
                continue
            for ty, nm in sorted(names.items()):
                n += 1
                got = f(nm)
                good = got == nm
                rep.obligation(good)
                if not good:
                    ok = False
                    rep.violation("C13-NAME", f"C13-NAME/{nm}", f"the parser hands `setoption name {nm} ..` to the dispatcher as `{got}`: the advertised option `{nm}` can no longer be set, and the handler's Err ends the input loop",
                                  {"fn": b.name, "file": b.file, "line": st.get("line")})
    rep.sample({"rule": "C13-NAME", "constructor_sites": sites, "advertised": sorted(names.values())})
    rep.rule("C13-NAME", n, 0, ok, "advertised option names survive the parser's normalisation unchanged")


def accept_eval(e, v, vals):
    """value of a setter's guard expression for parsed value v and the advertised {min, max, default}; None if not modelled"""
    from facts import cmp_op
    d = deep_strip(e)
    if not isinstance(d, tuple) or not d:
        return None
    if d[0] == "const" and isinstance(d[1], (int, bool)):
        return int(d[1])
    if find_calls(d, "str::parse") or find_calls(d, "FromStr>::from_str") or find_calls(d, "options::parse_spin_value"):
        # the parsed value itself (payload of the successful parse), not a comparison over it
        if not (d[0] in ("call", "binop") and (cmp_op(d) or d[1].endswith("::contains"))):
            return v
    if d[0] == "field" and d[2] in ("min", "max", "default") and "DEF" in show(d[1]):
        return vals.get(d[2])
    co = cmp_op(d)
    if co:
        a, b = accept_eval(co[1], v, vals), accept_eval(co[2], v, vals)
        if a is None or b is None:
            return None
        return int({"Eq": a == b, "Ne": a != b, "Lt": a < b, "Le": a <= b, "Gt": a > b, "Ge": a >= b}[co[0]])
    if d[0] == "call" and isinstance(d[1], str) and d[1].endswith("::contains") and len(d[2]) == 2:
        rng = deep_strip(d[2][0])
        x = accept_eval(d[2][1], v, vals)
        if isinstance(rng, tuple) and rng[0] == "agg" and x is not None and len(rng[2]) >= 2:
            lo, hi = accept_eval(rng[2][0], v, vals), accept_eval(rng[2][1], v, vals)
            if lo is None or hi is None:
                return None
            if str(rng[1]).endswith("Range::Range"):
                return int(lo <= x < hi)
            if "RangeInclusive" in str(rng[1]):
                return int(lo <= x <= hi)
        if isinstance(rng, tuple) and rng[0] == "call" and "RangeInclusive" in str(rng[1]) and x is not None and len(rng[2]) == 2:
            lo, hi = accept_eval(rng[2][0], v, vals), accept_eval(rng[2][1], v, vals)
            if lo is not None and hi is not None:
                return int(lo <= x <= hi)
        return None
    if d[0] == "unop" and d[1] == "Not":
        a = accept_eval(d[2], v, vals)
        return None if a is None else int(not a)
    return None


def rule_accept(fx, rep):
    """A spin setter may refuse a value only because it does not parse: no path that returns Err is taken for a value inside
    the advertised [min, max] (an Err from the command handler ends the input loop, i.e. the engine exits)."""
    from facts import decision_paths
    ok = True
    n = 0
    names = option_names(fx)
    for ty, nm in sorted(names.items()):
        variant, vals = def_body_fields(fx, ty)
        if variant != "Spin" or not all(isinstance(vals.get(k), int) for k in ("min", "max")):
            continue
        sb = fx.body(ty + "::set")
        if sb is None:
            continue
        paths = decision_paths(sb, 256)
        for conds, ret, last in paths:
            r = deep_strip(ret) if ret is not None else None
            is_err = isinstance(r, tuple) and r and ((r[0] == "agg" and str(r[1]).endswith("Result::Err")) or (r[0] == "call" and "from_residual" in str(r[1])))
            if not is_err:
                continue
            # guards that are not about the parse result / the DEF variant
            extra = []
            parse_failed = False
            for (e, val) in conds:
                d = deep_strip(e)
                if isinstance(d, tuple) and d[0] == "discr":
                    if find_calls(d, "str::parse") or find_calls(d, "options::parse_spin_value") or find_calls(d, "Try>::branch"):
                        if val != 0:
                            parse_failed = True
                        continue
                    if "DEF" in show(d):
                        continue
                extra.append((e, val))
            if parse_failed:
                continue
            n += 1
            rejected = None
            undecided = False
            for v in sorted({vals["min"], vals["max"], (vals["min"] + vals["max"]) // 2}):
                taken = True
                for (e, val) in extra:
                    x = accept_eval(e, v, vals)
                    if x is None:
                        undecided = True
                        break
                    if isinstance(val, int):
                        taken = taken and (x == val)
                    elif isinstance(val, tuple) and val[0] == "otherwise":
                        taken = taken and (x not in val[1])
                if undecided:
                    break
                if taken:
                    rejected = v
                    break
            if undecided:
                rep.notes.append(f"C13-ACCEPT: an Err path of the `{nm}` setter is guarded by a condition this rule does not model; not decided")
                continue
            good = rejected is None
            rep.obligation(good)
            if not good:
                ok = False
                rep.violation("C13-ACCEPT", f"C13-ACCEPT/{nm}", f"the setter of `{nm}` returns Err for the value {rejected}, which lies inside the advertised range [{vals['min']}, {vals['max']}]: the command handler's Err ends the input loop, so the engine exits instead of accepting an advertised value",
                              {"fn": sb.name, "file": sb.file, "line": sb.line})
    rep.rule("C13-ACCEPT", n, 0, ok, "no advertised spin value is refused by its setter")


def option_readers(fx, ex):
    """{fn name: {fields}} for every function, other than the dispatcher and the option setters, that reads a field of EngineOptions"""
    out = {}
    for b in fx.fn_bodies():
        if "::tests::" in b.name or b.name == ex.name or norm(b.name).startswith("engine::uci::options::") or norm(b.name).startswith("engine::options::") or \
                "options::EngineOptions as" in b.name or norm(b.name) == "engine::uci::uci":
            # the dispatcher / main loop (the hash value's path from there is C13-RANGE + C13-ZERO), the setters and the derives
            continue
        flds = set()

        def visit(pl):
            for (adt, fld) in place_fields(pl):
                if adt.endswith("options::EngineOptions"):
                    flds.add(fld)
        for bb, j, st in b.stmts():
            rv = st.get("rv")
            if rv:
                for o in b.rvalue_operands(rv):
                    if isinstance(o, dict) and "pl" in o:
                        visit(o["pl"])
        for bb, t in b.calls():
            for a in t["args"]:
                if "pl" in a:
                    visit(a["pl"])
        if flds:
            out[b.name] = flds
    return out


def rule_consume(fx, rep, ex):
    readers = option_readers(fx, ex)
    rep.sample({"rule": "C13-CONSUME", "readers": {k: sorted(v) for k, v in readers.items()}})
    numeric = {k for k, v in readers.items() if v - {"syzygy_path"}}
    if not numeric:
        rep.violation("C13-CONSUME", "C13-CONSUME/anchor", "no function outside the dispatcher reads a numeric EngineOptions field (expected at least TimeStrategy::new reading move_overhead)", {})
        rep.rule("C13-CONSUME", 0, 1, False)
        return
    pC04.run_cone(fx, rep, "C13-CONSUME", sorted(numeric), pC04.exempt_roots(fx), 4)


def option_names(fx):
    """option type path -> NAME string"""
    out = {}
    for k, v in fx.consts.items():
        n = norm(k)
        if n.endswith("UciOption>::NAME") and "str" in v:
            ty = n[1:].split(" as ")[0]
            out[ty] = v["str"]
    return out


def rule_adv(fx, rep, ex, arms):
    ok = True
    n = 0

    def bad(key, msg, line=None):
        nonlocal ok
        ok = False
        rep.violation("C13-ADV", f"C13-ADV/{key}", msg, {"fn": ex.name, "file": ex.file, "line": line or ex.line})

    names = option_names(fx)
    _, uci_region = arms["Uci"]
    advertised = {}
    for bb in sorted(uci_region):
        t = ex.blocks[bb]["term"]
        if t["k"] == "call" and norm(callee_name(t) or "").endswith("UciResponse::option"):
            g = t["func"].get("gargs", [])
            ty = norm(g[0]) if g else "?"
            advertised[ty] = names.get(ty)
    _, so_region = arms["SetOption"]
    handled = {}
    for bb in sorted(so_region):
        t = ex.blocks[bb]["term"]
        if t["k"] == "call" and (norm(callee_name(t) or "").endswith("str::traits::eq") or t["func"].get("fn_full") == "<str as std::cmp::PartialEq>::eq"):
            lit = [const_str(a) for a in t["args"] if a.get("k") == "const" and const_str(a) is not None]
            if not lit:
                continue
            # the setter called under the true edge of this comparison
            setters = set()
            for bb2 in sorted(so_region):
                t2 = ex.blocks[bb2]["term"]
                if t2["k"] == "call":
                    cn = norm(callee_name(t2) or "")
                    if cn.endswith("::set") and "uci::options::" in cn:
                        for (e, pol, where) in guard_conditions(ex, bb2, expand_named=True):
                            if where[0] == t.get("target") and pol is True:
                                setters.add(cn[: -len("::set")])
            handled[lit[0]] = setters
    rep.sample({"rule": "C13-ADV", "advertised": advertised, "handled": {k: sorted(v) for k, v in handled.items()}})
    for ty, nm in sorted(advertised.items()):
        n += 1
        good = nm is not None and nm in handled and handled[nm] == {ty}
        rep.obligation(good)
        if not good:
            bad(f"advertised/{ty}", f"option `{nm}` ({ty}) is advertised by `uci` but `setoption` dispatches that name to {sorted(handled.get(nm, []))}: "
                "setting it makes execute() return Err, which ends the command loop")
    for nm, setters in sorted(handled.items()):
        n += 1
        good = nm in advertised.values()
        rep.obligation(good)
        if not good:
            bad(f"handled/{nm}", f"`setoption name {nm}` is handled but the option is never advertised by `uci`")
    rep.rule("C13-ADV", n, 8, ok, "advertised option set == handled option set")


def def_body_fields(fx, ty):
    """field values of the DEF aggregate of option type `ty`: (variant, {field: const})"""
    for k, b in fx.bodies.items():
        n = norm(k)
        if n.endswith("UciOption>::DEF") and n[1:].split(" as ")[0] == ty:
            for bb, j, s in b.stmts():
                rv = s.get("rv")
                if rv and rv["k"] == "agg" and rv.get("agg") == "adt" and norm(rv["adt"]).endswith("UciOptionType"):
                    vals = {}
                    for fname, op in zip(rv["fields"], rv["ops"]):
                        e = b.expr(op, expand_named=True)
                        vals[fname] = e[1] if isinstance(e, tuple) and e[0] == "const" else None
                    return rv["variant"], vals
    return None, {}


def rule_range(fx, rep, ex, arms):
    ok = True
    n = 0

    def bad(key, msg, b=None):
        nonlocal ok
        ok = False
        rep.violation("C13-RANGE", f"C13-RANGE/{key}", msg, {"fn": (b or ex).name, "file": (b or ex).file, "line": (b or ex).line})

    names = option_names(fx)
    spin = {}
    for ty, nm in sorted(names.items()):
        variant, vals = def_body_fields(fx, ty)
        if variant != "Spin":
            continue
        spin[ty] = vals
        n += 1
        good = all(isinstance(vals.get(k), int) for k in ("default", "min", "max")) and vals["min"] <= vals["default"] <= vals["max"]
        rep.obligation(good)
        rep.sample({"rule": "C13-RANGE", "option": nm, **vals})
        if not good:
            bad(f"def/{nm}", f"option `{nm}` advertises default {vals.get('default')} outside [min {vals.get('min')}, max {vals.get('max')}]")
        # setter: parse::<usize>() of the value, stored into exactly one EngineOptions field
        sb = fx.body(ty + "::set")
        n += 1
        good = sb is not None
        if good:
            writes = [(bb, j, s) for bb, j, s in sb.stmts() if s["k"] == "assign" and any(isinstance(p, dict) and norm(p.get("adt", "")).endswith("EngineOptions") for p in s["lhs"].get("p", []))]
            good = len(writes) == 1
            if good:
                e = sb.expr(writes[0][2]["rv"].get("op"), expand_named=True)
                good = bool(find_calls(e, "str::parse")) or bool(find_calls(e, "FromStr>::from_str"))
                if not good:
                    # parsed by a shared helper of the options module that is handed the value text
                    for c in [x for x in walk(e) if isinstance(x, tuple) and x and x[0] == "call" and isinstance(x[1], str)]:
                        hb = fx.body(c[1])
                        if hb is not None and norm(hb.name).startswith("engine::uci::options::") and \
                                any(norm(callee_name(t2) or "").endswith("str::parse") or norm(callee_name(t2) or "").endswith("FromStr>::from_str") for _, t2 in hb.calls()) and \
                                any(isinstance(y, tuple) and len(y) >= 2 and y[0] == "arg" and y[1] == 2 for a in c[2] for y in walk(a)):
                            good = True
        rep.obligation(good)
        if not good:
            bad(f"setter/{nm}", f"the setter of `{nm}` does not store the parsed value into exactly one EngineOptions field", sb)
    # hash: value reaches resize; arithmetic at max cannot overflow
    hash_ty = [ty for ty, nm in names.items() if nm == "Hash"]
    n += 1
    good = False
    _, so_region = arms["SetOption"]
    for bb in sorted(so_region):
        t = ex.blocks[bb]["term"]
        if t["k"] == "call" and norm(callee_name(t) or "").endswith("TranspositionTable::resize"):
            e = ex.expr(t["args"][1], expand_named=True)
            if hash_ty and find_calls(e, hash_ty[0] + "::set"):
                good = True
    rep.obligation(good)
    if not good:
        bad("hash-resize", "the value accepted by `setoption name Hash` does not reach TranspositionTable::resize")
    # ... on every run: once the setter has accepted the text, the arm cannot finish without having tried to take the shared
    # state (where the table is resized, or the refusal is reported). A shortcut decided from EngineOptions alone ("same value
    # as configured") is wrong whenever an earlier attempt was refused during a search: the option then already holds the value
    # the table never received (seed C13-5a)
    if hash_ty:
        n += 1
        setc = [bb for bb in sorted(so_region) if ex.blocks[bb]["term"]["k"] == "call" and fx.body(callee_name(ex.blocks[bb]["term"]) or "") is not None and
                norm(fx.body(callee_name(ex.blocks[bb]["term"])).name) == norm(hash_ty[0] + "::set")]
        locks = [bb for bb in so_region if ex.blocks[bb]["term"]["k"] == "call" and norm(callee_name(ex.blocks[bb]["term"]) or "").split("::")[-1] in ("try_lock", "lock")]
        errs = [bb for bb in so_region if ex.blocks[bb]["term"]["k"] == "call" and norm(callee_name(ex.blocks[bb]["term"]) or "").endswith("from_residual")]
        good = True
        if len(setc) == 1 and locks:
            r = ex.reachable(ex.blocks[setc[0]]["term"]["target"], removed_blocks=locks + errs)
            escapes = [x for bb in r if bb in so_region for x in ex.succ(bb) if x not in so_region and ex.blocks[x]["term"]["k"] != "unreachable"]
            good = not escapes
        else:
            rep.notes.append("C13-RANGE: the Hash arm does not have one setter call followed by a lock attempt; the every-run clause is not decided")
        rep.obligation(good)
        if not good:
            bad("hash-resize/skipped", "the Hash arm can finish, with the value accepted, without trying to take the shared state: the table is then not resized although EngineOptions records the new size (e.g. the same value sent again after a `setoption` that was refused during a search)")
    cne = fx.one("transposition_table::calculate_number_of_entries")
    mx = spin.get(hash_ty[0], {}).get("max") if hash_ty else None
    n += 1
    prod = 1
    for bb, j, s in cne.stmts():
        rv = s.get("rv")
        if rv and rv["k"] == "binop" and rv["op"] in ("MulWithOverflow", "Mul"):
            for o in (rv["a"], rv["b"]):
                if o.get("k") == "const" and "int" in o:
                    prod *= o["int"]
    good = isinstance(mx, int) and mx * prod < 2 ** 64 and prod > 1
    rep.obligation(good)
    rep.sample({"rule": "C13-RANGE", "hash_max": mx, "byte_multiplier": prod})
    if not good:
        bad("hash-overflow", f"size arithmetic `size_mb * {prod}` overflows usize for the advertised maximum Hash={mx}", cne)
    # division by the entry size: constant non-zero (size_of) — discharged by type: size_of::<Entry>() > 0 since the entry holds a u64 key
    rep.rule("C13-RANGE", n, 8, ok, "spin ranges, setters, hash value flow and size arithmetic")


U = "src/engine/uci/mod.rs"
O = "src/engine/uci/options.rs"
TTF = "src/engine/transposition_table.rs"
MUTANTS = [
    {"name": "hard stop clamped between the overhead and the per-move maximum (seed C13-10a)", "expect": "C13-CONSUME",
     "edits": __import__("shared_mutants").edits_from_patch("seeded/C13-10a/patch.diff")},
    {"name": "the search thread sweeps stale entries out of the table after bestmove, still holding the lock (delivered as C13-9a; its timing-dependent demonstration was not confirmed)", "expect": "C13-NOLOCK/after-bestmove/sweep",
     "edits": __import__("shared_mutants").edits_from_patch("engine/rules/fixtures/c13_sweep_after_bestmove.diff")},
    {"name": "table cleared in len.div_ceil(4)-sized chunks: chunk size 0 for the empty table (seed C13-6a)", "expect": "C13-TABLE",
     "edits": [(TTF, "        for i in 0..self.data.len() {\n            self.data[i] = None;\n        }\n\n        self.generation = 0;", "        let block_size = self.data.len().div_ceil(4);\n        for block in self.data.chunks_mut(block_size) {\n            block.fill(None);\n        }\n\n        self.generation = 0;")]},
    {"name": "Hash value equal to the configured one is not applied (seed C13-5a)", "expect": "C13-RANGE/hash-resize/skipped",
     "edits": [(O, "    pub fn set(options: &mut EngineOptions, value: &str) -> Result<usize, String> {\n        let hash_size = value.parse::<usize>().map_err(|_| \"Invalid value\")?;\n", "    pub fn set(options: &mut EngineOptions, value: &str) -> Result<Option<usize>, String> {\n        let hash_size = value.parse::<usize>().map_err(|_| \"Invalid value\")?;\n        if hash_size == options.hash_size {\n            return Ok(None);\n        }\n"),
               (O, "        options.hash_size = hash_size;\n        Ok(hash_size)", "        options.hash_size = hash_size;\n        Ok(Some(hash_size))"),
               (U, "                        let new_size = options::HashOption::set(&mut self.options, value)?;\n", "                        let new_size = options::HashOption::set(&mut self.options, value)?;\n                        if let Some(new_size) = new_size {\n"),
               (U, "                                .generic_report(\"error: Unable to change TT size during search\");\n                        }\n", "                                .generic_report(\"error: Unable to change TT size during search\");\n                        }\n                        }\n")]},
    {"name": "option name rebuilt without its spaces (seed C13-5b)", "expect": "C13-NAME/Move Overhead",
     "edits": [("src/engine/uci/parser.rs", "            name: name.to_string(),\n            value: value.to_string(),", "            name: name.split_whitespace().collect(),\n            value: value.trim().to_string(),")]},
    {"name": "benign: option name and value trimmed", "benign": True,
     "edits": [("src/engine/uci/parser.rs", "            name: name.to_string(),\n            value: value.to_string(),", "            name: name.trim().to_string(),\n            value: value.trim().to_string(),")]},
    {"name": "Hash setter validates with a half-open range (seed C13-3)", "expect": "C13-ACCEPT/Hash",
     "edits": [(O, "        let hash_size = value.parse::<usize>().map_err(|_| \"Invalid value\")?;\n", "        let hash_size = value.parse::<usize>().map_err(|_| \"Invalid value\")?;\n\n        if let UciOptionType::Spin { min, max, .. } = Self::DEF {\n            if !(min..max).contains(&hash_size) {\n                return Err(format!(\"Value must be between {min} and {max}\"));\n            }\n        }\n")]},
    {"name": "benign: Hash setter validates with the closed range", "benign": True,
     "edits": [(O, "        let hash_size = value.parse::<usize>().map_err(|_| \"Invalid value\")?;\n", "        let hash_size = value.parse::<usize>().map_err(|_| \"Invalid value\")?;\n\n        if let UciOptionType::Spin { min, max, .. } = Self::DEF {\n            if hash_size < min || hash_size > max {\n                return Err(format!(\"Value must be between {min} and {max}\"));\n            }\n        }\n")]},
    {"name": "move overhead subtracted with a panicking Duration subtraction (seed C13-1)", "expect": "C13-CONSUME",
     "edits": [("src/engine/search/time_control.rs", "                let mut time_remaining = time_remaining.unwrap_or_default();\n\n                time_remaining = time_remaining\n                    .saturating_sub(move_overhead)\n                    .max(move_overhead);",
                "                let time_remaining =\n                    (time_remaining.unwrap_or_default() - move_overhead).max(move_overhead);")]},
    {"name": "Hash 0 guard removed from insert (original defect)", "expect": "C13-ZERO",
     "edits": [(TTF, "        // A table with no entries (Hash = 0) stores nothing\n        if self.data.is_empty() {\n            return;\n        }\n", "")]},
    {"name": "option advertised without a handler", "expect": "C13-ADV",
     "edits": [(U, "                    options::MoveOverheadOption::NAME => {\n                        options::MoveOverheadOption::set(&mut self.options, value)\n                    }\n", "")]},
    {"name": "name dispatched to the wrong setter", "expect": "C13-ADV",
     "edits": [(U, "                    options::MoveOverheadOption::NAME => {\n                        options::MoveOverheadOption::set(&mut self.options, value)", "                    options::MoveOverheadOption::NAME => {\n                        options::ThreadsOption::set(&mut self.options, value)")]},
    {"name": "Hash max raised to 2^45 MB", "expect": "C13-RANGE/hash-overflow",
     "edits": [(O, "        min: 0,\n        max: 1024,", "        min: 0,\n        max: 35_184_372_088_832,")]},
    {"name": "Threads default outside range", "expect": "C13-RANGE/def",
     "edits": [(O, "        min: 1,\n        max: 1,", "        min: 2,\n        max: 4,")]},
    {"name": "setoption Hash no longer resizes", "expect": "C13-RANGE/hash-resize",
     "edits": [(U, "                            tt_handle.tt.resize(new_size);", "                            tt_handle.tt.resize(self.options.threads);")]},
    {"name": "setoption takes the blocking lock", "expect": "C13-NOLOCK",
     "edits": [(U, "                        if let Ok(mut state_handle) = self.persistent_state.try_lock() {", "                        if let Ok(mut state_handle) = self.persistent_state.lock() {")]},
]
