"""C09 — stopping is safe at every instant: structural clauses C09-ERR, C09-POLL, C09-IMM, C09-FALLBACK
(DESIGN.md §3)."""
from facts import (option_guard, norm, show, walk, strip_refs, deep_strip, is_call_to, callee_name, find_calls, guard_conditions,
                   cmp_op, switch_edge_conds)
import sh

EXPLANATION = (
    "Decides the unwinding discipline of C09 per call site (hence for every poll index at once), not the legality of "
    "later searches: (ERR) at each of the recursive search call sites the Err edge reaches a return of Err (or, in "
    "iterative deepening, the loop exit) without passing any table insert, PV push, killer/counter-move/history "
    "update, make_move, move-picker step or report; (UNDO) all recursive sites agree on whether the move is taken back before an abort is "
    "propagated (today: never - the search runs on a clone); (POLL) every recursive search function polls should_stop before "
    "any make_move or recursive call and returns Err on its true edge, and should_start_new_search returns true for "
    "depth 1 before reading the stop flag or the clock, and is consulted before every aspiration search; (IMM) "
    "search::search takes `&Game`, Game has no interior mutability, no body in the cone casts that reference to a "
    "mutable pointer, and iterative deepening receives a clone; (FALLBACK) search returns the PV's first move or else "
    "the move picker's first move, and only negamax's guarded push writes the root PV."
)

FORBIDDEN = ("TranspositionTable::insert", "PrincipalVariation::push", "PrincipalVariation::append", "KillersTable::try_push", "CountermoveTable::set",
             "HistoryTable::add_bonus_for", "Game::make_move", "Game::make_null_move", "MovePicker::next", "report_search_progress", "best_move", "generic_report")


def run(fx, rep, tier):
    rule_err(fx, rep)
    rule_undo_discipline(fx, rep)
    rule_poll(fx, rep)
    rule_imm(fx, rep)
    rule_fallback(fx, rep)
    rule_pair(fx, rep)


def rule_pair(fx, rep):
    """Inside the search every move made on the working copy is taken back before the function returns a score: on every path
    from a make_move / make_null_move call to a normal (`Ok`) return lies the matching undo. Abort (`Err`) exits are exempt -
    they leave the copy as it is by design (C09-UNDO) - so a completed search hands the working copy back in the position it
    was given, and sibling moves are searched from the right position."""
    search = fx.one("engine::search::search")
    cone = fx.cone([search.name])
    ok = True
    n = 0
    pairs = (("Game::make_move", "Game::undo_move"), ("Game::make_null_move", "Game::undo_null_move"))
    for nm in sorted(cone):
        b = fx.bodies[nm]
        if b.kind not in ("Fn", "AssocFn") or "::tests::" in nm or norm(nm).startswith("chess::") or "Result<" not in b.local_ty(0):
            continue
        # blocks that produce the Err result
        err_blocks = set()
        for bb, j, st in b.stmts():
            rv = st.get("rv")
            if st["k"] == "assign" and st["lhs"]["l"] == 0 and rv and rv["k"] == "agg" and rv.get("variant") == "Err":
                err_blocks.add(bb)
        for bb, t in b.calls():
            if "from_residual" in norm(callee_name(t) or "") and t["dest"]["l"] == 0:
                err_blocks.add(bb)
        rets = b.return_blocks()
        for mk, un in pairs:
            undo_blocks = [bb for bb, t in b.calls_to(un)]
            for bb, t in b.calls_to(mk):
                n += 1
                tgt = t.get("target")
                reach = b.reachable(tgt, removed_blocks=list(undo_blocks) + list(err_blocks)) if tgt is not None else set()
                good = not any(r in reach for r in rets)
                rep.obligation(good)
                if not good:
                    ok = False
                    rep.violation("C09-PAIR", f"C09-PAIR/{norm(nm).split('::')[-1]}/{mk.split('::')[-1]}", f"`{nm}` line {t.get('line')}: a path from {mk.split('::')[-1]} reaches a normal return without {un.split('::')[-1]}: the working position is left with the move made, "
                                  f"so the moves searched next (and the caller) see the wrong position", {"fn": nm, "file": b.file, "line": t.get("line")})
    rep.rule("C09-PAIR", n, 3, ok, "make / undo paired on every non-abort path of the search functions")


def rule_err(fx, rep):
    ok = True
    sites = sh.recursive_sites(fx)
    n = 0
    for (b, bb, t, cb) in sites:
        n += 1
        rs = sh.result_switch(b, bb, t)
        key = f"C09-ERR/{norm(b.name)}->{norm(cb.name).split('::')[-1]}"
        good, why = True, ""
        if rs is None:
            good, why = False, "the Result of the recursive call is not inspected (no `?` / match on Ok/Err found): an aborted child search would be used as a score"
        elif rs[0] == "tail":
            # `return child(..)`: propagation by construction; the very next thing must be the return
            nxt = t.get("target")
            path = b.reachable(nxt)
            if any(b.blocks[x]["term"]["k"] == "call" for x in path):
                good, why = False, "calls follow a tail-position recursive call before returning"
        else:
            sw, ok_t, err_t, between = rs
            early = [c for c in between if any(c[0].endswith(f) for f in FORBIDDEN)]
            if early:
                good, why = False, f"{early[:2]} run(s) after the child search returned but before its Ok/Err result is inspected, i.e. also when it was aborted"
            elif err_t is None or err_t == ok_t:
                good, why = False, "no distinct Err edge"
            else:
                region = b.reachable(err_t, removed_blocks=[sw])
                calls = []
                for x in sorted(region):
                    tt = b.blocks[x]["term"]
                    if tt["k"] == "call":
                        cn = norm(callee_name(tt) or "")
                        if any(cn.endswith(f) for f in FORBIDDEN) or fx.body(callee_name(tt) or "") is not None and fx.body(callee_name(tt)).name in {s[3].name for s in sites}:
                            calls.append((cn, tt.get("line")))
                    for s in b.blocks[x]["stmts"]:
                        rv = s.get("rv")
                        if s["k"] == "assign" and s["lhs"]["l"] == 0 and rv and rv["k"] == "agg" and rv.get("variant") == "Ok" and "Result" in rv.get("adt", ""):
                            calls.append(("returns Ok(..)", s.get("line")))
                if calls:
                    good, why = False, f"after an aborted child search the function still reaches {calls[:3]}"
                elif not any(b.blocks[x]["term"]["k"] == "return" for x in region):
                    good, why = False, "the Err edge never reaches a return"
                # the Err edge must not re-enter the loop body (no further positions examined)
        rep.obligation(good)
        rep.sample({"rule": "C09-ERR", "site": f"{norm(b.name).split('::')[-1]}:{t.get('line')} -> {norm(cb.name).split('::')[-1]}", "ok": good})
        if not good:
            ok = False
            rep.violation("C09-ERR", key + f"/{ordinal(sites, b, cb, bb)}", f"`{b.name}` line {t.get('line')}: {why}", {"fn": b.name, "file": b.file, "line": t.get("line")})
    rep.rule("C09-ERR", n, 8, ok, "Err-edge discipline at the recursive search call sites")


def rule_undo_discipline(fx, rep):
    """All recursive call sites follow the same discipline about the position on abort: the search runs on a clone
    and an aborted search leaves its made moves in place (no undo on the way out). A site that takes its move back
    before propagating the abort, while the levels below it did not, pops History entries that are not its own."""
    sites = sh.recursive_sites(fx)
    n = 0
    ok = True
    undoing, plain = [], []
    for (b, bb, t, cb) in sites:
        rs = sh.result_switch(b, bb, t)
        if rs is None or rs[0] == "tail":
            continue
        sw, ok_t, err_t, between = rs
        n += 1
        region = b.reachable(err_t, removed_blocks=[sw]) if err_t is not None else set()
        undo_on_err = [c for c in between if c[0].endswith("Game::undo_move") or c[0].endswith("Game::undo_null_move")]
        for x in sorted(region):
            tt = b.blocks[x]["term"]
            if tt["k"] == "call" and (norm(callee_name(tt) or "").endswith("Game::undo_move") or norm(callee_name(tt) or "").endswith("Game::undo_null_move")):
                undo_on_err.append((norm(callee_name(tt)), tt.get("line")))
        (undoing if undo_on_err else plain).append((b, t, undo_on_err))
    good = not (undoing and plain)
    rep.obligation(good, max(1, n))
    rep.sample({"rule": "C09-UNDO", "sites": n, "undo_before_propagating": len(undoing), "propagate_without_undo": len(plain)})
    if not good:
        minority = undoing if len(undoing) <= len(plain) else plain
        for (b, t, u) in minority:
            ok = False
            rep.violation("C09-UNDO", f"C09-UNDO/{norm(b.name)}/{'undo' if u else 'no-undo'}",
                          f"`{b.name}` line {t.get('line')} {'takes the move back (' + str(u[:1]) + ') before' if u else 'does not take the move back before'} propagating an aborted child search, "
                          f"while {len(plain) if u else len(undoing)} other recursive call site(s) do the opposite: an abort then pops or leaves History entries that belong to another level "
                          "(undo_null_move asserts on a real-move entry; undo_move on a null entry)", {"fn": b.name, "file": b.file, "line": t.get("line")})
    rep.rule("C09-UNDO", n, 6, ok, "all recursive sites agree on undo-before-propagate")


def ordinal(sites, b, cb, bb):
    same = sorted(x[1] for x in sites if x[0].name == b.name and x[3].name == cb.name)
    return same.index(bb) + 1


def rule_poll(fx, rep):
    ok = True
    n = 0
    sb = sh.search_bodies(fx)
    sites = sh.recursive_sites(fx)
    for key in sh.SEARCH_FNS[:2]:
        b = sb[key]
        n += 1
        polls = b.calls_to("TimeStrategy::should_stop")
        good, why = len(polls) == 1, f"{len(polls)} should_stop call(s)"
        if good:
            pb, pt = polls[0]
            # true edge -> return Err immediately
            conds = switch_edge_conds(b, pt["target"]) if b.blocks[pt["target"]]["term"]["k"] == "switch" else []
            true_t = [tg for (tg, e, pol, v) in conds if pol is True]
            if not true_t:
                good, why = False, "the poll result is not branched on"
            else:
                region = b.reachable(true_t[0], removed_blocks=[pt["target"]])
                errs = [x for x in region for s in b.blocks[x]["stmts"] if s["k"] == "assign" and s["lhs"]["l"] == 0 and s.get("rv", {}).get("variant") == "Err"]
                has_call = any(b.blocks[x]["term"]["k"] == "call" for x in region)
                if not errs or has_call:
                    good, why = False, "a stop observed at the poll does not lead straight to `return Err(())`"
            # the poll dominates every make_move / recursive call of this body
            for (b2, bb2, t2, cb2) in sites:
                if b2.name == b.name and not b.block_dominates(pb, bb2):
                    good, why = False, f"the recursive call at line {t2.get('line')} is not preceded by the stop poll"
            for mb, mt in b.calls_to("Game::make_move", "Game::make_null_move"):
                if not b.block_dominates(pb, mb):
                    good, why = False, f"make_move at line {mt.get('line')} is not preceded by the stop poll"
        rep.obligation(good)
        if not good:
            ok = False
            rep.violation("C09-POLL", f"C09-POLL/{key}", f"`{b.name}`: {why}", {"fn": b.name, "file": b.file, "line": b.line})
    # should_start_new_search: depth == 1 -> true before reading flag / clock
    ss = fx.one("TimeStrategy::should_start_new_search")
    n += 1
    good, why = False, "no `depth == 1` early return found"
    for i in sorted(ss.live_blocks()):
        t = ss.blocks[i]["term"]
        if t["k"] != "switch":
            continue
        for (tg, e, pol, v) in switch_edge_conds(ss, i):
            co = cmp_op(e)
            if co and co[0] == "Eq" and pol is True and {deep_strip(co[1]), deep_strip(co[2])} == {("arg", 2, ss.local_name(2)), ("const", 1)}:
                # on the true edge: straight to return true, no calls
                region = ss.reachable(tg, removed_blocks=[i])
                calls = [x for x in region if ss.blocks[x]["term"]["k"] == "call"]
                rets_true = any(s["k"] == "assign" and s["lhs"]["l"] == 0 and s["rv"].get("op", {}).get("int") == 1 for x in region for s in ss.blocks[x]["stmts"])
                # flag and clock reads only on the false edge
                readers = [bb for bb, tt in ss.calls() if norm(callee_name(tt) or "").endswith("is_force_stopped") or norm(callee_name(tt) or "").endswith("TimeStrategy::elapsed")]
                false_t = [tg2 for (tg2, e2, pol2, v2) in switch_edge_conds(ss, i) if pol2 is False]
                dom = all(ss.edge_dominates(i, false_t[0], r) for r in readers) if false_t else False
                if not calls and rets_true and dom and readers:
                    good = True
                else:
                    why = "for depth 1 the function reads the stop flag or the clock before answering (a stop raised before the first poll then yields no iteration at all)"
    rep.obligation(good)
    if not good:
        ok = False
        rep.violation("C09-POLL", "C09-POLL/depth1", f"should_start_new_search: {why}", {"fn": ss.name, "file": ss.file, "line": ss.line})
    # consulted before every aspiration search
    idb = sb["search::iterative_deepening::search"]
    for (b, bb, t, cb) in sites:
        if b.name != idb.name:
            continue
        n += 1
        good = False
        for (e, pol, where) in guard_conditions(idb, bb, expand_named=True):
            if isinstance(e, tuple) and e[0] == "call" and e[1].endswith("should_start_new_search") and pol is True:
                good = True
        rep.obligation(good)
        if not good:
            ok = False
            rep.violation("C09-POLL", "C09-POLL/iteration-gate", "an aspiration search is started without should_start_new_search(depth) being true", {"fn": idb.name, "file": idb.file, "line": t.get("line")})
    # a stop request / expired limit is observed at the poll: shared with C05-STOPFLAG (c)
    import pC05
    n += 1
    ign = pC05.stop_ignored(fx)
    rep.obligation(not ign)
    for key, msg, site in ign:
        ok = False
        rep.violation("C09-POLL", "C09-POLL/" + key, msg + ": the polling points reached meanwhile do not observe a stop request, and the search goes on examining positions", site)
    # ... and the request is still there when the poll looks: the shared flag is only ever raised (C05-STOPFLAG's writer clause,
    # re-reported; seed C09-10a: a `start()` at the top of search() that stores false wipes a stop that arrived just before)
    import core as _core
    _sub = type(rep)(rep.prop, rep.tier)
    _q = _core.QUIET
    _core.QUIET = True
    try:
        _ex = fx.one("uci::Uci::execute")
        pC05.rule_stopflag(fx, _sub, _ex, pC05.arm_regions(fx, _ex))
    finally:
        _core.QUIET = _q
    for v in _sub.violations:
        if v["key"].startswith("C05-STOPFLAG/writer/"):
            n += 1
            ok = False
            rep.obligation(False)
            rep.violation("C09-POLL", v["key"].replace("C05-STOPFLAG/writer/", "C09-POLL/flag-writer/"), v["msg"] + " (no polling point observes that stop)", v["site"])
    # ... an expired limit is observed too: no finite limit is mistaken for "no limit" (C05-LIMIT, re-reported; seed C09-6b)
    lf, ln, lnotes = pC05.limit_verdicts(fx)
    n += max(1, ln)
    rep.obligation(not lf, max(1, ln))
    for fn_, key, msg in lf:
        ok = False
        b_ = fx.one(fn_)
        rep.violation("C09-POLL", "C09-POLL/limit/" + key, msg + " - every poll then ignores the expired limit", {"fn": b_.name, "file": b_.file, "line": b_.line})
    # ... and the polling functions cannot panic themselves (a panic at a polling point is the opposite of unwinding with a
    # move): their panic sites are discharged as in C04-CONE (same interval arguments and class table)
    import core
    import pC04
    sub = type(rep)(rep.prop, rep.tier)
    q = core.QUIET
    core.QUIET = True
    try:
        pC04.run_cone(fx, sub, "C09-POLL/panic", [fx.one("TimeStrategy::should_stop").name, ss.name], pC04.exempt_roots(fx), 0)
    finally:
        core.QUIET = q
    for v in sub.violations:
        ok = False
        rep.violation("C09-POLL", v["key"], v["msg"] + " - at a polling point: the search thread dies there instead of unwinding with a move", v["site"])
    n += sub.obligations
    rep.obligations += sub.obligations
    rep.discharged += sub.discharged
    rep.rule("C09-POLL", n, 5, ok, "stop polls before any move is made, honour the flag and cannot panic; depth 1 always started")


def rule_imm(fx, rep):
    ok = True
    n = 0
    search = fx.one("engine::search::search")
    n += 1
    good = search.local_ty(1) == "&chess::game::Game"
    rep.obligation(good)
    if not good:
        ok = False
        rep.violation("C09-IMM", "C09-IMM/signature", f"search::search takes its position as `{search.local_ty(1)}`, not `&Game`", {"fn": search.name, "file": search.file, "line": search.line})
    n += 1
    g = fx.adt("chess::game::Game")
    good = g.get("freeze") is True
    rep.obligation(good)
    if not good:
        ok = False
        rep.violation("C09-IMM", "C09-IMM/freeze", "chess::game::Game has interior mutability (not Freeze): a `&Game` no longer guarantees the caller's position is untouched", {"fn": search.name})
    cone = fx.cone([search.name])
    casts = []
    for nm in sorted(cone):
        b = fx.bodies[nm]
        for bb, j, s in b.stmts():
            rv = s.get("rv")
            if rv and rv["k"] == "cast" and "Game" in rv.get("from", "") and ("*mut" in rv.get("to", "") or "&mut" in rv.get("to", "")) and not rv.get("from", "").startswith("&mut") and not rv.get("from", "").startswith("*mut"):
                casts.append((nm, s.get("line")))
            if rv and rv["k"] == "cast" and "Transmute" in rv.get("cast", "") and "Game" in rv.get("from", "") + rv.get("to", "") and "usize" not in rv.get("to", "") and "*const ()" not in rv.get("to", ""):
                casts.append((nm, s.get("line")))
    n += 1
    rep.obligation(not casts)
    if casts:
        ok = False
        rep.violation("C09-IMM", "C09-IMM/cast", f"a shared Game reference is cast to a mutable pointer/reference in {casts[:3]}", {"fn": casts[0][0], "line": casts[0][1]})
    # iterative deepening gets a clone
    n += 1
    good = False
    for bb, t in search.calls():
        cb = fx.body(callee_name(t) or "")
        if cb is not None and norm(cb.name).endswith("iterative_deepening::search"):
            e = search.expr(t["args"][0], expand_named=True)
            while isinstance(e, tuple) and e and e[0] in ("ref", "deref"):
                e = e[1]
            good = isinstance(e, tuple) and e[0] == "call" and e[1].endswith("Clone>::clone") and deep_strip(e[2][0]) == ("arg", 1, search.local_name(1))
    rep.obligation(good)
    if not good:
        ok = False
        rep.violation("C09-IMM", "C09-IMM/clone", "iterative deepening is not run on a clone of the given position", {"fn": search.name, "file": search.file, "line": search.line})
    rep.rule("C09-IMM", n, 4, ok, "&Game + Freeze + no mutable cast + clone")


def rule_fallback(fx, rep):
    ok = True
    n = 0
    search = fx.one("engine::search::search")
    n += 1
    # every return: tablebase move, or unwrap_or_else(pv.first().copied(), panic_move closure)
    rets = []
    for d in search.defs().get(0, []):
        if d[0] == "call":
            t = d[2]
            rets.append((d[1], ("call", norm(callee_name(t) or ""), tuple(search.expr(a, expand_named=True, at=d[1]) for a in t["args"]))))
        elif d[0] == "stmt":
            rv = d[3]["rv"]
            rets.append((d[1], search.expr(rv.get("op"), expand_named=True, at=d[1]) if rv["k"] == "use" else ("rv", rv["k"])))
    good = bool(rets)
    detail = []
    for bb, e in rets:
        kind = None
        if isinstance(e, tuple) and e[0] == "call" and e[1].endswith("Option::unwrap_or_else"):
            first = find_calls(e[2][0], "PrincipalVariation::first")
            clos = [x for x in walk(e[2][1]) if isinstance(x, tuple) and x and ((x[0] == "agg" and str(x[1]).startswith("closure:")) or x[0] == "closure")]
            cname = None
            if clos:
                cname = clos[0][1][len("closure:"):] if clos[0][0] == "agg" else clos[0][1]
            cb = fx.bodies.get(cname) if cname else None
            calls_pm = cb is not None and bool(cb.calls_to("search::panic_move"))
            if first and calls_pm:
                kind = "pv-first-or-panic-move"
        elif find_calls(e, "Tablebase::best_move"):
            kind = "tablebase"
        elif isinstance(e, tuple) and e and e[0] == "call" and str(e[1]).endswith("search::panic_move"):
            # `match pv.first().copied() { Some(m) => m, None => panic_move(..) }`: the fallback arm
            pol_none = False
            for (ge, gp, gw) in guard_conditions(search, bb, expand_named=True):
                og = option_guard(ge, gp)
                if og is not None and og[1] is False and find_calls(og[0], "PrincipalVariation::first"):
                    pol_none = True
            kind = "panic-move-arm" if pol_none else None
        elif find_calls(e, "PrincipalVariation::first"):
            kind = "pv-first-arm"
        detail.append(kind)
        if kind is None:
            good = False
    if ("pv-first-arm" in detail) != ("panic-move-arm" in detail):
        good = False
    rep.obligation(good)
    rep.sample({"rule": "C09-FALLBACK", "returns": detail})
    if not good:
        ok = False
        rep.violation("C09-FALLBACK", "C09-FALLBACK/return", f"search::search has a return that is neither `pv.first()` with the panic-move fallback nor a tablebase move: {[show(e)[:80] for _, e in rets]}",
                      {"fn": search.name, "file": search.file, "line": search.line})
    # the fallback move is generated for the position the caller handed in (the `&Game` parameter, never written: C09-IMM),
    # not for the working copy the aborted search leaves at some inner node
    from facts import resolve_captures
    n += 1
    good = False
    seen_pm = 0
    for b in fx.bodies.values():
        if "::tests::" in b.name:
            continue
        for bb, t in b.calls_to("search::panic_move"):
            seen_pm += 1
            g = b.expr(t["args"][0], expand_named=True, at=bb)
            if b.kind == "Closure":
                g = resolve_captures(fx, b, g)
            g = deep_strip(g)
            root = b if b.kind != "Closure" else fx.bodies.get(b.parent)
            good = root is search and isinstance(g, tuple) and g[:2] == ("arg", 1)
            if not good:
                ok = False
                rep.violation("C09-FALLBACK", "C09-FALLBACK/panic-move-position", f"panic_move is given `{show(g)[:80]}`, not the position passed to search::search: after an abort the search's working copy is left at an inner node, so the fallback move would be one of that node's moves",
                              {"fn": b.name, "file": b.file, "line": t.get("line")})
    rep.obligation(good and seen_pm >= 1)
    # panic_move: first move of a fresh move picker
    pms = fx.find("search::panic_move")
    n += 1
    if len(pms) == 1:
        pm = pms[0]
        nx = pm.calls_to("MovePicker::next")
        good = len(nx) == 1 and bool(pm.calls_to("MovePicker::new"))
        rep.obligation(good)
        if not good:
            ok = False
            rep.violation("C09-FALLBACK", "C09-FALLBACK/panic_move", "panic_move does not take the first move of a fresh MovePicker", {"fn": pm.name, "file": pm.file, "line": pm.line})
    else:
        # no fallback function: the return clause above has already reported it if search() can end without a move
        rep.obligation(not ok)
        if ok:
            ok = False
            rep.violation("C09-FALLBACK", "C09-FALLBACK/panic_move", "there is no fallback move (`panic_move`): a search aborted before its first root move is scored has no move to return", {"fn": search.name, "file": search.file, "line": search.line})
    # writers of a PV inside the search cone: push only from negamax
    neg = fx.one("search::negamax::negamax")
    cone = fx.cone([search.name])
    for meth in ("PrincipalVariation::push", "PrincipalVariation::append", "PrincipalVariation::clear"):
        for (b, bb, t) in fx.callers_of(lambda nm, meth=meth: nm.endswith(meth)):
            if b.name not in cone or "::tests::" in b.name:
                continue
            if "principal_variation::PrincipalVariation::" in norm(b.name):
                continue  # one PV method built from another: the writer that matters is the caller of the outer method
            n += 1
            allowed = {"PrincipalVariation::push": {neg.name}, "PrincipalVariation::clear": {neg.name},
                       "PrincipalVariation::append": {fx.one("search::get_tablebase_pv").name}}[meth]
            good = b.name in allowed or any(b.name.startswith(a + "::{closure") for a in allowed)  # a closure of an allowed writer is that writer
            if not good:
                # a private helper split off an allowed writer: every caller (transitively, up to three levels) is allowed
                frontier, seen_h = {b.name}, set()
                for _ in range(3):
                    cs = set()
                    for h in frontier:
                        hc = fx.callers_of(lambda nm, h=h: fx.body(nm) is not None and fx.body(nm).name == h)
                        if not hc:
                            cs.add(None)
                        cs |= {cb.name for (cb, _b2, _t2) in hc}
                    seen_h |= frontier
                    frontier = {c for c in cs if c is not None and c not in allowed and c not in seen_h}
                    if None in cs:
                        break
                    if not frontier:
                        good = True
                        break
            rep.obligation(good)
            if not good:
                ok = False
                rep.violation("C09-FALLBACK", f"C09-FALLBACK/pv-writer/{norm(b.name)}", f"`{b.name}` modifies a principal variation via {meth}; only negamax's guarded push may write the root PV", {"fn": b.name, "file": b.file, "line": t.get("line")})
    rep.rule("C09-FALLBACK", n, 4, ok, "fallback move structure and PV writers")


NG = "src/engine/search/negamax.rs"
QS = "src/engine/search/quiescence.rs"
AS = "src/engine/search/aspiration.rs"
ID = "src/engine/search/iterative_deepening.rs"
TC = "src/engine/search/time_control.rs"
SM = "src/engine/search/mod.rs"
MUTANTS = [
    {"name": "poll throttle by exact match on the node count (seed C09-11a)", "expect": "C09-POLL/poll/throttle-exact",
     "edits": __import__("shared_mutants").edits_from_patch("seeded/C09-11a/patch.diff")},
    {"name": "table store on the abort path behind a closure that wraps the recursive calls (seed C09-14a)", "expect": "C09-ERR/engine::search::negamax::negamax->{closure#1}",
     "edits": __import__("shared_mutants").edits_from_patch("seeded/C09-14a/patch.diff")},
    {"name": "TimeStrategy::start() at the top of search() lowers the stop flag (seed C09-10a)", "expect": "C09-POLL/flag-writer/start",
     "edits": __import__("shared_mutants").edits_from_patch("seeded/C09-10a/patch.diff")},
    {"name": "poll margin subtracted from a fixed move time (seed C09-5b)", "expect": "C09-POLL/panic",
     "edits": [("src/engine/search/time_control.rs", "            TimeControl::ExactTime(time) => self.elapsed() > time,", "            TimeControl::ExactTime(time) => self.elapsed() > time - Duration::from_millis(10),")]},
    {"name": "null move taken back only on a cut-off", "expect": "C09-PAIR/negamax/make_null_move",
     "edits": [(NG, "            game.undo_null_move();\n\n            if null_score >= beta {\n                return Ok(null_score);\n            }", "            if null_score >= beta {\n                game.undo_null_move();\n                return Ok(null_score);\n            }")]},
    {"name": "fallback move generated from the search's working copy (seed C09-2)", "expect": "C09-FALLBACK/panic-move-position",
     "edits": [(SM, "    iterative_deepening::search(\n        // Give the search its own copy of the game so we don't get one returned in a dirty state\n        // when the search aborts.\n        &mut game.clone(),\n        &mut ctx,\n        &mut pv,\n        reporter,\n    );",
                "    let mut game = game.clone();\n\n    iterative_deepening::search(&mut game, &mut ctx, &mut pv, reporter);"),
               (SM, "    best_move.unwrap_or_else(|| panic_move(game, &ctx))", "    best_move.unwrap_or_else(|| panic_move(&game, &ctx))")]},
    {"name": "aborted reduced search treated as a draw score", "expect": "C09-ERR",
     "edits": [(NG, "                depth.saturating_sub(reduction),\n                plies + 1,\n                &mut node_pv,\n                ctx,\n            )?;", "                depth.saturating_sub(reduction),\n                plies + 1,\n                &mut node_pv,\n                ctx,\n            ).unwrap_or(Eval::DRAW);")]},
    {"name": "quiescence swallows the abort", "expect": "C09-ERR",
     "edits": [(QS, "        let move_score = -quiescence(game, -beta, -alpha, plies + 1, ctx)?;", "        let move_score = -quiescence(game, -beta, -alpha, plies + 1, ctx).unwrap_or(alpha);")]},
    {"name": "aspiration reports partial result on abort", "expect": "C09-ERR",
     "edits": [(AS, "        let Ok(eval) = negamax::negamax(game, window.alpha, window.beta, depth, 0, pv, ctx) else {\n            return Err(());\n        };", "        let Ok(eval) = negamax::negamax(game, window.alpha, window.beta, depth, 0, pv, ctx) else {\n            return Ok(Eval::DRAW);\n        };")]},
    {"name": "iterative deepening reports after an aborted iteration", "expect": "C09-ERR",
     "edits": [(ID, "        let Ok(eval) = aspiration_search(game, depth, overall_eval, pv, ctx) else {\n            break;\n        };", "        let eval = aspiration_search(game, depth, overall_eval, pv, ctx).unwrap_or(Eval::DRAW);")]},
    {"name": "null-move abort keeps searching", "expect": "C09-ERR",
     "edits": [(NG, "                &mut PrincipalVariation::new(),\n                ctx,\n            )?;", "                &mut PrincipalVariation::new(),\n                ctx,\n            ).unwrap_or(beta);")]},
    {"name": "should_start_new_search reads the flag first", "expect": "C09-POLL/depth1",
     "edits": [(TC, "        if depth == 1 {\n            return true;\n        }\n\n        if self.is_force_stopped() {\n            return false;\n        }", "        if self.is_force_stopped() {\n            return false;\n        }\n\n        if depth == 1 {\n            return true;\n        }")]},
    {"name": "quiescence polls after making moves", "expect": "C09-POLL",
     "edits": [(QS, "    if ctx.time_control.should_stop(ctx.nodes_visited) {\n        return Err(());\n    }\n\n    let eval = eval::eval(game);", "    let eval = eval::eval(game);"),
               (QS, "        game.undo_move();\n\n        if move_score > best_eval {", "        game.undo_move();\n\n        if ctx.time_control.should_stop(ctx.nodes_visited) {\n            return Err(());\n        }\n\n        if move_score > best_eval {")]},
    {"name": "fallback removed", "expect": "C09-FALLBACK/return",
     "edits": [(SM, "    best_move.unwrap_or_else(|| panic_move(game, &ctx))", "    let _ = panic_move;\n    best_move.unwrap()")]},
    {"name": "iteration gate dropped", "expect": "C09-POLL/iteration-gate",
     "edits": [(ID, "        if !ctx.time_control.should_start_new_search(depth) {\n            break;\n        }\n", "")]},
    {"name": "history updated before the child's result is inspected", "expect": "C09-ERR",
     "edits": [(QS, "        let move_score = -quiescence(game, -beta, -alpha, plies + 1, ctx)?;", "        let child = quiescence(game, -beta, -alpha, plies + 1, ctx);\n        ctx.history_table.add_bonus_for(game.player, mv, 1);\n        let move_score = -child?;")]},
    {"name": "null move taken back before the abort is propagated (seed C09-1)", "expect": "C09-UNDO",
     "edits": [(NG, "            let null_score = -negamax(\n                game,\n                -beta,\n                -beta + Eval(1),\n                depth - 1 - params::NULL_MOVE_PRUNING_DEPTH_REDUCTION,\n                plies + 1,\n                &mut PrincipalVariation::new(),\n                ctx,\n            )?;\n\n            game.undo_null_move();\n",
                "            let null_result = negamax(\n                game,\n                -beta,\n                -beta + Eval(1),\n                depth - 1 - params::NULL_MOVE_PRUNING_DEPTH_REDUCTION,\n                plies + 1,\n                &mut PrincipalVariation::new(),\n                ctx,\n            );\n\n            game.undo_null_move();\n\n            let null_score = -null_result?;\n")]},
    {"name": "benign: explicit match instead of ?", "benign": True,
     "edits": [(QS, "        let move_score = -quiescence(game, -beta, -alpha, plies + 1, ctx)?;", "        let move_score = match quiescence(game, -beta, -alpha, plies + 1, ctx) {\n            Ok(v) => -v,\n            Err(()) => return Err(()),\n        };")]},
]
