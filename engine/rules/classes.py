"""Class rules for panic sites (DESIGN.md §2.2 'Discharging panic sites'): named patterns with a one-line reason.
A class is keyed by the site's family / callee / operand provenance, never by file or line. `kind`:
  checked    - the predicate verifies the guard or bound that makes the site safe
  belief     - a domain fact confirmed by reading (stated in the evidence so a reviewer can disagree)
  assumption - a recorded assumption of the property (no failing input in reach), counted separately
"""
import re

from facts import norm, show, walk, strip_refs, deep_strip, callee_name, find_calls, guard_conditions, cmp_op, option_guard
import intervals as iv

OPIMPL_RE = re.compile(r"^<engine::eval::(player_eval::Eval|white_eval::WhiteEval|phased_eval::PhasedEval) as std::ops::(Add|Sub|Mul|Div|Neg|AddAssign|SubAssign)")


def bn(site):
    return norm(site.body.name)


def in_fn(site, *suffixes):
    n = bn(site)
    return any(n == s or n.endswith("::" + s) or n.endswith(s) for s in suffixes)


def op0(site):
    return site.ops[0] if site.ops else None


def mentions_move_square(e):
    return bool(find_calls(e, "Move::src", "Move::dst", "squares::castle_squares", "Square::backward"))


def guard_has(site, pred):
    for (e, pol, where) in guard_conditions(site.body, site.bb, expand_named=True):
        if pred(e, pol):
            return True
    return False


def interval_ok(site, fx, extra=None):
    """Arithmetic / bounds site whose result provably fits by interval evaluation."""
    ctx = iv.Ctx(site.body, site.bb, fx, extra)
    if site.family == "arith" and len(site.ops) == 2 and site.what in ("Add", "Sub", "Mul"):
        r = iv.rng(ctx, ("binop", site.what, site.ops[0], site.ops[1]))
        return iv.fits(r, site.ty)
    if site.family == "arith" and site.what in ("Shl", "Shr") and len(site.ops) == 2:
        r = iv.rng(ctx, site.ops[1])
        width = {"u8": 8, "i8": 8, "u16": 16, "i16": 16, "u32": 32, "i32": 32, "u64": 64, "i64": 64, "usize": 64, "isize": 64}.get(site.ty)
        # the shifted value's type decides the width: take it from the first operand when it is a constant literal of known type
        return r is not None and r[0] >= 0 and r[1] < (width or 0)
    if site.family == "arith" and site.what == "Div":
        # signed MIN / -1: divisor constant != -1
        c = iv.rng(ctx, site.ops[1]) if len(site.ops) > 1 else None
        return c is not None and (c[0] > 0 or c[1] < -1)
    if site.family == "arith" and site.what == "OverflowNeg":
        r = iv.rng(ctx, site.ops[0])
        tr = iv.TYPE_RANGE.get(site.ty)
        return r is not None and tr is not None and r[0] > tr[0]
    if site.family == "divzero":
        # find the divisor from the Eq test preceding the assert
        blk = site.body.blocks[site.bb]
        for s in reversed(blk["stmts"]):
            rv = s.get("rv")
            if rv and rv["k"] == "binop" and rv["op"] == "Eq":
                r = iv.rng(ctx, site.body.expr(rv["a"], expand_named=True, at=site.bb))
                return r is not None and (r[0] > 0 or r[1] < 0)
        return False
    if site.family == "bounds" and len(site.ops) == 2:
        ln = iv.rng(ctx, site.ops[0])
        ix = iv.rng(ctx, site.ops[1])
        if ln and ix:
            return 0 <= ix[0] and ix[1] < ln[0]
        up = iv.min_with_const_upper(ctx, site.ops[1])
        return ln is not None and up is not None and up < ln[0]
    return False


def caller_const_arg(site, fx, argidx):
    """every caller passes a constant for parameter argidx: returns the set of constants or None"""
    callers = fx.callers_of(lambda n: fx.body(n) is not None and fx.body(n).name == site.body.name)
    vals = set()
    for (cb, bb, t) in callers:
        e = deep_strip(cb.expr(t["args"][argidx - 1], expand_named=True, at=bb))
        if isinstance(e, tuple) and e[0] == "const" and isinstance(e[1], int):
            vals.add(e[1])
        else:
            return None
    return vals or None


# ---- class predicates ------------------------------------------------------------------------


def c_opimpl(site, fx):
    return site.family == "arith" and OPIMPL_RE.match(bn(site)) is not None


def c_wide_counter(site, fx):
    if site.family != "arith" or site.what != "Add" or site.ty not in ("u32", "u64", "usize", "i64"):
        return False
    c = [deep_strip(o) for o in site.ops]
    return any(isinstance(x, tuple) and x[0] == "const" and isinstance(x[1], int) and 0 <= x[1] <= 100000 for x in c)


def c_plies_undo(site, fx):
    # plies -= 1 in undo_*: paired with the += 1 of the matching make (C02-HIST checks the pairing)
    return site.family == "arith" and site.what == "Sub" and in_fn(site, "Game::undo_move", "Game::undo_null_move") and \
        any(isinstance(x, tuple) and len(x) == 3 and x[0] == "field" and x[2] == "plies" for o in site.ops for x in walk(deep_strip(o)))


def c_undo_after_make(site, fx):
    # history.pop().unwrap() in undo_*: every call of undo_* in the cone is dominated by the matching make_* in the same body
    if not (site.family == "unwrap" and in_fn(site, "Game::undo_move", "Game::undo_null_move") and find_calls(op0(site), "Vec::pop")):
        return False
    un = "Game::undo_null_move" if in_fn(site, "Game::undo_null_move") else "Game::undo_move"
    mk = "Game::make_null_move" if un.endswith("null_move") else "Game::make_move"
    for (cb, bb, t) in fx.callers_of(lambda n: n.endswith(un)):
        if "::tests::" in cb.name or "perft" in cb.name:
            continue
        if not any(cb.block_dominates(mb, bb) for mb, _ in cb.calls_to(mk)):
            return False
    return True


def c_history_mv(site, fx):
    # history.mv.unwrap() / assert!(history.mv.is_none()): make_move records Some(mv), make_null_move None (C02-HIST) and undo kinds are paired with make kinds
    if in_fn(site, "Game::undo_move") and site.family == "unwrap":
        e = deep_strip(op0(site))
        return isinstance(e, tuple) and e[0] == "field" and e[2] == "mv"
    if in_fn(site, "Game::undo_null_move") and site.family == "panic":
        return any("is_none" in str(o) for o in site.ops)
    return False


def c_piece_on_move_square(site, fx):
    # unwrap(piece_at(board, sq)) where sq is named by a legal move (or is Game::remove_at's parameter, whose callers pass such squares)
    if site.family != "unwrap":
        return False
    e = deep_strip(op0(site))
    if not (isinstance(e, tuple) and e[0] == "call" and e[1].endswith("Board::piece_at")):
        return False
    sq = e[2][1]
    if mentions_move_square(sq):
        return True
    if in_fn(site, "Game::remove_at") and isinstance(sq, tuple) and sq[0] == "arg":
        callers = fx.callers_of(lambda n: n.endswith("Game::remove_at"))
        return bool(callers) and all(mentions_move_square(cb.expr(t["args"][1], expand_named=True, at=bb)) for (cb, bb, t) in callers)
    return False


def c_movelist_capacity(site, fx):
    # MoveList (ArrayVec<Move, 218>): 218 is the maximum number of legal moves of any legal position
    if site.family != "capacity" or not bn(site).startswith("chess::movegen::gen::"):
        return False
    ty = site.body.local_ty(site.term["args"][0]["pl"]["l"]) if "pl" in site.term["args"][0] else ""
    return "ArrayVec<chess::moves::Move, 218>" in ty


def c_pv_capacity(site, fx):
    if not ("principal_variation::PrincipalVariation::" in bn(site) and site.family in ("capacity", "unwrap")):
        return False
    # checked part: the line's capacity (evaluated) is at least the maximum search depth
    try:
        depth = fx.const("search::MAX_SEARCH_DEPTH").get("int")
    except Exception:
        return False
    caps = []
    for l in range(len(site.body.locals)):
        m = re.search(r"ArrayVec<chess::moves::Move, (\d+)>", site.body.local_ty(l) or "")
        if m:
            caps.append(int(m.group(1)))
    return bool(caps) and isinstance(depth, int) and min(caps) >= depth


def c_debug_invariant(site, fx):
    # debug_assert!s stating a type invariant this design checks elsewhere (Square < 64, File/Rank < 8, one king per side)
    if site.family != "panic" or not any("debug_assert" in x for x in site.exp):
        return False
    return in_fn(site, "Square::from_index", "Square::from_array_index", "Square::from_bitboard", "File::from_idx", "Rank::from_idx", "Bitboard::single", "zobrist::hash")


def c_unreachable_after_assert(site, fx):
    # `_ => unreachable!()` of File/Rank::from_idx: dead when idx < 8 (callers pass idx % 8, idx / 8 of a square index, or a loop index 0..8)
    return site.family == "panic" and in_fn(site, "File::from_idx", "Rank::from_idx") and any("unreachable" in x for x in site.exp)


def c_square_shift(site, fx):
    # 1u64 << square index: Square < 64 (type invariant, C07-SQ)
    return site.family == "arith" and site.what == "Shl" and in_fn(site, "Square::bb")


def c_square_step(site, fx):
    # Square::north / south: callers never step off the board (pawn pushes from non-final ranks, en-passant victim squares)
    return site.family == "arith" and in_fn(site, "Square::north", "Square::south") and site.ty == "u8"


def c_pop_lsb(site, fx):
    # x & (x - 1): callers only pop from a non-empty set (guarded by any()/iteration)
    return site.family == "arith" and site.what == "Sub" and in_fn(site, "Bitboard::pop_lsb_inplace")


def c_mate_distance(site, fx):
    # +-plies applied only to scores beyond the mate threshold; scores are within +-32000, plies <= 255
    return site.family == "arith" and site.ty == "i16" and in_fn(site, "Eval::with_mate_distance_from_position", "Eval::with_mate_distance_from_root")


def c_is_mate_in_moves(site, fx):
    return site.family == "arith" and in_fn(site, "Eval::is_mate_in_moves") and site.ty == "i16"


def c_phase_accumulator(site, fx):
    # phase_value +- contribution(kind) in 0..=4; bounded by the material on the board (at most 2*(9*4+...) < 300)
    return site.family == "arith" and site.ty == "i16" and in_fn(site, "IncrementalEvalFields::set_at", "IncrementalEvalFields::remove_at")


def c_phased_endgame(site, fx):
    return site.family == "arith" and in_fn(site, "PhasedEval::endgame") and site.ty == "i32"


def c_for_phase(site, fx):
    # 64-bit blend of two i16 values with weights in 0..=24 (C16-BLEND): products < 2^21
    return site.family in ("arith", "unwrap") and in_fn(site, "PhasedEval::for_phase")


def c_move_ordering_i32(site, fx):
    # sums of sentinel constants (<= 1e9), MVV/LVA table entries (<= 30) and history scores (<= HISTORY_MAX_SCORE by min): < 2^31
    return site.family == "arith" and site.ty == "i32" and in_fn(site, "move_ordering::score_tactical", "move_ordering::score_quiet")


def c_history_bonus(site, fx):
    # depth^2 <= 65025; existing score <= HISTORY_MAX_SCORE (clamped by min on every write)
    return site.family == "arith" and site.ty == "i32" and in_fn(site, "HistoryTable::bonus", "HistoryTable::add_bonus_for")


def c_history_decay(site, fx):
    if site.family not in ("arith", "divzero"):
        return False
    body = site.body
    if body.kind == "Closure":
        # `.for_each(|score| *score /= decay_factor)`: the closure captures nothing but the factor parameter
        parent = fx.bodies.get(body.parent)
        if parent is None or not norm(parent.name).endswith("HistoryTable::decay"):
            return False
        caps = []
        for bb, j, st in parent.stmts():
            rv = st.get("rv")
            if rv and rv["k"] == "agg" and rv.get("agg") == "closure" and rv.get("closure") == body.name:
                caps = [deep_strip(parent.expr(o, expand_named=True, at=bb)) for o in rv["ops"]]
        if not caps or not all(isinstance(c, tuple) and c[:2] == ("arg", 2) for c in caps):
            return False
        body = parent
    elif not in_fn(site, "HistoryTable::decay"):
        return False
    view = type("V", (), {"body": body})()
    vals = caller_const_arg(view, fx, 2)
    return vals is not None and all(v not in (0, -1) for v in vals)


def c_trace_component(site, fx):
    # tuner trace counters (TRACE = false in the engine): n * (+-1) and a running i32 sum of piece counts
    return site.family == "arith" and "TraceComponentIncr" in bn(site)


def c_best_move_lower(site, fx):
    # best_move.unwrap() under tt_node_bound == Lower: the bound is set to Lower only after best_move was set for the same move
    if not (site.family == "unwrap" and in_fn(site, "negamax::negamax")):
        return False
    return guard_has(site, lambda e, pol: pol is True and cmp_op(e) is not None and cmp_op(e)[0] == "Eq" and "NodeBound::Lower" in str(e))


def c_aspiration_prev_eval(site, fx):
    # eval.unwrap() only for depth >= ASPIRATION_MIN_DEPTH (>= 2): iterative deepening passes Some(eval) after the first completed iteration
    if not (site.family == "unwrap" and "engine::search::aspiration::" in bn(site)):
        return False
    dp = next((i for i in range(1, site.body.arg_count + 1) if site.body.local_name(i) == "depth"), None)
    if dp is None:
        return False
    ctx = iv.Ctx(site.body, site.bb, fx)
    lo, hi = iv.guard_bounds(ctx, dp)
    return lo is not None and lo >= 2


def c_pv_first(site, fx):
    # pv.first().unwrap() after an Ok iteration: the root search raised alpha at least once since depth 1 runs with a full window
    return site.family == "unwrap" and in_fn(site, "iterative_deepening::search") and bool(find_calls(op0(site), "PrincipalVariation::first"))


def c_panic_move(site, fx):
    # precondition of C04: the position has at least one legal move
    return site.family == "unwrap" and in_fn(site, "search::panic_move")


def c_picker_get(site, fx):
    # self.moves.get(i).unwrap() with i < len (loop index / selection index inside [idx, limit) <= len)
    return site.family == "unwrap" and "move_picker::MovePicker::" in bn(site) and bool(find_calls(op0(site), "slice::get", "ArrayVec::get"))


def c_picker_swap(site, fx):
    return site.family == "index" and site.what == "swap" and "move_picker::MovePicker::" in bn(site)


def c_picker_idx(site, fx):
    # idx - 1 right after next_best_move returned Some (it incremented idx)
    if not (site.family == "arith" and site.what == "Sub" and in_fn(site, "MovePicker::next")):
        return False
    return guard_has(site, lambda e, pol: bool(find_calls(e, "MovePicker::next_best_move")))


def c_picker_scores(site, fx):
    # scores[i] (len 255) indexed by positions of the move list (len <= 218)
    if not (site.family == "bounds" and "move_picker::MovePicker::" in bn(site)):
        return False
    # checked part: the array indexed has at least as many slots as the move list can hold
    ln = deep_strip(site.ops[0]) if site.ops else None
    try:
        cap = fx.const("moves::MAX_LEGAL_MOVES").get("int")
    except Exception:
        cap = None
    if isinstance(ln, tuple) and ln[0] == "const" and isinstance(ln[1], int) and isinstance(cap, int):
        return ln[1] >= cap
    return False


def c_picker_unreachable(site, fx):
    # unreachable!() at the end of next(): every stage value is handled above (C10-STAGE) and Done returns
    if not (site.family == "panic" and in_fn(site, "MovePicker::next") and any("unreachable" in x for x in site.exp)):
        return False
    tested = set()
    for i in sorted(site.body.live_blocks()):
        t = site.body.blocks[i]["term"]
        if t["k"] == "call":
            e = ("call", norm(callee_name(t) or ""), tuple(site.body.expr(a, expand_named=True) for a in t["args"]))
            co = cmp_op(e)
            if co and co[0] == "Eq":
                for x in (deep_strip(co[1]), deep_strip(co[2])):
                    if isinstance(x, tuple) and x[0] == "agg" and "GenStage::" in str(x[1]):
                        tested.add(str(x[1]).split("::")[-1])
    allv = {v["name"] for v in fx.adt("move_picker::GenStage")["variants"]}
    return tested == allv


def c_mobility_tables(site, fx):
    # mobility counts are bounded by piece geometry: knight <= 8 < 9, bishop <= 13 < 14, rook <= 14 < 15, queen <= 27 < 28, king zone <= 8 < 9
    if not (site.family == "bounds" and "engine::eval::" in bn(site)):
        return False
    ln = deep_strip(site.ops[0])
    ix = site.ops[1]
    if not (isinstance(ln, tuple) and ln[0] == "const"):
        return _mobility_generic(site, fx)
    n = ln[1]
    # a count computed by a small helper of the eval module: look at the helper's own (single, unconditional) return expression
    from facts import decision_paths, substitute_args
    d = deep_strip(ix)
    for _ in range(2):
        if isinstance(d, tuple) and d and d[0] == "call" and isinstance(d[1], str) and "engine::eval::" in d[1] and fx.body(d[1]) is not None:
            hp = [p for p in decision_paths(fx.body(d[1]), 8) if p[1] is not None]
            if len(hp) == 1 and not hp[0][0]:
                d = deep_strip(substitute_args(hp[0][1], d[2]))
                ix = d
                continue
        break
    # upper bound of the popcount, computed over the bitboard expression (a `&` takes the smaller bound, a `|` or `^` adds)
    d = deep_strip(ix)
    while isinstance(d, tuple) and d and d[0] == "cast":
        d = deep_strip(d[1])
    if not (isinstance(d, tuple) and d and d[0] == "call" and str(d[1]).endswith("Bitboard::count")):
        return False
    ub = popcount_ub(d[2][0])
    return ub < n


def _mobility_generic(site, fx):
    """the count indexes a table whose length is a const generic of a helper that also receives the attack function: decided per
    call site of the helper - the table length from the instantiated signature, the attack set's bound from the function item or
    the closure handed in - and discharged only if every call site is in bounds"""
    from facts import decision_paths
    import re as _re
    b = site.body
    d = deep_strip(site.ops[1])
    while isinstance(d, tuple) and d and d[0] == "cast":
        d = deep_strip(d[1])
    if not (isinstance(d, tuple) and d and d[0] == "call" and str(d[1]).endswith("Bitboard::count")):
        return False
    fcalls = [x for x in walk(d[2][0]) if isinstance(x, tuple) and x and x[0] == "call" and isinstance(x[1], str) and _re.search(r"Fn(Mut|Once)?(<[^>]*>)?>?::call(_mut|_once)?$", x[1])]
    params = set()
    for x in fcalls:
        a0 = deep_strip(x[2][0]) if x[2] else None
        if isinstance(a0, tuple) and len(a0) >= 2 and a0[0] == "arg":
            params.add(a0[1])
    if len(params) != 1:
        return False
    pi = params.pop()
    callers = [c for c in fx.callers_of(lambda nm: fx.body(nm) is not None and fx.body(nm).name == b.name) if "::tests::" not in c[0].name]
    if not callers:
        return False
    for (cb, bb, t) in callers:
        lens = set(_re.findall(r"; (\d+)\]", str(t["func"].get("ty", ""))))
        if len(lens) != 1 or pi > len(t["args"]):
            return False
        n = int(lens.pop())
        fa = deep_strip(cb.expr(t["args"][pi - 1], expand_named=True, at=bb))
        fb = None
        if isinstance(fa, tuple) and fa and fa[0] == "fn":
            fb = ATTACK_SET_MAX.get(str(fa[1]).split("::")[-1]) if "movegen::tables" in str(fa[1]) else None
        elif isinstance(fa, tuple) and fa and fa[0] == "agg" and str(fa[1]).startswith("closure:"):
            clb = fx.body(str(fa[1])[len("closure:"):])
            hp = [p for p in decision_paths(clb, 8) if p[1] is not None] if clb is not None else []
            if len(hp) == 1:
                fb = popcount_ub(hp[0][1])
        if fb is None or popcount_ub(d[2][0], fn_bound=fb) >= n:
            return False
    return True


ATTACK_SET_MAX = {"knight_attacks": 8, "king_attacks": 8, "bishop_attacks": 13, "rook_attacks": 14, "pawn_attacks": 2, "pawn_attack": 2}


def popcount_ub(e, fn_bound=None):
    """Upper bound of the number of squares in a bitboard expression: attack sets by piece geometry, `a & b` <= min, `a | b` and
    `a ^ b` <= sum, anything else (complements, board sets, mutated locals - which expression expansion shows as their
    initial value) 64."""
    d = deep_strip(e)
    if isinstance(d, tuple) and d and d[0] == "call" and isinstance(d[1], str):
        last = d[1].split("::")[-1]
        if "movegen::tables" in d[1] and last in ATTACK_SET_MAX:
            return ATTACK_SET_MAX[last]
        if d[1].endswith("BitAnd>::bitand") and len(d[2]) == 2:
            return min(popcount_ub(d[2][0], fn_bound), popcount_ub(d[2][1], fn_bound))
        if (d[1].endswith("BitOr>::bitor") or d[1].endswith("BitXor>::bitxor")) and len(d[2]) == 2:
            return min(64, popcount_ub(d[2][0], fn_bound) + popcount_ub(d[2][1], fn_bound))
        if fn_bound is not None and re.search(r"Fn(Mut|Once)?(<[^>]*>)?>?::call(_mut|_once)?$", d[1]):
            return fn_bound  # the attack function handed to a generic helper, bounded per call site
        if d[1].endswith("Square::bb"):
            return 1
    return 64


def c_see(site, fx):
    # exchange evaluation: the moving / capturing pieces exist on the squares named by the move and by the attacker set
    return site.family == "unwrap" and in_fn(site, "see::see")


def c_tt_index(site, fx):
    if site.family not in ("index", "unchecked") or "transposition_table::TranspositionTable" not in bn(site):
        return False
    if any(find_calls(o, "TranspositionTable::get_entry_idx") for o in site.ops):
        return True
    # a private helper of the table that is handed the slot index: every caller passes get_entry_idx(key)
    for o in site.ops:
        d = deep_strip(o)
        if isinstance(d, tuple) and d[:1] == ("arg",) and isinstance(d[1], int):
            callers = [c for c in fx.callers_of(lambda n: fx.body(n) is not None and fx.body(n).name == site.body.name) if "::tests::" not in c[0].name]
            if callers and all(d[1] <= len(t["args"]) and find_calls(cb.expr(t["args"][d[1] - 1], expand_named=True, at=bb), "TranspositionTable::get_entry_idx") for (cb, bb, t) in callers):
                return True
    return False


def c_tt_rem(site, fx):
    # key % len: guarded against the empty table at every call site (C19-ZERO)
    return site.family == "divzero" and in_fn(site, "TranspositionTable::get_entry_idx")


def c_table_lookup(site, fx):
    # get_unchecked(table, X::array_idx()) into a table whose dimension is X::N (C07-N / C07-UNCHK)
    if not (site.family == "unchecked" and site.what.startswith("get_unchecked")):
        return False
    ix = deep_strip(site.ops[1]) if len(site.ops) > 1 else None
    return isinstance(ix, tuple) and ix[0] == "call" and ix[1].endswith("::array_idx")


def c_magic_lookup(site, fx):
    # attack-table lookup at table_index_{rook,bishop}: index < table length by C07-MAGIC (exhaustive over all blocker subsets)
    return site.family == "unchecked" and in_fn(site, "magics::rook_attacks", "magics::bishop_attacks") and \
        any(find_calls(o, "magics::table_index_rook", "magics::table_index_bishop") for o in site.ops)


def c_magic_shift(site, fx):
    # (..) >> (64 - bits): constant 64 - 9 / 64 - 12
    return site.family == "arith" and "tables::magics::" in bn(site) and "index" in bn(site).split("::")[-1]


def c_move_flags(site, fx):
    # transmute::<u8, Flags> of the nibble Move::new wrote from a Flags value; NonZeroU16 of a word with non-zero flags or squares (C01-FLAGS)
    return site.family == "unchecked" and in_fn(site, "Flags::from_u8", "Move::new")


def c_pv_len(site, fx):
    # u8::try_from(len) of an ArrayVec with capacity 255
    return site.family == "unwrap" and in_fn(site, "PrincipalVariation::len") and bool(find_calls(op0(site), "ArrayVec::len"))


def c_duration_mul_const(site, fx):
    # Duration::mul_f32 by a constant factor in [0, 16]: cannot go negative / NaN, cannot overflow for GUI-supplied millisecond values
    if site.family != "duration" or not site.what.endswith("mul_f32"):
        return False
    # "cannot overflow for GUI-supplied millisecond values" holds only for durations that come from the GUI: a `Duration::MAX`
    # (say, as the stand-in for a missing clock) fed into the product is exactly the value that overflows
    slice_ok = True
    if len(site.ops) > 0 and "Duration::MAX" in show(site.ops[0]):
        slice_ok = False
    if not slice_ok:
        return False
    c = deep_strip(site.ops[1]) if len(site.ops) > 1 else None
    if isinstance(c, tuple) and c[0] == "const" and isinstance(c[1], float) and 0.0 <= c[1] <= 16.0:
        return True
    # the factor is a parameter of a local closure / private helper: a constant in range at every call site
    if isinstance(c, tuple) and len(c) >= 2 and c[0] == "arg" and isinstance(c[1], int):
        callers = [x for x in fx.callers_of(lambda nm: fx.body(nm) is not None and fx.body(nm).name == site.body.name) if "::tests::" not in x[0].name]
        if not callers:
            return False
        for (cb, bb, t) in callers:
            if c[1] > len(t["args"]):
                return False
            a = deep_strip(cb.expr(t["args"][c[1] - 1], expand_named=True, at=bb))
            if isinstance(a, tuple) and a and a[0] == "agg" and a[1] == "tuple" and len(a[2]) == 1:
                a = deep_strip(a[2][0])
            if not (isinstance(a, tuple) and a and a[0] == "const" and isinstance(a[1], float) and 0.0 <= a[1] <= 16.0):
                return False
        return True
    return False


def c_clamp_const(site, fx):
    # x.clamp(lo, hi) with constant bounds lo <= hi
    if site.family != "clamp" or len(site.ops) < 3:
        return False
    lo, hi = deep_strip(site.ops[1]), deep_strip(site.ops[2])
    def cv(e):
        if isinstance(e, tuple) and e and e[0] == "const" and isinstance(e[1], (int, float)) and not isinstance(e[1], bool):
            return e[1]
        if isinstance(e, tuple) and e and e[0] == "constpath":
            c = [v for k, v in fx.consts.items() if norm(k) == e[1]]
            if c and isinstance(c[0].get("int"), int):
                return c[0]["int"]
        if isinstance(e, tuple) and e and e[0] == "agg" and len(e[2]) == 1:
            return cv(deep_strip(e[2][0]))  # a one-field wrapper of a constant (Eval(..))
        return None
    a, b = cv(lo), cv(hi)
    return a is not None and b is not None and a <= b


def c_duration_add(site, fx):
    # sum of two durations that come from GUI-supplied i64 millisecond values scaled by factors <= 16
    return site.family == "duration" and site.what.endswith("Add>::add") and "search::time_control::" in bn(site)


def c_duration_div_movestogo(site, fx):
    # time / movestogo: the UCI protocol (and C14's stated domain) has movestogo >= 1
    if site.family != "duration" or "Div<u32>" not in site.what:
        return False
    d = site.ops[1] if len(site.ops) > 1 else None
    return d is not None and any(isinstance(x, tuple) and len(x) == 3 and x[0] == "field" and x[2] == "moves_to_go" for x in walk(deep_strip(d)))


def c_plies_assumption(site, fx):
    # plies + 1 / killer table index at ply 255 in negamax: recorded assumption (no failing input in reach)
    if site.family == "arith" and site.what == "Add" and site.ty == "u8" and in_fn(site, "negamax::negamax"):
        return any(isinstance(deep_strip(o), tuple) and deep_strip(o)[:2] == ("arg", 5) for o in site.ops)
    if site.family == "bounds" and "search::tables::KillersTable::" in bn(site):
        # checked part: one slot per ply up to the maximum search depth
        ln = deep_strip(site.ops[0]) if site.ops else None
        try:
            depth = fx.const("search::MAX_SEARCH_DEPTH").get("int")
        except Exception:
            return False
        return isinstance(ln, tuple) and ln[0] == "const" and isinstance(ln[1], int) and isinstance(depth, int) and (ln[1] >= depth or ln[1] == 2)
    return False


def _is_min_with(e, a):
    e = deep_strip(e)
    return isinstance(e, tuple) and e and e[0] == "call" and str(e[1]).split("::")[-1] == "min" and len(e[2]) == 2 and \
        any(show(deep_strip(x)) == show(deep_strip(a)) for x in e[2])


def c_sub_of_min(site, fx):
    # a - min(b, a): the subtrahend cannot exceed the minuend
    return site.family == "arith" and site.what == "Sub" and len(site.ops) == 2 and _is_min_with(site.ops[1], site.ops[0])


def c_tail_slice(site, fx):
    # v[v.len() - w ..] with w = min(_, v.len()) (or a saturating / checked difference): the start never exceeds the length
    if not (site.family == "index" and len(site.ops) == 2):
        return False
    rng = deep_strip(site.ops[1])
    if not (isinstance(rng, tuple) and rng and rng[0] == "agg" and str(rng[1]).endswith("RangeFrom::RangeFrom") and rng[2]):
        return False
    st = deep_strip(rng[2][0])
    if isinstance(st, tuple) and st and st[0] == "field" and st[2] == "0":
        st = deep_strip(st[1])  # `.0` of a checked subtraction
    base = deep_strip(site.ops[0])
    while isinstance(base, tuple) and base and base[0] in ("ref", "deref"):
        base = deep_strip(base[1])

    def is_len_of_base(x):
        x = deep_strip(x)
        if not (isinstance(x, tuple) and x and x[0] == "call" and str(x[1]).split("::")[-1] == "len" and x[2]):
            return False
        y = deep_strip(x[2][0])
        while isinstance(y, tuple) and y and y[0] in ("ref", "deref"):
            y = deep_strip(y[1])
        return show(y) == show(base)
    if isinstance(st, tuple) and st and st[0] == "binop" and st[1].startswith("Sub") and is_len_of_base(st[2]):
        return True  # len - w with w >= 0: at most len (the subtraction itself is a separate site)
    if isinstance(st, tuple) and st and st[0] == "call" and str(st[1]).split("::")[-1] in ("saturating_sub",) and is_len_of_base(st[2][0]):
        return True
    return False


def c_chunk_size_const(site, fx):
    # chunks / chunks_mut / windows .. panic only for a size of zero: a positive constant size never does
    if not (site.family == "index" and site.what in ("chunks", "chunks_mut", "chunks_exact", "chunks_exact_mut", "rchunks", "rchunks_mut", "windows") and len(site.ops) == 2):
        return False
    d = deep_strip(site.ops[1])
    if isinstance(d, tuple) and d and d[0] == "constpath":
        cv = [v for k, v in fx.consts.items() if norm(k) == d[1]]
        return bool(cv) and isinstance(cv[0].get("int"), int) and cv[0]["int"] > 0
    return isinstance(d, tuple) and d and d[0] == "const" and isinstance(d[1], int) and not isinstance(d[1], bool) and d[1] > 0


CLASSES = [
    ("chunk-size-const", c_chunk_size_const, "chunk / window size is a positive constant", "checked"),
    ("sub-of-min", c_sub_of_min, "a - min(b, a) cannot underflow", "checked"),
    ("tail-slice", c_tail_slice, "v[v.len() - w ..]: the start is at most the length", "checked"),
    ("opimpl-forwarded", c_opimpl, "operator impl of a score type: the obligation is carried by every call site (evalop sites)", "checked"),
    ("wide-counter", c_wide_counter, "increment of a >=32-bit counter by a small constant: not exhaustible by any reachable input", "belief"),
    ("plies-undo", c_plies_undo, "plies -= 1 mirrors the += 1 of the matching make (C02-HIST)", "belief"),
    ("undo-after-make", c_undo_after_make, "history.pop() is non-empty: every undo call is dominated by the matching make call", "checked"),
    ("history-mv-kind", c_history_mv, "make_move records Some(mv), make_null_move None; undo kinds are paired with make kinds", "belief"),
    ("piece-on-move-square", c_piece_on_move_square, "the source/destination/victim/rook square named by a legal move is occupied", "belief"),
    ("movelist-capacity", c_movelist_capacity, "218 = maximum number of legal moves in any legal position", "belief"),
    ("pv-capacity", c_pv_capacity, "a PV at ply p has at most 255 - p moves (same ply assumption as below)", "belief"),
    ("debug-type-invariant", c_debug_invariant, "debug_assert! of a type invariant (Square < 64, File/Rank < 8, exactly one king)", "belief"),
    ("unreachable-file-rank", c_unreachable_after_assert, "`_ => unreachable!()` after all 8 indices are matched; callers pass idx % 8 / idx / 8", "belief"),
    ("square-shift", c_square_shift, "1 << square index with Square < 64", "belief"),
    ("square-step", c_square_step, "Square::north/south never steps off the board (callers: pawn pushes, en-passant victim)", "belief"),
    ("pop-lsb", c_pop_lsb, "pop_lsb on a non-empty set", "belief"),
    ("mate-distance", c_mate_distance, "mate-distance adjustment of a score within +-32000 by plies <= 255", "belief"),
    ("is-mate-in-moves", c_is_mate_in_moves, "32000 - x for x beyond the mate threshold", "belief"),
    ("phase-accumulator", c_phase_accumulator, "phase counter bounded by the material on the board", "belief"),
    ("phased-endgame", c_phased_endgame, "packed word + 0x8000 with halves bounded by C16-BOUND", "belief"),
    ("for-phase", c_for_phase, "64-bit blend with weights 0..=24 of two i16 (C16-BLEND): convex combination fits i16", "belief"),
    ("move-ordering-i32", c_move_ordering_i32, "sentinel (<= 1e9) + MVV/LVA (<= 35) + history (<= 1e9 - 1) < 2^31", "belief"),
    ("history-bonus", c_history_bonus, "depth^2 <= 65025 added to a score clamped to HISTORY_MAX_SCORE", "belief"),
    ("history-decay", c_history_decay, "division by the constant decay factor passed by the only caller", "checked"),
    ("trace-component", c_trace_component, "evaluation trace counters (piece counts, +-1 multipliers)", "belief"),
    ("best-move-lower", c_best_move_lower, "best_move is Some whenever the node bound is Lower", "checked"),
    ("aspiration-prev-eval", c_aspiration_prev_eval, "previous score exists for depth >= ASPIRATION_MIN_DEPTH >= 2", "checked"),
    ("pv-first", c_pv_first, "root PV is non-empty after a completed iteration", "belief"),
    ("panic-move", c_panic_move, "precondition: at least one legal move", "belief"),
    ("picker-get", c_picker_get, "move list element at an index below its length", "belief"),
    ("picker-swap", c_picker_swap, "swap of two positions inside the move list", "belief"),
    ("picker-idx", c_picker_idx, "idx - 1 right after next_best_move advanced idx", "checked"),
    ("picker-scores", c_picker_scores, "score slot of a move-list position: the array length (evaluated) is >= the move list's capacity MAX_LEGAL_MOVES; the index being a list position is believed", "belief"),
    ("picker-unreachable", c_picker_unreachable, "every GenStage value is tested above", "checked"),
    ("mobility-tables", c_mobility_tables, "attack-set sizes bounded by piece geometry", "belief"),
    ("see-pieces", c_see, "pieces taking part in an exchange exist on their squares", "belief"),
    ("tt-index", c_tt_index, "slot index = key % len < len (C19-IDX)", "checked"),
    ("tt-rem", c_tt_rem, "remainder by the table length guarded at every call site (C19-ZERO)", "belief"),
    ("table-lookup", c_table_lookup, "get_unchecked at X::array_idx() into a dimension of X::N (C07-N)", "belief"),
    ("magic-lookup", c_magic_lookup, "attack-table index proven in range for all blocker subsets (C07-MAGIC)", "belief"),
    ("magic-shift", c_magic_shift, "shift by the constant 64 - bits", "belief"),
    ("move-flags", c_move_flags, "flag nibble written from a Flags value; word non-zero (C01-FLAGS)", "belief"),
    ("pv-len", c_pv_len, "length of an ArrayVec with capacity 255 fits u8", "checked"),
    ("clamp-const-bounds", c_clamp_const, "clamp between constant bounds lo <= hi (the assertion min <= max cannot fail)", "checked"),
    ("duration-mul-const", c_duration_mul_const, "Duration::mul_f32 by a constant factor in [0, 16]", "checked"),
    ("duration-add", c_duration_add, "sum of GUI-supplied durations scaled by small constants", "belief"),
    ("movestogo-nonzero", c_duration_div_movestogo, "ASSUMPTION: movestogo >= 1 (UCI protocol; the stated domain of C14)", "assumption"),
    ("ply-255", c_plies_assumption, "ASSUMPTION: negamax is never entered at ply 255 (needs a 255-ply line inside a depth-255 search)", "assumption"),
]
