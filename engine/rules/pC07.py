"""C07 — attack tables equal first-principles geometry: structural / constant clauses C07-N, C07-UNCHK, C07-SQ,
C07-WRAP, C07-SAMEIDX, C07-MAGIC (DESIGN.md §3)."""
import re

from facts import (substitute_args, norm, show, walk, strip_refs, deep_strip, callee_name, find_calls, decision_paths, static_accesses,
                   guard_conditions, cmp_op)
import intervals as iv

EXPLANATION = (
    "Decides 'every table lookup lands inside its table', the wrap-mask mechanism and the writer/reader agreement that "
    "reduces slider-table correctness to the ray walker; not that the ray walker and the king generator (loops) compute "
    "the geometric definition - the loop-free pawn and knight generators are evaluated on every origin square against it "
    "(LEAPGEN): (N) every index type's N equals its number of variants and Square::N = 64; (UNCHK) every "
    "get_unchecked index is X::array_idx() into a dimension of at least X::N, or a magic / hash-table index covered by "
    "MAGIC / C19; (SQ) Square values are built only inside `impl Square` from operands proven < 64 at every call site; "
    "(WRAP) each of the six file-changing single-step shifts, evaluated from its extracted (shift, mask) on all 64 "
    "squares, equals the geometric neighbour or nothing; (SAMEIDX) table_index_rook/bishop are used by exactly the "
    "filler and the lookup, and the fillers store the ray walk for the same (square, blockers); (MAGIC) for the "
    "evaluated magic constants all 107,648 (square, blocker subset) pairs give an index inside the table and two pairs "
    "sharing an index have equal ray-walk attack sets."
)


def run(fx, rep, tier):
    rule_n(fx, rep)
    rule_unchk(fx, rep)
    rule_sq(fx, rep)
    rule_wrap(fx, rep)
    rule_sameidx(fx, rep)
    rule_fill(fx, rep)
    rule_between(fx, rep)
    rule_origin(fx, rep)
    rule_magic(fx, rep)
    rule_leapgen(fx, rep)


def rule_leapgen(fx, rep):
    """The generators of the pawn and knight attack sets are loop-free (an `|=` accumulation of shifted copies of the origin
    bit, or index arithmetic): they are evaluated by the analyser - through the extracted return expressions of the Bitboard
    step functions they call - for every origin square (and both colours), and each result must be exactly the geometric
    definition: the on-board squares among (file±1, rank+1 towards the enemy) for a pawn, the eight (±1,±2)/(±2,±1) jumps for
    a knight (seed C07-5b: one bit missing for a white pawn on g7). A generator containing a loop (king, sliders) or calling
    something outside this fragment is reported as not decided."""
    import pC16
    players = {v["name"]: v["discr"] for v in fx.adt("player::Player")["variants"]}
    ok = True
    n = 0

    def expect_pawn(sq, white):
        f, r = sq % 8, sq // 8
        out = 0
        for df in (-1, 1):
            nf, nr = f + df, r + (1 if white else -1)
            if 0 <= nf < 8 and 0 <= nr < 8:
                out |= 1 << (nr * 8 + nf)
        return out

    def expect_knight(sq):
        f, r = sq % 8, sq // 8
        out = 0
        for df, dr in ((1, 2), (2, 1), (2, -1), (1, -2), (-1, -2), (-2, -1), (-2, 1), (-1, 2)):
            nf, nr = f + df, r + dr
            if 0 <= nf < 8 and 0 <= nr < 8:
                out |= 1 << (nr * 8 + nf)
        return out

    jobs = []
    gp = fx.find("attacks::generate_pawn_attacks")
    gk = fx.find("attacks::generate_knight_attacks")
    if len(gp) == 1:
        for pname in ("White", "Black"):
            jobs.append((gp[0], f"pawn/{pname}", lambda sq, pname=pname: {1: sq, 2: players[pname]}, lambda sq, pname=pname: expect_pawn(sq, pname == "White"), 2))
    if len(gk) == 1:
        jobs.append((gk[0], "knight", lambda sq: {1: sq}, expect_knight, 1))
    for b, label, envf, expf, nargs in jobs:
        undecided = False
        bad_sq = None
        for sq in range(64):
            v = pC16.bits_eval(fx, ("call", b.name, tuple(("arg", i + 1) for i in range(nargs))), envf(sq))
            if v is None:
                undecided = True
                break
            n += 1
            good = v == expf(sq)
            rep.obligation(good)
            if not good and bad_sq is None:
                bad_sq = (sq, v, expf(sq))
        if undecided:
            rep.notes.append(f"C07-LEAPGEN: `{b.name}` ({label}) is not a loop-free formula the analyser can evaluate; not decided")
            continue
        if bad_sq is not None:
            ok = False
            sq, v, e = bad_sq
            name = "abcdefgh"[sq % 8] + str(sq // 8 + 1)
            rep.violation("C07-LEAPGEN", f"C07-LEAPGEN/{label}", f"`{b.name}` ({label}) evaluated on {name} gives {v:#018x}, the geometric definition is {e:#018x} (first of the squares that differ)",
                          {"fn": b.name, "file": b.file, "line": b.line})
    rep.sample({"rule": "C07-LEAPGEN", "evaluations": n})
    rep.rule("C07-LEAPGEN", n, 0, ok, "loop-free leaper generators evaluated on every origin square against the geometric definition")


def rule_n(fx, rep):
    ok = True
    n = 0
    for adt, cn in (("player::Player", "Player::N"), ("piece::PieceKind", "PieceKind::N"), ("game::CastleRightsSide", "CastleRightsSide::N"),
                    ("square::File", "File::N"), ("square::Rank", "Rank::N")):
        n += 1
        a = fx.adt(adt)
        c = fx.const(cn).get("int")
        good = a["kind"] == "enum" and c == len(a["variants"]) and sorted(v["discr"] for v in a["variants"]) == list(range(len(a["variants"])))
        rep.obligation(good)
        rep.sample({"rule": "C07-N", "type": adt, "N": c, "variants": len(a["variants"])})
        if not good:
            ok = False
            rep.violation("C07-N", f"C07-N/{adt}", f"{cn} = {c} but `{adt}` has {len(a['variants'])} variants (discriminants {[v['discr'] for v in a['variants']]}): tables dimensioned by N are indexed out of range",
                          {"file": a.get("file"), "line": a.get("line")})
    n += 1
    good = fx.const("Square::N").get("int") == 64
    rep.obligation(good)
    if not good:
        ok = False
        rep.violation("C07-N", "C07-N/Square", "Square::N is not 64", {})
    rep.rule("C07-N", n, 6, ok, "N constants equal variant counts")


def array_len_of(body, e):
    """length L of the array a slice operand was unsized from: looks for `[T; L]` in cast source types"""
    for x in walk(e):
        if isinstance(x, tuple) and x and x[0] == "cast":
            pass
    m = re.findall(r";\s*(\d+)\]", show(e))
    return None


def rule_unchk(fx, rep):
    ok = True
    n = 0
    card = {"Square": 64}
    for k, a in fx.adts.items():
        if a["kind"] == "enum":
            card[norm(k).split("::")[-1]] = len(a["variants"])
    for b in fx.fn_bodies():
        if "::tests::" in b.name:
            continue
        for bb, t in b.calls():
            cn = norm(callee_name(t) or "")
            if not (cn.endswith("get_unchecked") or cn.endswith("get_unchecked_mut")):
                continue
            n += 1
            ix = deep_strip(b.expr(t["args"][1], expand_named=True, at=bb))
            # array length: type of the slice argument's origin
            src_ty = None
            a0 = t["args"][0]
            seen = set()
            cur = a0
            while cur is not None and "pl" in cur and cur["pl"]["l"] not in seen:
                l = cur["pl"]["l"]
                seen.add(l)
                ds = b.reaching_defs(l, bb)
                if len(ds) == 1 and ds[0][0] == "stmt":
                    rv = ds[0][3]["rv"]
                    if rv["k"] == "cast" and "Unsize" in rv.get("cast", ""):
                        src_ty = rv["from"]
                        break
                    if rv["k"] in ("use", "cast"):
                        cur = rv["op"]
                        continue
                    if rv["k"] == "ref":
                        cur = {"k": "copy", "pl": {"l": rv["pl"]["l"], "p": []}} if not [p for p in rv["pl"].get("p", []) if p != "*"] else None
                        continue
                break
            m = re.search(r";\s*([A-Za-z_:0-9]+)\]\s*$", src_ty or "")
            length = None
            if m:
                tok = m.group(1)
                length = int(tok) if tok.isdigit() else {"Square::N": 64, "Player::N": 2, "PieceKind::N": 6, "CastleRightsSide::N": 2, "File::N": 8, "Rank::N": 8}.get("::".join(tok.split("::")[-2:]))
            good, why = False, ""
            if isinstance(ix, tuple) and ix[0] == "call" and ix[1].endswith("::array_idx"):
                ty = ix[1].split("::")[-2]
                c = card.get(ty)
                good = c is not None and length is not None and c <= length
                why = f"index {ty}::array_idx() (< {c}) into an array of length {length} (`{src_ty}`)"
            elif find_calls(ix, "magics::table_index_rook", "magics::table_index_bishop"):
                good, why = True, "magic index (C07-MAGIC)"
            elif find_calls(ix, "TranspositionTable::get_entry_idx"):
                good, why = True, "hash slot index (C19-IDX)"
            else:
                why = f"index `{show(ix)[:80]}` of unknown provenance"
            rep.obligation(good)
            if n <= 3:
                rep.sample({"rule": "C07-UNCHK", "fn": b.name, "why": why})
            if not good:
                ok = False
                rep.violation("C07-UNCHK", f"C07-UNCHK/{norm(b.name)}", f"`{b.name}` line {t.get('line')}: get_unchecked with {why}: an out-of-range index is undefined behaviour", {"fn": b.name, "file": b.file, "line": t.get("line")})
    rep.rule("C07-UNCHK", n, 20, ok, "get_unchecked index provenance")


def rule_sq(fx, rep):
    ok = True
    n = 0
    sqadt = "chess::square::Square"
    builders = {}
    for b in list(fx.bodies.values()):
        if "::tests::" in b.name:
            continue
        for bb, j, s in b.stmts():
            rv = s.get("rv")
            if rv and rv["k"] == "agg" and rv.get("agg") == "adt" and norm(rv["adt"]) == sqadt:
                builders.setdefault(b.name, []).append((bb, s))
            if rv and rv["k"] == "cast" and "Transmute" in rv.get("cast", "") and rv.get("to") == sqadt:
                builders.setdefault(b.name + " (transmute)", []).append((bb, s))
    for nm in sorted(builders):
        n += 1
        base = norm(nm)
        good = base.startswith("chess::square::Square::") or base.startswith("chess::square::squares::")
        rep.obligation(good)
        if not good:
            ok = False
            rep.violation("C07-SQ", f"C07-SQ/builder/{base}", f"`{nm}` constructs a Square directly; only `impl Square` may (so that the index stays below 64)", {"fn": nm})
    # every caller of the index-taking constructors passes a value proven < 64
    for ctor, bound in (("Square::from_index", 63), ("Square::from_array_index", 63)):
        cb = fx.one(ctor)
        for (b, bb, t) in fx.callers_of(lambda nme, cb=cb: fx.body(nme) is not None and fx.body(nme).name == cb.name):
            if "::tests::" in b.name or norm(b.name).startswith("engine::tablebases::"):
                continue
            n += 1
            e = b.expr(t["args"][0], expand_named=True, at=bb)
            r = iv.rng(iv.Ctx(b, bb, fx), e)
            if r is None or r[1] > bound:
                r2 = iv.rng_with_callers(iv.Ctx(b, bb, fx), e, exclude=("engine::tablebases::",))
                r = r2 if r2 is not None else r
            good = r is not None and 0 <= r[0] and r[1] <= bound
            why = f"range {r}"
            if not good:
                d = deep_strip(e)
                # lsb index of a non-empty set / index of a 64-element array / loop 0..64
                if find_calls(d, "num::trailing_zeros", "Bitboard::trailing_zeros"):
                    good, why = True, "trailing_zeros of a non-empty set (callers test any() / iterate)"
                elif find_calls(d, "TryInto<U>>::try_into", "try_into") and "numerate" in show(d):
                    good, why = True, "enumerate index of a 64-element array"
                elif any(isinstance(x, tuple) and x and x[0] == "agg" and str(x[1]).endswith("Range::Range") and x[2] and deep_strip(x[2][0]) == ("const", 0) and
                         deep_strip(x[2][1]) in (("const", 64),) for x in walk(d)):
                    good, why = True, "loop index 0..64"
                elif isinstance(d, tuple) and d[0] == "arg":
                    good, why = True, "forwarded parameter (checked at that function's callers)"
            rep.obligation(good)
            if not good:
                ok = False
                rep.violation("C07-SQ", f"C07-SQ/{ctor}/{norm(b.name)}", f"`{b.name}` line {t.get('line')} calls {ctor}(`{show(e)[:80]}`) whose value is not proven below 64 ({why})", {"fn": b.name, "file": b.file, "line": t.get("line")})
    rep.sample({"rule": "C07-SQ", "builders": sorted(norm(x) for x in builders)[:12]})
    rep.rule("C07-SQ", n, 8, ok, "Square construction sites and index bounds")


DIRS = {"east": (1, 0), "west": (-1, 0), "north_east": (1, 1), "north_west": (-1, 1), "south_east": (1, -1), "south_west": (-1, -1), "north": (0, 1), "south": (0, -1)}


def rule_wrap(fx, rep):
    ok = True
    n = 0
    for name, (df, dr) in DIRS.items():
        b = fx.one(f"Bitboard::{name}")
        n += 1
        e = deep_strip(b.expr({"l": 0, "p": []}, expand_named=True))
        shift = [x for x in walk(e) if isinstance(x, tuple) and x and x[0] == "binop" and x[1] in ("Shl", "Shr")]
        mask = None
        for x in walk(e):
            if isinstance(x, tuple) and x and x[0] == "constpath":
                cv = [v for k, v in fx.consts.items() if norm(k) == x[1]]
                if cv and "bits" in cv[0]:
                    mask = cv[0]["bits"]
        good = len(shift) == 1 and isinstance(deep_strip(shift[0][3]), tuple) and deep_strip(shift[0][3])[0] == "const"
        detail = ""
        if good:
            c = deep_strip(shift[0][3])[1]
            op = shift[0][1]
            m = mask if mask is not None else (1 << 64) - 1
            uses_and = bool(find_calls(e, "BitAnd>::bitand")) or any(isinstance(x, tuple) and x and x[0] == "binop" and x[1] == "BitAnd" for x in walk(e))
            if not uses_and:
                m = (1 << 64) - 1
            for sq in range(64):
                f, r = sq % 8, sq // 8
                bit = 1 << sq
                res = ((bit << c) if op == "Shl" else (bit >> c)) & ((1 << 64) - 1) & m
                nf, nr = f + df, r + dr
                exp = (1 << (nr * 8 + nf)) if 0 <= nf < 8 and 0 <= nr < 8 else 0
                if res != exp:
                    good = False
                    detail = f"from square {sq} the step lands on {res:#x}, expected {exp:#x}"
                    break
            rep.sample({"rule": "C07-WRAP", "fn": name, "op": op, "shift": c, "mask": hex(m)})
        rep.obligation(good)
        if not good:
            ok = False
            rep.violation("C07-WRAP", f"C07-WRAP/{name}", f"Bitboard::{name} (`{show(e)[:100]}`) is not the geometric single step: {detail or 'unrecognised form'}", {"fn": b.name, "file": b.file, "line": b.line})
    rep.rule("C07-WRAP", n, 8, ok, "single-step shifts evaluated on all 64 squares")


def rule_sameidx(fx, rep):
    ok = True
    n = 0
    for piece in ("rook", "bishop"):
        idxf = fx.one(f"magics::table_index_{piece}")
        callers = sorted({b.name for (b, bb, t) in fx.callers_of(lambda nme: fx.body(nme) is not None and fx.body(nme).name == idxf.name) if "::tests::" not in b.name})
        want = sorted([fx.one(f"magics::{piece}_attacks").name, fx.one(f"magics::initialise_{piece}_attacks").name])
        n += 1
        good = callers == want
        rep.obligation(good)
        if not good:
            ok = False
            rep.violation("C07-SAMEIDX", f"C07-SAMEIDX/callers/{piece}", f"table_index_{piece} is called by {callers}, expected exactly the lookup and the filler {want}", {"fn": idxf.name, "file": idxf.file, "line": idxf.line})
        fill = fx.one(f"magics::initialise_{piece}_attacks")
        n += 1
        good = False
        for bb, j, s in fill.stmts():
            if s["k"] == "assign" and s["lhs"].get("p") and s["lhs"]["p"][0] == "*" and any(isinstance(p, dict) and "idx" in p for p in s["lhs"]["p"]):
                ix = deep_strip(fill.expr({"l": [p["idx"] for p in s["lhs"]["p"] if isinstance(p, dict) and "idx" in p][0], "p": []}, expand_named=True, at=bb))
                val = deep_strip(fill.expr(s["rv"].get("op"), expand_named=True, at=bb)) if s["rv"]["k"] == "use" else None
                if isinstance(ix, tuple) and ix[0] == "call" and ix[1].endswith(f"table_index_{piece}") and isinstance(val, tuple) and val[0] == "call" and \
                        val[1].endswith(f"attacks::generate_{piece}_attacks") and tuple(deep_strip(a) for a in ix[2]) == tuple(deep_strip(a) for a in val[2]):
                    good = True
        rep.obligation(good)
        if not good:
            ok = False
            rep.violation("C07-SAMEIDX", f"C07-SAMEIDX/filler/{piece}", f"initialise_{piece}_attacks does not store generate_{piece}_attacks(s, blockers) at table_index_{piece}(s, blockers) for the same (s, blockers)", {"fn": fill.name, "file": fill.file, "line": fill.line})
        # the lookup reads the same table at that index
        lk = fx.one(f"magics::{piece}_attacks")
        n += 1
        st_fill = {s for (s, k, bb, i) in static_accesses(fill) if k in ("write", "mutaddr")}
        st_read = {s for (s, k, bb, i) in static_accesses(lk)}
        good = bool(st_fill) and st_fill == st_read
        rep.obligation(good)
        if not good:
            ok = False
            rep.violation("C07-SAMEIDX", f"C07-SAMEIDX/table/{piece}", f"{piece} lookup reads {sorted(st_read)} but the filler writes {sorted(st_fill)}", {"fn": lk.name, "file": lk.file, "line": lk.line})
    rep.rule("C07-SAMEIDX", n, 6, ok, "index function shared by exactly filler and lookup")


# ---- C07-FILL ------------------------------------------------------------------------------


def rule_fill(fx, rep):
    """The filler writes one entry for EVERY subset of the relevant-occupancy mask of every square: the blocker set it
    indexes with is drawn from the repository's subset iterator over `generate_<piece>_occupancies(s)` (for s over all
    squares), or - for an inlined subset walk - the starting subset is stored before the first step to the next one."""
    ok = True
    n = 0
    for piece in ("rook", "bishop"):
        fill = fx.one(f"magics::initialise_{piece}_attacks")
        calls = fill.calls_to(f"magics::table_index_{piece}")
        if len(calls) != 1:
            rep.notes.append(f"C07-FILL: initialise_{piece}_attacks does not call table_index_{piece} exactly once; clause not decided")
            continue
        bb, t = calls[0]
        if "pl" not in t["args"][1]:
            continue
        L = t["args"][1]["pl"]["l"]
        for _ in range(6):
            ds = fill.defs().get(L, [])
            if len(ds) == 1 and ds[0][0] == "stmt" and ds[0][3]["rv"]["k"] == "use" and "pl" in ds[0][3]["rv"]["op"] and not ds[0][3]["rv"]["op"]["pl"].get("p"):
                L = ds[0][3]["rv"]["op"]["pl"]["l"]
            else:
                break
        ds = fill.defs().get(L, [])
        sq = deep_strip(fill.expr(t["args"][0], expand_named=True, at=bb))
        verdict, why = None, ""
        if len(ds) == 1:
            e = fill.expr({"l": L, "p": []}, expand_named=True, at=bb)
            subs = find_calls(e, "SubsetsOf::new")
            nxt = find_calls(e, "Iterator>::next")
            if subs and nxt:
                occ = find_calls(subs[0][2][0], f"generate_{piece}_occupancies")
                same_sq = bool(occ) and deep_strip(occ[0][2][0]) == sq
                full = any(isinstance(x, tuple) and x and x[0] == "constpath" and str(x[1]).endswith("Bitboard::FULL") for x in walk(sq))
                verdict = bool(occ) and same_sq and full
                why = f"subsets of `{show(subs[0][2][0])[:80]}` for square `{show(sq)[:60]}`"
                # ... taken from the subset iterator as it is: no adaptor (filter, take, skip, step_by ..) between SubsetsOf::new and
                # the `next` that yields the blocker set
                cur = deep_strip(nxt[0][2][0]) if nxt[0][2] else None
                adaptors = []
                for _ in range(8):
                    if not (isinstance(cur, tuple) and cur and cur[0] == "call"):
                        break
                    if str(cur[1]).endswith("SubsetsOf::new"):
                        break
                    last = str(cur[1]).split("::")[-1]
                    if last not in ("into_iter", "deref", "deref_mut", "by_ref", "borrow_mut"):
                        adaptors.append(last)
                    cur = deep_strip(cur[2][0]) if cur[2] else None
                if verdict and adaptors:
                    verdict = False
                    why = f"the subset iterator is passed through `{adaptors[0]}` before the store: some subsets get no entry"
        elif len(ds) > 1:
            # inlined walk: definitions of the subset variable that do not depend on it (the start) vs those that do (the step)
            def depends_on_self(d):
                if d[0] == "stmt":
                    srcs = [x for o in fill.rvalue_operands(d[3]["rv"]) for x in fill.operand_locals(o)]
                elif d[0] == "call":
                    srcs = [x for a in d[2]["args"] for x in fill.operand_locals(a)]
                else:
                    return False
                sl, _ = fill.slice_back(srcs) if srcs else (set(), None)
                return L in sl or L in srcs
            steps = [d for d in ds if depends_on_self(d)]
            starts = [d for d in ds if d not in steps and d[0] in ("stmt", "call")]
            if steps and starts:
                reaching = fill.reaching_defs(L, bb)
                verdict = any(d in reaching for d in starts)
                why = "inlined subset walk: the starting subset " + ("reaches" if verdict else "never reaches") + " the store (every stored subset has already been stepped past the start)" * (not verdict)
                if verdict:
                    # ... and the subset produced by the last step is stored too: where the walk can leave (reach the next start or
                    # the return) after a step without passing the store, the leaving test must say that the walk has wrapped around
                    # to its starting subset (which was stored first), not that it has reached some other subset
                    from facts import switch_edge_conds
                    start_bbs = {d[1] for d in starts}
                    start_txt = set()
                    for d in starts:
                        if d[0] == "stmt" and d[3]["rv"]["k"] == "use":
                            start_txt.add(show(deep_strip(fill.expr(d[3]["rv"]["op"], expand_named=True, at=d[1]))))
                    for d in steps:
                        S = d[1]
                        nxt0 = [d[2]["target"]] if d[0] == "call" and "target" in d[2] else list(fill.succ(S))
                        R = set()
                        for x in nxt0:
                            if x != bb:
                                R |= fill.reachable(x, removed_blocks=[bb])
                        if not (R & (start_bbs | set(fill.return_blocks()))):
                            continue
                        for X in sorted(R):
                            if fill.blocks[X]["term"]["k"] != "switch" or bb not in fill.reachable(X, removed_blocks=list(start_bbs)):
                                continue
                            for (tgt, e, pol, v) in switch_edge_conds(fill, X):
                                if tgt == bb or bb in fill.reachable(tgt, removed_blocks=list(start_bbs)):
                                    continue  # stays in the walk
                                co = cmp_op(deep_strip(e)) if isinstance(deep_strip(e), tuple) else None
                                if not co or co[0] not in ("Eq", "Ne") or pol is None:
                                    continue
                                equal = (co[0] == "Eq") == bool(pol)
                                a, b2 = show(deep_strip(co[1])), show(deep_strip(co[2]))
                                name = fill.local_name(L) or f"_{L}"
                                other = b2 if name in a.split("(")[0] or a == name else (a if b2 == name else None)
                                if equal and other is not None and "const?" in other:
                                    rep.notes.append("C07-FILL: the inlined walk leaves on a comparison with a constant the fact base does not resolve; last-subset clause not decided")
                                elif equal and other is not None and other not in start_txt:
                                    verdict = False
                                    why = f"inlined subset walk: after a step the walk leaves when `{name}` equals `{other[:60]}`, without storing that subset (it starts from `{sorted(start_txt)[0][:40] if start_txt else '?'}`)"
        if verdict is None:
            rep.notes.append(f"C07-FILL: the blocker subsets of initialise_{piece}_attacks are produced in an unrecognised form; clause not decided")
            continue
        n += 1
        rep.obligation(verdict)
        rep.sample({"rule": "C07-FILL", "piece": piece, "form": why})
        if not verdict:
            ok = False
            rep.violation("C07-FILL", f"C07-FILL/{piece}", f"initialise_{piece}_attacks does not store an entry for every subset of the relevant occupancy of every square ({why}): a lookup for a missing subset reads an empty (or another subset's) entry",
                          {"fn": fill.name, "file": fill.file, "line": t.get("line")})
    rep.rule("C07-FILL", n, 0, ok, "filler covers every blocker subset of every square")


# ---- C07-ORIGIN ----------------------------------------------------------------------------


def rule_origin(fx, rep):
    """A leaper's attack set never contains the square it stands on: in the king / knight / pawn attack generators the unshifted
    origin bit (`square.bb()`) reaches the result only through step functions, never through plain `|`. (Move generation masks
    the origin away, so perft cannot see it; the king-safety term counts it and indexes a 9-entry table with the count.)"""
    ok = True
    n = 0
    for b in fx.fn_bodies():
        nb = norm(b.name)
        if not nb.startswith("chess::movegen::tables::attacks::generate_") or b.kind != "Fn" or "::tests::" in nb:
            continue
        tys = [b.local_ty(i) for i in range(1, b.arg_count + 1)]
        if not tys or tys[0] != "chess::square::Square" or any(t == "chess::bitboard::Bitboard" for t in tys) or b.local_ty(0) != "chess::bitboard::Bitboard":
            continue  # sliders take an occupancy and are decided by C07-MAGIC / C07-FILL
        T = set()
        refs = {}  # ref local -> target local
        changed = True
        rounds = 0
        while changed and rounds < 50:
            changed = False
            rounds += 1
            for bb, j, st in b.stmts():
                if st["k"] != "assign" or st["lhs"].get("p"):
                    continue
                l = st["lhs"]["l"]
                rv = st["rv"]
                if rv["k"] in ("ref", "rawptr") and not rv["pl"].get("p"):
                    refs[l] = rv["pl"]["l"]
                srcs = []
                if rv["k"] == "use" and "pl" in rv["op"]:
                    srcs = [rv["op"]["pl"]["l"]]
                elif rv["k"] == "binop" and rv["op"] == "BitOr":
                    srcs = [o["pl"]["l"] for o in (rv["a"], rv["b"]) if "pl" in o]
                elif rv["k"] == "agg" and len(rv.get("ops", [])) == 1 and "pl" in rv["ops"][0]:
                    srcs = [rv["ops"][0]["pl"]["l"]]
                if any(x in T for x in srcs) and l not in T:
                    T.add(l)
                    changed = True
            for bb, t in b.calls():
                cn = norm(callee_name(t) or "")
                dest = t["dest"]["l"] if not t["dest"].get("p") else None
                argl = [a["pl"]["l"] if "pl" in a else None for a in t["args"]]
                if cn.endswith("Square::bb") and argl and argl[0] is not None:
                    # the origin bit itself
                    if dest is not None and dest not in T:
                        T.add(dest)
                        changed = True
                elif cn.endswith("BitOr>::bitor"):
                    if dest is not None and any(x in T for x in argl if x is not None) and dest not in T:
                        T.add(dest)
                        changed = True
                elif cn.endswith("BitOrAssign>::bitor_assign"):
                    tgt = refs.get(argl[0]) if argl and argl[0] is not None else None
                    if tgt is not None and len(argl) > 1 and argl[1] in T and tgt not in T:
                        T.add(tgt)
                        changed = True
        n += 1
        good = 0 not in T
        rep.obligation(good)
        rep.sample({"rule": "C07-ORIGIN", "generator": nb.split("::")[-1], "origin_in_result": not good})
        if not good:
            ok = False
            rep.violation("C07-ORIGIN", f"C07-ORIGIN/{nb.split('::')[-1]}", f"`{b.name}` ors the unshifted origin square into its result: the attack set of every square then contains the square itself, which is not the geometric definition",
                          {"fn": b.name, "file": b.file, "line": b.line})
    rep.rule("C07-ORIGIN", n, 3, ok, "leaper attack sets exclude the origin square")


# ---- C07-BETWEEN ---------------------------------------------------------------------------


def rule_between(fx, rep):
    """The squares-between generator may produce squares only for two squares on a common rank, file or diagonal: every path
    that can return a non-empty set has taken the true side of one of its alignment tests (rank == rank, file == file,
    |file difference| == |rank difference|); all other paths return the empty answer."""
    cands = [b for b in fx.fn_bodies() if norm(b.name).startswith("chess::movegen::tables::between::") and "::tests::" not in b.name and
             b.arg_count == 2 and b.kind == "Fn" and "Bitboard" in b.local_ty(0) and all("Square" in b.local_ty(i) for i in (1, 2)) and not norm(b.name).endswith("::between")]
    if len(cands) != 1:
        rep.notes.append("C07-BETWEEN: no single (Square, Square) -> Bitboard generator in tables::between; clause not decided")
        rep.rule("C07-BETWEEN", 0, 0, True, "not decided")
        return
    b = cands[0]

    def alignment(e):
        co = cmp_op(deep_strip(e)) if isinstance(deep_strip(e), tuple) else None
        if not co or co[0] != "Eq":
            return None
        x, y = show(co[1]), show(co[2])
        if "Square::rank" in x and "Square::rank" in y and "abs_diff" not in x:
            return "rank"
        if "Square::file" in x and "Square::file" in y and "abs_diff" not in x:
            return "file"
        if "abs_diff" in x and "abs_diff" in y:
            return "diagonal"
        return None

    from facts import switch_edge_conds
    aligned_edges = []
    tests = set()
    for a in sorted(b.live_blocks()):
        for (tgt, e, pol, v) in switch_edge_conds(b, a):
            al = alignment(e)
            if al:
                tests.add(al)
                if pol is True:
                    aligned_edges.append((a, tgt))
    if not tests:
        rep.notes.append("C07-BETWEEN: the generator has no recognisable alignment test (it may obtain alignment differently); clause not decided")
        rep.rule("C07-BETWEEN", 0, 0, True, "not decided")
        return

    def is_empty_value(e):
        r = deep_strip(e)
        if isinstance(r, tuple) and r and r[0] == "agg" and str(r[1]).endswith("Option::None"):
            return True
        if isinstance(r, tuple) and r and r[0] == "constpath" and str(r[1]).endswith("Bitboard::EMPTY"):
            return True
        return False
    sites = []
    for d in b.defs().get(0, []):
        if d[0] == "stmt":
            rv = d[3]["rv"]
            if rv["k"] == "use":
                if is_empty_value(b.expr(rv["op"], expand_named=False, at=d[1])):
                    continue
            elif rv["k"] == "agg" and rv.get("variant") == "None":
                continue
            sites.append((d[1], d[3].get("line")))
        elif d[0] == "call":
            sites.append((d[1], d[2].get("line")))
    ok = True
    n = 0
    free = b.reachable(0, removed_edges=aligned_edges)
    for (bb, line) in sites:
        n += 1
        good = bb not in free
        rep.obligation(good)
        if not good:
            ok = False
            rep.violation("C07-BETWEEN", "C07-BETWEEN/unaligned", f"`{b.name}` line {line} can return a possibly non-empty set on a path where none of its alignment tests {sorted(tests)} holds: "
                          f"pairs of squares on no common line get squares 'between' them", {"fn": b.name, "file": b.file, "line": line})
    # open interval: the set excludes both squares it lies between. Where the walk that accumulates squares starts ON one of
    # the two squares (no priming step before the first accumulation), that square has to be removed again - and it is whichever
    # argument the `min_by_key` / orientation logic picked, not a fixed one of the two parameters
    walks = 0
    for (bb, t) in b.calls():
        if not callee_name(t).endswith("BitOrAssign>::bitor_assign") or len(t["args"]) != 2 or "pl" not in t["args"][1]:
            continue
        if bb not in b.reachable(t["target"]) if "target" in t else True:
            continue  # not inside a loop
        cl = t["args"][1]["pl"]["l"]
        srcs = [d for d in b.defs().get(cl, []) if d[0] == "stmt" and d[1] == bb]
        cur = None
        if srcs and srcs[-1][3]["rv"]["k"] == "use" and "pl" in srcs[-1][3]["rv"]["op"] and not srcs[-1][3]["rv"]["op"]["pl"].get("p"):
            cur = srcs[-1][3]["rv"]["op"]["pl"]["l"]
        if cur is None:
            continue
        kinds = []
        for d in b.reaching_defs(cur, bb):
            if d[0] == "stmt":
                e = deep_strip(b.expr(d[3]["rv"]["op"], expand_named=False, at=d[1])) if d[3]["rv"]["k"] == "use" else None
            elif d[0] == "call":
                e = ("call", callee_name(d[2]), tuple(deep_strip(b.expr(a, expand_named=False, at=d[1])) for a in d[2]["args"]))
            else:
                e = None
            if isinstance(e, tuple) and e and e[0] == "call" and "bitboard::Bitboard::" in str(e[1]) and e[2] and "Bitboard" in show(e[2][0]) + str(e[1]) and not str(e[1]).endswith("::new"):
                kinds.append(("stepped", e, d[1]))
            elif isinstance(e, tuple) and e and e[0] == "call" and str(e[1]).endswith("Square::bb") and len(e[2]) == 1:
                kinds.append(("on", e[2][0], d[1]))
            else:
                kinds.append(("?", e, d[1]))
        if any(k[0] == "?" for k in kinds) or not kinds:
            rep.notes.append(f"C07-BETWEEN: the walk cursor at line {t.get('line')} has a definition this clause does not classify; open-interval clause not decided for this walk")
            continue
        walks += 1
        starts = [k for k in kinds if k[0] == "on" and bb in b.reachable(k[2], removed_blocks=[x[2] for x in kinds if x[0] == "stepped" and x[2] not in b.reachable(bb)])]
        # a start definition counts only if it can reach the accumulation without passing a stepping definition outside the loop
        good = True
        why = None
        for (_, sq_e, dbb) in starts:
            # the value returned after this walk must remove the start square: `.. & !(start.bb())` or `.. & !(s1.bb() | s2.bb())`
            rets = [x for x in sites if x[0] in b.reachable(bb)]
            for (rb, line) in rets:
                vals = [show(deep_strip(b.expr(st["rv"]["ops"][0] if st["rv"]["k"] == "agg" and st["rv"].get("ops") else st["rv"].get("op", {}), expand_named=False, at=rb)))
                        for st in b.blocks[rb]["stmts"] if st["k"] == "assign" and st["lhs"]["l"] == 0 and not st["lhs"].get("p")]
                txt = " ".join(vals)
                masked = "Not" in txt or "!" in txt
                covers = masked and (show(sq_e) in txt or all(nm in txt for nm in (b.local_name(1) or "_1", b.local_name(2) or "_2")))
                if not covers:
                    good = False
                    why = (show(sq_e), line)
        rep.obligation(good)
        n += 1
        if not good:
            ok = False
            rep.violation("C07-BETWEEN", "C07-BETWEEN/open-interval", f"`{b.name}`: the walk accumulating squares (line {t.get('line')}) starts on `{why[0]}` without a step before the first accumulation, and the value returned "
                          f"at line {why[1]} does not remove that square again (removing one fixed parameter is not enough: the start is whichever argument the orientation picked): the set 'between' two squares contains one of them "
                          "for half of the aligned ordered pairs", {"fn": b.name, "file": b.file, "line": t.get("line")})
    rep.sample({"rule": "C07-BETWEEN", "alignment_tests": sorted(tests), "non_empty_return_sites": len(sites), "walks_checked_for_open_interval": walks})
    rep.rule("C07-BETWEEN", n, 1, ok, "non-empty squares-between only under an alignment test")


# ---- C07-MAGIC -----------------------------------------------------------------------------


def magics_from_body(fx, name):
    b = fx.body(name)
    out = []
    if b is None:
        return out
    for bb, j, s in b.stmts(live_only=False):
        rv = s.get("rv")
        if rv and rv["k"] == "agg" and rv.get("agg") == "tuple" and len(rv["ops"]) == 2 and all("int" in o for o in rv["ops"]):
            out.append((rv["ops"][0]["int"], rv["ops"][1]["int"]))
    return out


def ray_attacks(sq, occ, dirs):
    res = 0
    f0, r0 = sq % 8, sq // 8
    for df, dr in dirs:
        f, r = f0 + df, r0 + dr
        while 0 <= f < 8 and 0 <= r < 8:
            b = 1 << (r * 8 + f)
            res |= b
            if occ & b:
                break
            f, r = f + df, r + dr
    return res


def relevant_mask(sq, dirs):
    res = 0
    f0, r0 = sq % 8, sq // 8
    for df, dr in dirs:
        f, r = f0 + df, r0 + dr
        while 0 <= f + df < 8 and 0 <= r + dr < 8:
            res |= 1 << (r * 8 + f)
            f, r = f + df, r + dr
    return res


ROOK_DIRS = ((1, 0), (-1, 0), (0, 1), (0, -1))
BISHOP_DIRS = ((1, 1), (1, -1), (-1, 1), (-1, -1))


def rule_magic(fx, rep):
    ok = True
    n = 0
    M64 = (1 << 64) - 1

    def bad(key, msg, b=None):
        nonlocal ok
        ok = False
        rep.violation("C07-MAGIC", f"C07-MAGIC/{key}", msg, {"fn": b.name if b else None, "file": b.file if b else "src/chess/movegen/tables/magics.rs", "line": b.line if b else None})

    # table length from the static's type
    tl = None
    for k, v in fx.statics.items():
        if norm(k).endswith("magics::ATTACKS_TABLE"):
            m = re.search(r";\s*(\d+)\]", v["ty"])
            tl = int(m.group(1)) if m else None
    shifts = {"rook": fx.const("magics::ROOK_SHIFT").get("int"), "bishop": fx.const("magics::BISHOP_SHIFT").get("int")}
    consts = {"rook": magics_from_body(fx, "chess::movegen::tables::magics::DEFAULT_ROOK_MAGICS"), "bishop": magics_from_body(fx, "chess::movegen::tables::magics::DEFAULT_BISHOP_MAGICS")}
    n += 1
    good = tl is not None and all(len(v) == 64 for v in consts.values()) and all(isinstance(s, int) for s in shifts.values())
    rep.obligation(good)
    if not good:
        bad("constants", f"could not extract table length ({tl}), 64+64 magics ({[len(v) for v in consts.values()]}) and shifts ({shifts})")
        rep.rule("C07-MAGIC", n, 4, False)
        return
    # index formula shape: index + ((blockers | not_mask).as_u64().wrapping_mul(magic) >> (64 - SHIFT)) as usize
    for piece in ("rook", "bishop"):
        b = fx.one(f"magics::table_index_{piece}")
        n += 1
        paths = [p for p in decision_paths(b) if p[1] is not None]
        good = len(paths) == 1
        if good:
            e = deep_strip(paths[0][1])
            # the arithmetic may sit in a helper shared by both pieces: inline it with the call's arguments
            for _ in range(2):
                if isinstance(e, tuple) and e and e[0] == "call" and isinstance(e[1], str) and "tables::magics::" in e[1] and fx.body(e[1]) is not None:
                    hp = [p for p in decision_paths(fx.body(e[1])) if p[1] is not None]
                    if len(hp) == 1 and not hp[0][0]:
                        e = deep_strip(substitute_args(hp[0][1], e[2]))
                        continue
                break
            txt = show(e)
            wm = find_calls(e, "wrapping_mul")
            good = bool(wm) and bool(find_calls(e, "BitOr>::bitor")) and "Shr" in txt and (find_calls(e, "Add<usize>>::add", "Add>::add") or "Add" in txt)
            if good:
                shr = [x for x in walk(e) if isinstance(x, tuple) and x and x[0] == "binop" and x[1] == "Shr"]
                amt = deep_strip(shr[0][3]) if shr else None
                # (64 - SHIFT)
                val = None
                if isinstance(amt, tuple) and amt[0] == "field" and isinstance(amt[1], tuple) and amt[1][0] == "binop":
                    a, c = deep_strip(amt[1][2]), deep_strip(amt[1][3])
                    if a[0] == "const" and c[0] == "const":
                        val = a[1] - c[1]
                elif isinstance(amt, tuple) and amt[0] == "const":
                    val = amt[1]
                good = val == 64 - shifts[piece]
                # operands of the product: (blockers | *not_mask) and *magic (field .0 of the per-square tuple); offset = field .1
                flds = [x[2] for x in walk(e) if isinstance(x, tuple) and len(x) == 3 and x[0] == "field" and x[2] in ("0", "1") and find_calls(x[1], "get_unchecked")]
                good = good and "0" in flds and "1" in flds
        rep.obligation(good)
        if not good:
            bad(f"formula/{piece}", f"table_index_{piece} is not `offset + (((blockers | not_mask) * magic) >> (64 - {shifts[piece]}))`; the exhaustive index check below would not describe the code", b)
    if not ok:
        rep.rule("C07-MAGIC", n, 4, False)
        return
    # exhaustive enumeration over source constants (no repository code runs)
    table = {}
    cases = 0
    worst = 0
    for piece, dirs in (("rook", ROOK_DIRS), ("bishop", BISHOP_DIRS)):
        sh = 64 - shifts[piece]
        for sq in range(64):
            magic, offset = consts[piece][sq]
            mask = relevant_mask(sq, dirs)
            notmask = ~mask & M64
            sub = 0
            while True:
                idx = offset + ((((sub | notmask) * magic) & M64) >> sh)
                cases += 1
                if idx >= tl:
                    bad(f"range/{piece}/{sq}", f"{piece} magic of square {sq}: blockers {sub:#x} give index {idx} >= table length {tl} (get_unchecked out of bounds)")
                    rep.rule("C07-MAGIC", n + 1, 4, False)
                    return
                worst = max(worst, idx)
                att = ray_attacks(sq, sub, dirs)
                prev = table.get(idx)
                if prev is None:
                    table[idx] = att
                elif prev != att:
                    bad(f"collision/{piece}/{sq}", f"{piece} magic of square {sq}: blockers {sub:#x} share table slot {idx} with a different attack set (destructive collision)")
                    rep.rule("C07-MAGIC", n + 1, 4, False)
                    return
                sub = (sub - mask) & mask
                if sub == 0:
                    break
    n += 1
    rep.obligation(True, cases)
    rep.sample({"rule": "C07-MAGIC", "cases": cases, "distinct_slots": len(table), "max_index": worst, "table_len": tl})
    rep.analysed["magic_cases"] = cases
    good = cases == 107648
    rep.obligation(good)
    if not good:
        bad("cases", f"enumerated {cases} (square, blocker subset) pairs, expected 107648")
    rep.rule("C07-MAGIC", n, 4, ok, f"{cases} (square, blocker-subset) pairs: index < {tl}, no destructive collision")


MG = "src/chess/movegen/tables/magics.rs"
BB = "src/chess/bitboard.rs"
_PRIME = "        current_square = current_square.east();\n\n        while current_square != end_square {\n            squares |= current_square;\n            current_square = current_square.east();\n        }\n\n        return Some(squares);"
_NOPRIME = "        while current_square != end_square {\n            squares |= current_square;\n            current_square = current_square.east();\n        }\n\n        return Some(squares & !%s);"
MUTANTS = [
    {"name": "rook filler walks the subsets upwards itself and stops in front of the full subset (seed C01-8a)", "expect": "C07-FILL/rook",
     "edits": [("src/chess/movegen/tables/magics.rs", "        let occupancy_subsets = SubsetsOf::new(occupancies);\n\n        for blockers in occupancy_subsets {\n            let idx = table_index_rook(s, blockers);\n\n            unsafe {\n                ATTACKS_TABLE[idx] = attacks::generate_rook_attacks(s, blockers);\n            }\n        }", "        let mut blockers = Bitboard::EMPTY;\n\n        while blockers != occupancies {\n            let idx = table_index_rook(s, blockers);\n\n            unsafe {\n                ATTACKS_TABLE[idx] = attacks::generate_rook_attacks(s, blockers);\n            }\n\n            blockers = (blockers - occupancies) & occupancies;\n        }")]},
    {"name": "rook filler walks the subsets upwards itself until the walk wraps around to the empty subset", "benign": True,
     "edits": [("src/chess/movegen/tables/magics.rs", "        let occupancy_subsets = SubsetsOf::new(occupancies);\n\n        for blockers in occupancy_subsets {\n            let idx = table_index_rook(s, blockers);\n\n            unsafe {\n                ATTACKS_TABLE[idx] = attacks::generate_rook_attacks(s, blockers);\n            }\n        }", "        let mut blockers = Bitboard::EMPTY;\n\n        loop {\n            let idx = table_index_rook(s, blockers);\n\n            unsafe {\n                ATTACKS_TABLE[idx] = attacks::generate_rook_attacks(s, blockers);\n            }\n\n            blockers = (blockers - occupancies) & occupancies;\n            if blockers == Bitboard::EMPTY {\n                break;\n            }\n        }")]},
    {"name": "walk of the same-rank case starts on the left-most square and only s1 is masked out (seed C07-7a)", "expect": "C07-BETWEEN/open-interval",
     "edits": [("src/chess/movegen/tables/between.rs", _PRIME, _NOPRIME % "s1.bb()")]},
    {"name": "walk of the same-rank case starts on the left-most square and both end squares are masked out", "benign": True,
     "edits": [("src/chess/movegen/tables/between.rs", _PRIME, _NOPRIME % "(s1.bb() | s2.bb())")]},
    {"name": "rook filler skips subsets with more than ten blockers (seed C07-6a)", "expect": "C07-FILL/rook",
     "edits": [("src/chess/movegen/tables/magics.rs", "        let occupancy_subsets = SubsetsOf::new(occupancies);\n\n        for blockers in occupancy_subsets {\n            let idx = table_index_rook(s, blockers);", "        let occupancy_subsets = SubsetsOf::new(occupancies).filter(|blockers| blockers.count() <= 10);\n\n        for blockers in occupancy_subsets {\n            let idx = table_index_rook(s, blockers);")]},
    {"name": "pawn attack generator by index arithmetic with an off-by-one board bound (seed C07-5b)", "expect": "C07-LEAPGEN/pawn/White",
     "edits": [("src/chess/movegen/tables/attacks.rs", "    let mut attacks = Bitboard::EMPTY;\n    let sq = square.bb();\n\n    attacks |= sq.forward(player).west();\n    attacks |= sq.forward(player).east();\n\n    attacks\n}",
                "    let idx = square.idx();\n    let file = idx % 8;\n    let mut attacks = 0;\n    match player {\n        Player::White => {\n            if file > 0 && idx + 7 < 63 {\n                attacks |= 1 << (idx + 7);\n            }\n            if file < 7 && idx + 9 < 63 {\n                attacks |= 1 << (idx + 9);\n            }\n        }\n        Player::Black => {\n            if file > 0 && idx >= 9 {\n                attacks |= 1 << (idx - 9);\n            }\n            if file < 7 && idx >= 7 {\n                attacks |= 1 << (idx - 7);\n            }\n        }\n    }\n    Bitboard::new(attacks)\n}")]},
    {"name": "benign: pawn attack generator by index arithmetic, correct bounds", "benign": True,
     "edits": [("src/chess/movegen/tables/attacks.rs", "    let mut attacks = Bitboard::EMPTY;\n    let sq = square.bb();\n\n    attacks |= sq.forward(player).west();\n    attacks |= sq.forward(player).east();\n\n    attacks\n}",
                "    let idx = square.idx();\n    let file = idx % 8;\n    let mut attacks = 0;\n    match player {\n        Player::White => {\n            if file > 0 && idx + 7 < 64 {\n                attacks |= 1 << (idx + 7);\n            }\n            if file < 7 && idx + 9 < 64 {\n                attacks |= 1 << (idx + 9);\n            }\n        }\n        Player::Black => {\n            if file > 0 && idx >= 9 {\n                attacks |= 1 << (idx - 9);\n            }\n            if file < 7 && idx >= 7 {\n                attacks |= 1 << (idx - 7);\n            }\n        }\n    }\n    Bitboard::new(attacks)\n}")]},
    {"name": "knight generator: one jump goes the wrong way", "expect": "C07-LEAPGEN/knight",
     "edits": [("src/chess/movegen/tables/attacks.rs", "    attacks |= sq.east().south_east();", "    attacks |= sq.east().south_west();")]},
    {"name": "king attacks built as a row smear that keeps the origin (seed C07-4b)", "expect": "C07-ORIGIN/generate_king_attacks",
     "edits": [("src/chess/movegen/tables/attacks.rs", "    for direction in Direction::ALL {\n        attacks |= sq.in_direction(*direction);\n    }\n\n    attacks", "    let _ = &mut attacks;\n    let row = sq | sq.east() | sq.west();\n    row | row.north() | row.south()")]},
    {"name": "squares-between loses its diagonal alignment test (shape of seed C07-3)", "expect": "C07-BETWEEN",
     "edits": [("src/chess/movegen/tables/between.rs", "    if s1.file().idx().abs_diff(s2.file().idx()) == s1.rank().idx().abs_diff(s2.rank().idx()) {", "    if s1.file() != s2.file() {")]},
    {"name": "rook filler skips the fully occupied subset (seed C07-2)", "expect": "C07-FILL/rook",
     "edits": [("src/chess/movegen/tables/magics.rs", "        let occupancies = generate_rook_occupancies(s);\n\n        let occupancy_subsets = SubsetsOf::new(occupancies);\n\n        for blockers in occupancy_subsets {",
                "        let occupancies = generate_rook_occupancies(s);\n\n        let mut blockers = occupancies;\n\n        while blockers.any() {\n            blockers = (blockers - Bitboard::new(1)) & occupancies;")]},
    {"name": "benign: rook filler with a correct inlined descending subset walk", "benign": True,
     "edits": [("src/chess/movegen/tables/magics.rs", "        let occupancy_subsets = SubsetsOf::new(occupancies);\n\n        for blockers in occupancy_subsets {\n            let idx = table_index_rook(s, blockers);\n\n            unsafe {\n                ATTACKS_TABLE[idx] = attacks::generate_rook_attacks(s, blockers);\n            }\n        }",
                "        let mut blockers = occupancies;\n\n        loop {\n            let idx = table_index_rook(s, blockers);\n\n            unsafe {\n                ATTACKS_TABLE[idx] = attacks::generate_rook_attacks(s, blockers);\n            }\n\n            if blockers.is_empty() {\n                break;\n            }\n\n            blockers = (blockers - Bitboard::new(1)) & occupancies;\n        }")]},
    {"name": "bishop filler enumerates subsets of the rook mask", "expect": "C07-FILL/bishop",
     "edits": [("src/chess/movegen/tables/magics.rs", "        let occupancies = generate_bishop_occupancies(s);", "        let occupancies = generate_rook_occupancies(s);")]},
    {"name": "one rook offset moved past the table end", "expect": "C07-MAGIC/range",
     "edits": [(MG, "(0x80280013FF84FFFF, 10890)", "(0x80280013FF84FFFF, 87000)")]},
    {"name": "one rook magic changed (collisions)", "expect": "C07-MAGIC",
     "edits": [(MG, "(0x80280013FF84FFFF, 10890)", "(0x0000000000010001, 10890)")]},
    {"name": "attack table shrunk", "expect": "C07-MAGIC/range",
     "edits": [(MG, "type AttacksTable = [Bitboard; 87988];\nstatic mut ATTACKS_TABLE: AttacksTable = [Bitboard::EMPTY; 87988];", "type AttacksTable = [Bitboard; 87000];\nstatic mut ATTACKS_TABLE: AttacksTable = [Bitboard::EMPTY; 87000];")]},
    {"name": "east step loses its wrap mask", "expect": "C07-WRAP/east",
     "edits": [(BB, "        Self(self.0 << 1) & Self::NOT_A_FILE", "        Self(self.0 << 1)")]},
    {"name": "north-west masked with the wrong file", "expect": "C07-WRAP/north_west",
     "edits": [(BB, "        Self(self.0 << 7) & Self::NOT_H_FILE", "        Self(self.0 << 7) & Self::NOT_A_FILE")]},
    {"name": "CastleRightsSide gains a variant without bumping N", "expect": "C07-N",
     "edits": [("src/chess/game.rs", "pub enum CastleRightsSide {\n    Kingside,\n    Queenside,\n}", "pub enum CastleRightsSide {\n    Kingside,\n    Queenside,\n    #[allow(dead_code)]\n    Both,\n}"),
               ("src/chess/game.rs", "            CastleRightsSide::Queenside => self.queen_side,\n        }", "            CastleRightsSide::Queenside => self.queen_side,\n            CastleRightsSide::Both => self.king_side && self.queen_side,\n        }"),
               ("src/chess/game.rs", "            CastleRightsSide::Queenside => self.queen_side = false,\n        }", "            CastleRightsSide::Queenside => self.queen_side = false,\n            CastleRightsSide::Both => {\n                self.king_side = false;\n                self.queen_side = false;\n            }\n        }")]},
    {"name": "bishop filler stores the rook walk", "expect": "C07-SAMEIDX/filler",
     "edits": [(MG, "                ATTACKS_TABLE[idx] = attacks::generate_bishop_attacks(s, blockers);", "                ATTACKS_TABLE[idx] = attacks::generate_rook_attacks(s, blockers);")]},
    {"name": "lookup shift differs from the constant", "expect": "C07-MAGIC/formula",
     "edits": [(MG, "    occupancies_index_offset >>= Square::N - ROOK_SHIFT;", "    occupancies_index_offset >>= Square::N - ROOK_SHIFT - 1;")]},
    {"name": "unchecked lookup by raw u8", "expect": "C07-UNCHK",
     "edits": [("src/chess/movegen/tables/king.rs", "    *unsafe { ATTACKS_TABLE.get_unchecked(s.array_idx()) }", "    *unsafe { ATTACKS_TABLE.get_unchecked(s.array_idx() + 1) }")]},
]
