"""C11 — repetition, fifty-move and dead-material draws: the clauses that are decidable from the shape of the three
predicates (the design first listed C11 as not applicable; the path-sensitive symbolic walk built for C06/C19
makes a finite decision-table argument possible for the material rule and a shape argument for the other two).
Rules: C11-MATERIAL, C11-FIFTY, C11-REPKEY, C11-CALLERS."""
import itertools

from facts import (norm, show, walk, strip_refs, deep_strip, callee_name, find_calls, guard_conditions, cmp_op,
                   decision_paths, switch_edge_conds)

EXPLANATION = (
    "Decides the clauses of C11 that are visible in the shape of the three draw predicates, not the exactness of the "
    "repetition verdict over all game histories: (MATERIAL) the material predicate is executed abstractly over every "
    "model (piece count 2..6, number of knights, number of bishops, other men, free geometric flags): bare kings and "
    "king + one minor are always declared insufficient, and a position containing a pawn, rook or queen or more than "
    "two minors never is; (FIFTY) the fifty-move predicate is `halfmove_clock >= 100` and, only then, 'has a legal "
    "move' computed by the legal move generator; (REPKEY) the repetition scan compares the full position key of "
    "history entries with the current key, newest first, over at most `halfmove_clock` entries (if the scan is not in "
    "this recognisable form the clause is reported as not decided, without alarm); (CALLERS) negamax (below the root) "
    "and quiescence consult all three predicates and return the draw score when any holds."
)


def run(fx, rep, tier):
    rule_material(fx, rep)
    rule_fifty(fx, rep)
    rule_repkey(fx, rep)
    rule_callers(fx, rep)
    rule_clock(fx, rep)
    rule_history(fx, rep)
    rule_key(fx, rep)


def rule_key(fx, rep):
    """Repetition is recognised by key equality (C11-REPKEY), so the same position reached along different move orders must
    carry the same key: the key written incrementally by make_move / undo_move has to equal the from-scratch key of the
    position - in particular a component must be toggled exactly when the state it encodes changes (seed C11-5b: a castling
    word flipped again for a right that was already lost makes identical positions differ). These are the C03 clauses,
    re-reported here as the premise of the repetition verdict."""
    import core
    import pC03
    sub = type(rep)(rep.prop, rep.tier)
    q = core.QUIET
    core.QUIET = True
    try:
        pC03.run(fx, sub, rep.tier)
    finally:
        core.QUIET = q
    for v in sub.violations:
        rep.violation("C11-KEY", v["key"].replace("C03-", "C11-KEY/", 1), v["msg"] + " (identical positions then carry different keys, or different positions the same one: repetitions are missed or invented)", v["site"])
    rep.obligations += sub.obligations
    rep.discharged += sub.discharged
    rep.rule("C11-KEY", sub.obligations, 100, not sub.violations, "equal positions carry equal keys (shared with C03)")


def rule_history(fx, rep, rid="C11-HISTORY"):
    """The search runs on copies of the position (the go handler and search() clone it). The repetition test reads `history`, so a
    copy must carry it - and every other field - over unchanged: each field of the Game built by `<Game as Clone>::clone` is the
    clone / copy of the same field of `self`."""
    cl = [b for b in fx.bodies.values() if "chess::game::Game as std::clone::Clone>::clone" in b.name and b.kind != "Closure"]
    if len(cl) != 1:
        rep.notes.append(f"{rid}: no single Clone impl for Game; clause not decided")
        rep.rule(rid, 0, 0, True, "not decided")
        return
    b = cl[0]
    ok = True
    n = 0
    aggs = [(bb, st) for bb, j, st in b.stmts() if st["k"] == "assign" and st["rv"]["k"] == "agg" and st["rv"].get("agg") == "adt" and norm(st["rv"]["adt"]) == "chess::game::Game"]
    if len(aggs) != 1:
        rep.notes.append(f"{rid}: Game::clone does not build one Game literal; clause not decided")
        rep.rule(rid, 0, 0, True, "not decided")
        return
    bb, st = aggs[0]
    for fld, op in zip(st["rv"]["fields"], st["rv"]["ops"]):
        n += 1
        e = b.expr(op, expand_named=True, at=bb)
        src = [x[2] for x in walk(e) if isinstance(x, tuple) and len(x) == 3 and x[0] == "field" and isinstance(x[2], str) and isinstance(deep_strip(x[1]), tuple) and deep_strip(x[1])[:2] == ("arg", 1)]
        good = src == [fld]
        rep.obligation(good)
        if not good:
            ok = False
            rep.violation(rid, f"{rid}/clone/{fld}", f"a copy of a Game gets `{fld}` from `{show(e)[:60]}`, not from the original's `{fld}`" +
                          (": the search works on copies, so positions of the game are invisible to its repetition test" if fld == "history" else ""), {"fn": b.name, "file": b.file, "line": b.line})
    rep.rule(rid, n, 9, ok, "copies of a Game carry every field, the history included")


def rule_clock(fx, rep):
    """Both the fifty-move rule and the repetition window are defined by the halfmove clock "since the last capture or pawn
    move": make_move must reset it exactly then and count otherwise. This is the clock clause of C02-FORWARD, reported here
    under C11 because it is a premise of this property (seed C11-3)."""
    import core
    import pC02
    sub = type(rep)(rep.prop, rep.tier)
    q = core.QUIET
    core.QUIET = True
    try:
        pC02.rule_forward(fx, sub)
    finally:
        core.QUIET = q
    vs = [v for v in sub.violations if v["key"] == "C02-FORWARD/clock"]
    for v in vs:
        rep.violation("C11-CLOCK", "C11-CLOCK/reset", v["msg"] + " (so the fifty-move count and the repetition window no longer follow the game history)", v["site"])
    rep.obligation(not vs)
    # who may write the clock: make_move (the rule above), the two take-backs (restore) and constructors. Any other writer - a
    # null move that zeroes it, say - cuts the fifty-move count and the repetition window off from the game history below it.
    allowed = ("Game::make_move", "Game::undo_move", "Game::undo_null_move")
    nw, okw = 0, True
    for b in fx.fn_bodies():
        if "::tests::" in b.name:
            continue
        for (wb, wi, adt, fld, kind, place) in b.field_writes():
            if fld != "halfmove_clock" or not adt.endswith("game::Game"):
                continue
            nw += 1
            good = norm(b.name).endswith(allowed)
            if not good and not b.raw.get("vis_pub"):
                cs = [c for (c, _bb, _t) in fx.callers_of(lambda nm, _n=b.name: fx.body(nm) is not None and fx.body(nm).name == _n)]
                good = bool(cs) and all(norm(c.name).endswith(allowed) for c in cs)
            rep.obligation(good)
            if not good:
                okw = False
                rep.violation("C11-CLOCK", f"C11-CLOCK/writer/{norm(b.name).split('::')[-1]}", f"`{b.name}` writes the halfmove clock: only make_move (reset exactly on captures and pawn moves) and the "
                              "take-backs may; below such a write the fifty-move count and the repetition window no longer follow the game history", {"fn": b.name, "file": b.file, "line": b.line_of(wb)})
    # ... and a take-back puts back exactly the clock that was saved (C02-HIST's save / restore clauses for this field, re-reported:
    # a saved copy narrowed to u8 restores the clock modulo 256)
    sub2 = type(rep)(rep.prop, rep.tier)
    q2 = core.QUIET
    core.QUIET = True
    try:
        pC02.rule_hist(fx, sub2)
    finally:
        core.QUIET = q2
    hv = [v for v in sub2.violations if "halfmove_clock" in v["key"]]
    for v in hv:
        rep.violation("C11-CLOCK", v["key"].replace("C02-HIST", "C11-CLOCK/hist"), v["msg"] + " (the fifty-move count and the repetition window are then wrong after a take-back)", v["site"])
    rep.obligation(not hv)
    rep.rule("C11-CLOCK", 1 + nw, 1, not vs and okw and not hv, "halfmove clock reset exactly on captures and pawn moves (shared with C02-FORWARD); no other writer; restored exactly")


# ---- C11-MATERIAL --------------------------------------------------------------------------


def classify(e):
    """recognise a condition of the material predicate: returns ('count',) / ('nk', c) / ('nb', c) / ('minor_any',) or None"""
    d = deep_strip(e)
    if isinstance(d, tuple) and d[0] == "call" and d[1].endswith("Bitboard::count"):
        inner = deep_strip(d[2][0])
        if isinstance(inner, tuple) and inner[0] == "call" and inner[1].endswith("Board::occupancy"):
            return ("count",)
    co = cmp_op(d)
    if co:
        a, b = deep_strip(co[1]), deep_strip(co[2])
        flip = {"Lt": "Gt", "Gt": "Lt", "Le": "Ge", "Ge": "Le", "Eq": "Eq", "Ne": "Ne"}
        for x, y, op in ((a, b, co[0]), (b, a, flip[co[0]])):
            if isinstance(y, tuple) and y[0] == "const" and isinstance(x, tuple) and x[0] == "call" and x[1].endswith("Bitboard::count"):
                inner = deep_strip(x[2][0])
                if isinstance(inner, tuple) and inner[0] == "call" and inner[1].endswith("Board::all_knights"):
                    return ("cmp", "nk", op, y[1])
                if isinstance(inner, tuple) and inner[0] == "call" and inner[1].endswith("Board::all_bishops"):
                    return ("cmp", "nb", op, y[1])
                if isinstance(inner, tuple) and inner[0] == "call" and inner[1].endswith("Board::occupancy"):
                    return ("cmp", "count", op, y[1])
    if isinstance(d, tuple) and d[0] == "call" and d[1].endswith("Bitboard::any"):
        inner = deep_strip(d[2][0])
        if isinstance(inner, tuple) and inner[0] == "call" and inner[1].endswith("BitOr>::bitor"):
            parts = {deep_strip(x)[1].split("::")[-1] for x in inner[2] if isinstance(deep_strip(x), tuple) and deep_strip(x)[0] == "call"}
            if parts == {"all_knights", "all_bishops"}:
                return ("minor_any",)
    return None


def mentions_counts(e):
    """the expression tests the *number* of all men / knights / bishops (or looks at pawns, rooks, queens) in a form
    `classify` does not model; intersections with geometric masks (light squares, corners, edges) are free flags"""
    if find_calls(e, "Board::all_pawns", "Board::all_rooks", "Board::all_queens", "Board::pawns", "Board::rooks", "Board::queens"):
        return True
    for c in find_calls(e, "Bitboard::count"):
        inner = deep_strip(c[2][0])
        if isinstance(inner, tuple) and inner[0] == "call" and inner[1].split("::")[-1] in ("occupancy", "all_knights", "all_bishops"):
            return True
    return False


def holds(kind, model):
    count, nk, nb = model
    if kind[0] == "cmp":
        v = {"count": count, "nk": nk, "nb": nb}[kind[1]]
        c = kind[3]
        return {"Eq": v == c, "Ne": v != c, "Lt": v < c, "Le": v <= c, "Gt": v > c, "Ge": v >= c}[kind[2]]
    if kind[0] == "minor_any":
        return nk + nb >= 1
    return None


def rule_material(fx, rep):
    b = fx.one("Game::is_stalemate_by_insufficient_material")
    paths = decision_paths(b)
    ok = True
    n = 0
    undecidable = False
    table = {}
    for count in range(2, 7):
        for nk in range(0, count - 1):
            for nb in range(0, count - 1 - nk):
                model = (count, nk, nb)
                results = set()
                for conds, ret, bb in paths:
                    feasible = True
                    for (e, v) in conds:
                        k = classify(e)
                        if k is None:
                            if mentions_counts(e):
                                undecidable = True  # a condition on piece counts in a form this rule does not model
                            continue  # geometric flag: free
                        if k[0] == "count":
                            if isinstance(v, int):
                                feasible = feasible and (count == v)
                            else:
                                feasible = feasible and (count not in v[1])
                        else:
                            truth = (v != 0) if isinstance(v, int) else (0 in v[1])
                            h = holds(k, model)
                            feasible = feasible and (h == truth)
                        if not feasible:
                            break
                    if not feasible:
                        continue
                    if ret is None:
                        continue
                    r = deep_strip(ret)
                    if isinstance(r, tuple) and r[0] == "const" and r[1] in (0, 1):
                        results.add(bool(r[1]))
                    else:
                        k = classify(r)
                        if k is not None and k[0] != "count":
                            results.add(holds(k, model))
                        else:
                            if mentions_counts(r) and not find_calls(r, "Board::all_kings", "Board::occupancy_for"):
                                undecidable = True
                            results |= {True, False}  # depends on a free geometric flag
                table[model] = results
    if undecidable:
        rep.notes.append("C11-MATERIAL: the material predicate tests piece counts in a form the abstract model does not cover; clause not decided")
        rep.rule("C11-MATERIAL", 0, 0, True, "material predicate not in a modelled form: clause not decided")
        return
    rep.sample({"rule": "C11-MATERIAL", "paths": len(paths), "models": len(table),
                "examples": {str(m): sorted(map(str, r)) for m, r in list(table.items())[:8]}})
    for (count, nk, nb), res in sorted(table.items()):
        others = count - 2 - nk - nb
        want = None
        if count == 2:
            want = {True}
        elif count == 3 and nk + nb == 1:
            want = {True}
        elif others > 0 or nk + nb > 2:
            want = {False}
        if want is None:
            continue
        n += 1
        good = bool(res) and res <= want
        rep.obligation(good)
        if not good:
            ok = False
            rep.violation("C11-MATERIAL", f"C11-MATERIAL/men={count}/knights={nk}/bishops={nb}",
                          f"with {count} men ({nk} knight(s), {nb} bishop(s), {others} pawn/rook/queen) the material predicate can return {sorted(res)}; the rules require {sorted(want)}",
                          {"fn": b.name, "file": b.file, "line": b.line})
    rep.rule("C11-MATERIAL", n, 20, ok, f"material predicate evaluated abstractly over {len(table)} models")


# ---- C11-FIFTY -----------------------------------------------------------------------------


def rule_fifty(fx, rep):
    b = fx.one("Game::is_stalemate_by_fifty_move_rule")
    ok = True
    n = 0
    paths = [p for p in decision_paths(b) if p[1] is not None]
    # evaluate the clock comparisons of every path for concrete clock values (clock_path_taken is defined below)
    shape_ok = bool(paths)
    thr = None
    for clock in (0, 1, 50, 98, 99, 100, 101, 150, 1000):
        taken = [(conds, ret) for conds, ret, bb in paths if clock_path_taken(conds, clock)]
        if any(clock_path_taken(conds, clock) is None for conds, ret, bb in paths) or len(taken) != 1:
            shape_ok = False
            break
        r = deep_strip(taken[0][1])
        is_false = isinstance(r, tuple) and r[0] == "const" and r[1] == 0
        is_has_move = isinstance(r, tuple) and r[0] == "unop" and r[1] == "Not" and bool(find_calls(r, "is_empty"))
        if not (is_false or is_has_move):
            shape_ok = False
            break
        if is_has_move and thr is None:
            thr = clock
        if (clock >= 100) != is_has_move:
            shape_ok = False
            thr = thr if thr is not None else clock
    n += 1
    good = shape_ok
    rep.obligation(good)
    rep.sample({"rule": "C11-FIFTY", "paths": len(paths), "first_clock_with_legal_move_test": thr})
    if not good:
        ok = False
        rep.violation("C11-FIFTY", "C11-FIFTY/shape", f"the fifty-move predicate is not `halfmove_clock >= 100 && has a legal move` (evaluated for sample clocks; legal-move test first applies at clock {thr})", {"fn": b.name, "file": b.file, "line": b.line})
    n += 1
    gl = b.calls_to("gen::generate_legal_moves")
    good = len(gl) == 1
    if good:
        g = deep_strip(b.expr(gl[0][1]["args"][0], expand_named=True))
        good = g == ("arg", 1, "self")
        # the list tested for emptiness is the one just filled
        for bb2, t2 in b.calls():
            if norm(callee_name(t2) or "").endswith("is_empty"):
                l1 = deep_strip(b.expr(t2["args"][0], expand_named=False))
                l2 = deep_strip(b.expr(gl[0][1]["args"][1], expand_named=False))
                good = good and l1 == l2 and b.block_dominates(gl[0][0], bb2)
    rep.obligation(good)
    if not good:
        ok = False
        rep.violation("C11-FIFTY", "C11-FIFTY/legal-move", "'has a legal move' is not decided by the legal move generator on this position", {"fn": b.name, "file": b.file, "line": b.line})
    rep.rule("C11-FIFTY", n, 2, ok, "fifty-move predicate shape and threshold")


# ---- C11-REPKEY ----------------------------------------------------------------------------


def clock_path_taken(conds, clock, hist_len=None):
    """evaluate the clock comparisons of a path for a concrete clock value (and, where a condition also involves the length
    of the history, a concrete length); None if a condition is neither"""
    def val(x):
        x = deep_strip(x)
        if isinstance(x, tuple) and x[0] == "const" and isinstance(x[1], int):
            return x[1]
        if isinstance(x, tuple) and x[0] == "cast":
            return val(x[1])
        if isinstance(x, tuple) and x[0] == "call" and isinstance(x[1], str) and x[1].split("::")[-1] == "len" and len(x[2]) == 1 and \
                any(isinstance(y, tuple) and len(y) == 3 and y[0] == "field" and y[2] == "history" for y in walk(x[2][0])):
            return hist_len
        if isinstance(x, tuple) and any(isinstance(y, tuple) and len(y) == 3 and y[0] == "field" and y[2] == "halfmove_clock" for y in walk(x)) and \
                not any(isinstance(y, tuple) and y and y[0] in ("binop", "call") for y in walk(x)):
            return clock
        return None
    for (e, v) in conds:
        d = deep_strip(e)
        if isinstance(d, tuple) and d and d[0] == "discr" and isinstance(deep_strip(d[1]), tuple) and deep_strip(d[1])[0] == "call" and \
                str(deep_strip(d[1])[1]).endswith("checked_sub"):
            c = deep_strip(d[1])
            x, y = val(c[2][0]), val(c[2][1])
            if x is None or y is None:
                return None
            res = x >= y  # Some
            truth = (v == 1) if isinstance(v, int) else (1 not in v[1])
            if res != truth:
                return False
            continue
        co = cmp_op(e)
        if not co:
            return None
        x, y = val(co[1]), val(co[2])
        if x is None or y is None:
            return None
        res = {"Eq": x == y, "Ne": x != y, "Lt": x < y, "Le": x <= y, "Gt": x > y, "Ge": x >= y}[co[0]]
        truth = (v != 0) if isinstance(v, int) else (0 in v[1])
        if res != truth:
            return False
    return True


def rule_repkey(fx, rep):
    b = fx.one("Game::is_repeated_position")
    # "repeated exactly when an identical position occurred earlier since the last capture or pawn move": the verdict is a function
    # of the game (history, key, clock) alone. A further parameter that reaches the returned value - the distance from the search
    # root, say, to ask for a second occurrence when the first lies before the root - makes it depend on who is asking.
    extra = []
    for i in range(2, b.arg_count + 1):
        sl, _recs = b.slice_back([0])
        uses = i in sl
        if not uses:
            # control dependence: a branch on the parameter between entry and a return
            for x in sorted(b.live_blocks()):
                t = b.blocks[x]["term"]
                if t["k"] == "switch" and "pl" in t["discr"]:
                    sl2, _r2 = b.slice_back([t["discr"]["pl"]["l"]])
                    if i in sl2:
                        uses = True
                        break
        if uses:
            extra.append(b.local_name(i) or f"_{i}")
    if extra:
        rep.obligation(False)
        rep.violation("C11-REPKEY", "C11-REPKEY/parameter", f"`{b.name}` decides with the help of its parameter(s) {extra}: whether the current position is repeated then depends on more than the "
                      "positions on record (an identical earlier position can be denied, e.g. until it has occurred twice before the search root)", {"fn": b.name, "file": b.file, "line": b.line})
        rep.rule("C11-REPKEY", 1, 0, False, "the repetition verdict is a function of the game alone")
        return
    paths = [p for p in decision_paths(b) if p[1] is not None]
    scans = []
    recognised = bool(paths)
    early_ok = True
    early_witness = None
    for conds, ret, bb in paths:
        r = deep_strip(ret)
        if isinstance(r, tuple) and r[0] == "call" and (r[1].endswith("Iterator::any") or r[1].endswith("Iterator>::any")):
            scans.append((conds, r))
        elif isinstance(r, tuple) and r[0] == "const" and r[1] == 0:
            # an early `false`: sound only for clocks below 4 (no position can recur within three reversible plies)
            # (a repetition needs four reversible plies on record: clock >= 4 and at least 4 history entries; a game set up
            # from a FEN with a running clock has fewer entries than its clock says)
            grid = [(c, L) for c in range(0, 14) for L in range(0, 14)]
            res = {(c, L): clock_path_taken(conds, c, L) for (c, L) in grid}
            if any(r is None for r in res.values()):
                recognised = False
            elif any(r and c > 3 and L > 3 for (c, L), r in res.items()):
                early_ok = False
                early_witness = min((c, L) for (c, L), r in res.items() if r and c > 3 and L > 3)
        else:
            recognised = False
    if not recognised or not scans:
        rep.notes.append("C11-REPKEY: the repetition scan is not an iterator `any(..)` chain (plus clock-guarded early returns); clause not decided")
        rep.rule("C11-REPKEY", 0, 0, True, "repetition scan not in recognisable form: clause not decided")
        return
    ok = True
    n = 0

    def bad(key, msg):
        nonlocal ok
        ok = False
        rep.violation("C11-REPKEY", f"C11-REPKEY/{key}", msg, {"fn": b.name, "file": b.file, "line": b.line})

    n += 1
    rep.obligation(early_ok)
    if not early_ok:
        bad("early-return", f"the scan is skipped (returns false) although a repetition is possible, e.g. with halfmove clock {early_witness[0]} and {early_witness[1]} positions on record (a game set up from a FEN with a running clock has fewer history entries than its clock says)")
    for conds, ret in scans:
        src = ret[2][0]
        names = []
        e = deep_strip(src)
        take_n = None
        while isinstance(e, tuple) and e[0] == "call":
            names.append(e[1].split("::")[-1])
            if e[1].endswith("Iterator::take"):
                take_n = deep_strip(e[2][1])
            e = deep_strip(e[2][0])
        slice_start = None
        over_history = isinstance(e, tuple) and e[0] == "field" and e[2] == "history"
        if over_history and "index" in names:
            # `self.history[start..].iter().any(..)`: the window is given by the slice's start
            ix = next((x for x in walk(deep_strip(src)) if isinstance(x, tuple) and x and x[0] == "call" and str(x[1]).endswith("::index") and len(x[2]) == 2), None)
            rng = deep_strip(ix[2][1]) if ix else None
            if isinstance(rng, tuple) and rng and rng[0] == "agg" and str(rng[1]).endswith("RangeFrom::RangeFrom"):
                slice_start = deep_strip(rng[2][0])
            else:
                rep.notes.append("C11-REPKEY: the scan runs over a slice of the history whose bounds are not `start..`; clause not decided")
                rep.rule("C11-REPKEY", 0, 0, True, "repetition scan over an unrecognised slice: clause not decided")
                return
        if not over_history:
            rep.notes.append("C11-REPKEY: the scan does not iterate self.history; clause not decided")
            rep.rule("C11-REPKEY", 0, 0, True, "repetition scan not over self.history: clause not decided")
            return
        plumbing = {"iter", "deref", "into_iter", "as_slice"}
        adaptors = [x for x in names if x not in plumbing]
        if slice_start is not None:
            # any() over history[len - clock ..]: order is irrelevant; the start must be exactly len - clock (checked or saturating)
            n += 2
            st = slice_start
            if isinstance(st, tuple) and st[0] == "field" and isinstance(deep_strip(st[1]), tuple) and deep_strip(st[1])[0] == "as":
                st = deep_strip(deep_strip(st[1])[1])
            good = [x for x in adaptors if x != "index"] == [] and isinstance(st, tuple) and st[0] == "call" and str(st[1]).split("::")[-1] in ("checked_sub", "saturating_sub") and \
                clock_path_taken([(("binop", "Eq", st[2][0], ("const", 7)), 1)], 0, 7) is True and clock_path_taken([(("binop", "Eq", st[2][1], ("const", 5)), 1)], 5, 0) is True
            rep.obligation(good, 2)
            rep.sample({"rule": "C11-REPKEY", "scan": names, "slice_start": show(slice_start)[:120]})
            if not good:
                bad("window", f"the scan runs over `history[{show(slice_start)[:100]}..]`, which is not exactly the last halfmove_clock positions")
        else:
            n += 1
            good = adaptors == ["take", "rev"]
            rep.obligation(good)
            rep.sample({"rule": "C11-REPKEY", "scan": names, "window": show(take_n) if take_n else None})
            if not good:
                bad("order", f"the scan over the history is `{list(reversed(adaptors))}`; expected exactly newest-first (`rev`) limited by `take(halfmove_clock)` - any other window (take_while, skip, filter ..) can drop or add positions")
            n += 1
            good = take_n is not None and any(isinstance(x, tuple) and len(x) == 3 and x[0] == "field" and x[2] == "halfmove_clock" for x in walk(take_n)) and \
                not any(isinstance(x, tuple) and x and x[0] == "binop" for x in walk(take_n))
            rep.obligation(good)
            if not good:
                bad("window", f"the scan window is `{show(take_n) if take_n else None}`, not exactly the halfmove clock (positions before the last capture or pawn move cannot recur)")
        clos = [x for x in walk(ret[2][1]) if isinstance(x, tuple) and x and x[0] == "agg" and str(x[1]).startswith("closure:")]
        n += 1
        good = False
        if clos:
            cb = fx.bodies.get(clos[0][1][len("closure:"):])
            if cb is not None:
                r = deep_strip(cb.expr({"l": 0, "p": []}, expand_named=True))
                co = cmp_op(r)
                if co and co[0] == "Eq" and isinstance(r, tuple) and r[0] == "call" and "ZobristHash" in r[1]:
                    a, c = deep_strip(co[1]), deep_strip(co[2])
                    fa = [x for x in (a, c) if isinstance(x, tuple) and x[0] == "field" and x[2] == "zobrist"]
                    good = len(fa) == 2 and fa[0][1] != fa[1][1]
        rep.obligation(good)
        if not good:
            bad("key", "the scan does not compare the whole position key of the history entry with the whole current key")
    rep.rule("C11-REPKEY", n, 4, ok, "repetition scan: newest first, clock-bounded window, full key equality")


# ---- C11-CALLERS ---------------------------------------------------------------------------

PREDS = ("Game::is_repeated_position", "Game::is_stalemate_by_fifty_move_rule", "Game::is_stalemate_by_insufficient_material")


def wrappers_of(fx, pred):
    """names of small in-crate bool functions W with: pred(..) true  =>  W returns true (every path on which the call's
    result is taken as true returns the constant true)"""
    from facts import decision_paths
    out = []
    for (cb, bb, t) in fx.callers_of(lambda nm: nm.endswith(pred)):
        if cb.kind not in ("Fn", "AssocFn") or cb.local_ty(0) != "bool" or cb.n > 40 or "::tests::" in cb.name:
            continue
        implied = True
        seen_true = False
        for conds, ret, last in decision_paths(cb, 256):
            took_true = any(isinstance(deep_strip(e), tuple) and deep_strip(e)[0] == "call" and str(deep_strip(e)[1]).endswith(pred) and
                            ((isinstance(v, int) and v != 0) or (isinstance(v, tuple) and v[0] == "otherwise" and 0 in v[1])) for (e, v) in conds)
            r = deep_strip(ret) if ret is not None else None
            if isinstance(r, tuple) and r and r[0] == "call" and str(r[1]).endswith(pred):
                seen_true = True  # the wrapper returns the predicate's own verdict on this path
                continue
            if took_true:
                seen_true = True
                if ret is None or deep_strip(ret) not in (("const", 1), ("const", True)):
                    implied = False
        if implied and seen_true:
            out.append(norm(cb.name))
    return out


def rule_callers(fx, rep):
    ok = True
    n = 0
    for fn in ("search::negamax::negamax", "search::quiescence::quiescence"):
        b = fx.one(fn)
        draws = []
        for bb, j, s in b.stmts():
            rv = s.get("rv")
            if s["k"] == "assign" and s["lhs"]["l"] == 0 and rv and rv["k"] == "agg" and rv.get("variant") == "Ok":
                v = deep_strip(b.expr(rv["ops"][0], expand_named=True, at=bb))
                if isinstance(v, tuple) and v[0] == "constpath" and v[1].endswith("Eval::DRAW"):
                    draws.append(bb)
        for p in PREDS:
            n += 1
            calls = b.calls_to(p)
            if not calls:
                # the predicate may be consulted through a small boolean wrapper (`is_drawn_by_rule`) that is true whenever it is
                for w in wrappers_of(fx, p):
                    calls = calls or b.calls_to(w)
            good = len(calls) >= 1
            if good:
                cb, t = calls[0]
                # the true edge of the predicate reaches a `return Ok(DRAW)` without any move being made
                tgt = t.get("target")
                conds = switch_edge_conds(b, tgt) if tgt is not None and b.blocks[tgt]["term"]["k"] == "switch" else []
                true_t = [x[0] for x in conds if x[2] is True]
                good = False
                if true_t:
                    region = b.reachable(true_t[0], removed_blocks=[tgt])
                    mk = [x for x, _ in b.calls_to("Game::make_move")]
                    reach_draw = [d for d in draws if d in region]
                    # every path from the true edge returns the draw score: no path reaches make_move
                    good = bool(reach_draw) and not any(m in region for m in mk)
            rep.obligation(good)
            if not good:
                ok = False
                rep.violation("C11-CALLERS", f"C11-CALLERS/{fn.split('::')[-1]}/{p.split('::')[-1]}",
                              f"`{fn}` does not return the draw score when `{p.split('::')[-1]}` holds", {"fn": b.name, "file": b.file, "line": b.line})
    # the draw tests are unconditional apart from the root exemption and their own short-circuit: no test of the position's
    # state (clock, history length, ..) decides whether a predicate is consulted at all - e.g. `halfmove_clock > 0 && (..)` switches
    # the dead-material test off exactly after the capture that produced the dead material
    for fn in ("search::negamax::negamax", "search::quiescence::quiescence"):
        b = fx.one(fn)
        for p in PREDS:
            calls = b.calls_to(p)
            if not calls:
                for w in wrappers_of(fx, p):
                    calls = calls or b.calls_to(w)
            for cb, t in calls[:1]:
                n += 1
                offending = []
                for (e, pol, w) in guard_conditions(b, cb, expand_named=True):
                    if any(find_calls(e, q) for q in PREDS):
                        continue
                    flds = [x[2] for x in walk(e) if isinstance(x, tuple) and len(x) == 3 and x[0] == "field" and isinstance(x[2], str) and
                            x[2] in ("halfmove_clock", "history", "plies", "en_passant_target", "castle_rights", "board", "player") and
                            isinstance(deep_strip(x[1]), tuple) and deep_strip(x[1])[:2] == ("arg", 1)]
                    if flds:
                        offending.append((flds[0], show(e)[:60]))
                good = not offending
                rep.obligation(good)
                if not good:
                    ok = False
                    rep.violation("C11-CALLERS", f"C11-CALLERS/conditional/{fn.split('::')[-1]}/{p.split('::')[-1]}", f"`{fn}` consults `{p.split('::')[-1]}` only under a condition on the position's `{offending[0][0]}` (`{offending[0][1]}`): "
                                  "the draw rule is switched off for some positions", {"fn": b.name, "file": b.file, "line": t.get("line")})
                    continue
                # a condition on the search parameters (remaining depth, window ..) may also switch the tests off - harmless only if
                # every node it exempts is handed to another function that runs them before any move is made (quiescence at depth
                # 0). Decided path by path from the exempting edge: a move-making site must not be reachable without passing
                # such a hand-over, for any value of the remaining depth consistent with the path's own tests on it (seed
                # C11-6a: `depth > 0 &&` in front of the tests, with the check extension raising depth 0 to 1 afterwards)
                for (e, pol, w) in guard_conditions(b, cb, expand_named=True):
                    if any(find_calls(e, q) for q in PREDS):
                        continue
                    args_in = {x[1] for x in walk(e) if isinstance(x, tuple) and len(x) >= 2 and x[0] == "arg"}
                    if not args_in or is_root_exemption(b, e):
                        continue
                    n += 1
                    verdict = exempt_nodes_covered(fx, b, w, [q for q in PREDS])
                    if verdict is None:
                        rep.notes.append(f"C11-CALLERS: `{fn}` consults `{p.split('::')[-1]}` under `{show(e)[:60]}`; whether the exempted nodes are covered elsewhere could not be enumerated; not decided")
                        rep.obligation(True)
                        continue
                    rep.obligation(verdict[0])
                    if not verdict[0]:
                        ok = False
                        rep.violation("C11-CALLERS", f"C11-CALLERS/conditional/{fn.split('::')[-1]}/{p.split('::')[-1]}", f"`{fn}` consults `{p.split('::')[-1]}` only under `{show(e)[:60]}`, and a node exempted by it can go on to make moves without the test having been run anywhere ({verdict[1]})",
                                      {"fn": b.name, "file": b.file, "line": t.get("line")})
    # the draw tests come before the transposition-table probe: a table entry was stored along some other history and knows nothing
    # about repetitions (or the clock) along this one, so a probe that can cut off first answers a drawn node with a stale score
    for fn in ("search::negamax::negamax",):
        b = fx.one(fn)
        probes = [bb for bb, t in b.calls() if norm(callee_name(t) or "").endswith("TranspositionTable::get")]
        for p in PREDS:
            calls = b.calls_to(p)
            if not calls:
                for w in wrappers_of(fx, p):
                    calls = calls or b.calls_to(w)
            for pb in probes:
                n += 1
                good = not any(cb in b.reachable(pb) for cb, _ in calls)
                rep.obligation(good)
                if not good:
                    ok = False
                    rep.violation("C11-CALLERS", f"C11-CALLERS/after-probe/{p.split('::')[-1]}", f"`{fn}` consults `{p.split('::')[-1]}` only after probing the transposition table: a hash cut-off can answer a node that is drawn along the current game history",
                                  {"fn": b.name, "file": b.file, "line": calls[0][1].get("line") if calls else b.line})
    rep.rule("C11-CALLERS", n, 6, ok, "both search functions consult the three draw predicates")


def is_root_exemption(b, e):
    """`plies == 0` / `is_root`: the root position is exempt from the draw tests by design"""
    co = cmp_op(e)
    if not co:
        return False
    x, y = deep_strip(co[1]), deep_strip(co[2])
    for a, c in ((x, y), (y, x)):
        if isinstance(a, tuple) and a[0] == "arg" and "plies" in str(a[2:]) and c == ("const", 0):
            return True
    return False


_COVERING = {}


def exempt_nodes_covered(fx, b, where, preds):
    """(ok, detail) or None. Which values of the u8 `depth` parameter can flow from the exempting edge(s) of switch `where[0]`
    (the successors other than the guarded one) to a move-making site (make_move / make_null_move / a recursive search call)
    without first being handed to a function that consults all the predicates? Decided by a forward value-set analysis of
    `depth` (absint.run): reassignments (`depth += 1`) and every test on it (`depth > 0`, `depth == 0`) are interpreted."""
    import absint
    a, v = where
    t = b.blocks[a]["term"]
    succs = [tg for (val, tg) in t["targets"]] + [t["otherwise"]]
    taken = [tg for (val, tg) in t["targets"] if val == v] if v != "otherwise" else [t["otherwise"]]
    others = [x for x in succs if x not in taken and b.blocks[x]["term"]["k"] != "unreachable"]
    key = (id(fx), tuple(preds))
    if key not in _COVERING:
        cov = set()
        for name, cb2 in fx.bodies.items():
            if cb2.kind in ("Fn", "AssocFn") and norm(name).startswith("engine::search::") and \
                    all(cb2.calls_to(q) or any(cb2.calls_to(w2) for w2 in wrappers_of(fx, q)) for q in preds):
                cov.add(cb2.name)
        _COVERING[key] = cov
    covering = _COVERING[key] - {b.name}
    movers, handovers = set(), set()
    for bb, t2 in b.calls():
        cn = callee_name(t2)
        nb = fx.body(cn) if cn else None
        if norm(cn or "").endswith("Game::make_move") or norm(cn or "").endswith("Game::make_null_move") or (nb is not None and nb is b):
            movers.add(bb)
        elif nb is not None and nb.name in covering:
            handovers.add(bb)
    if not movers:
        return None
    # cheap exit: the exempting edge leads nowhere near a move (e.g. `return Err(())`)
    if not any(m in b.reachable(o, removed_blocks=list(handovers)) for o in others for m in movers):
        return (True, "")
    dparam = next((i for i in range(1, b.arg_count + 1) if b.local_name(i) == "depth"), None)
    if dparam is None or (b.local_ty(dparam) or "") != "u8":
        return None
    at_guard = absint.run(b, dparam, 0, absint.FULL, stop={a}).get(a)
    if not at_guard:
        return None
    res = absint.run(b, dparam, a, at_guard, stop=movers | handovers | set(taken))
    hit = sorted(m for m in movers if res.get(m))
    if hit:
        vals = sorted(res[hit[0]])
        return (False, f"e.g. with remaining depth {vals[0]} on entry to line {b.blocks[hit[0]]['term'].get('line')}")
    return (True, "")


def depth_only(e, dparam):
    syms = [x for x in walk(e) if isinstance(x, tuple) and x and x[0] in ("arg", "call", "field", "tmp", "var", "index")]
    return bool(syms) and all(x[0] == "arg" and x[1] == dparam for x in syms)


def _dval(e, dparam, d):
    e = deep_strip(e)
    if not isinstance(e, tuple) or not e:
        return None
    if e[0] == "arg":
        return d if e[1] == dparam else None
    if e[0] == "const":
        return int(e[1]) if isinstance(e[1], (int, bool)) else None
    if e[0] == "cast":
        return _dval(e[1], dparam, d)
    if e[0] == "field" and e[2] == "0":
        return _dval(e[1], dparam, d)
    if e[0] == "binop":
        x, y = _dval(e[2], dparam, d), _dval(e[3], dparam, d)
        if x is None or y is None:
            return None
        op = e[1].replace("WithOverflow", "")
        return {"Add": x + y, "Sub": x - y, "Mul": x * y, "Eq": int(x == y), "Ne": int(x != y), "Lt": int(x < y), "Le": int(x <= y), "Gt": int(x > y), "Ge": int(x >= y)}.get(op)
    return None


def cond_holds(c, val, dparam, d):
    x = _dval(c, dparam, d)
    if x is None:
        return True
    if isinstance(val, int):
        return x == val
    if isinstance(val, tuple) and val and val[0] == "otherwise":
        return x not in val[1]
    return True


G = "src/chess/game.rs"
MUTANTS = [
    {"name": "saved halfmove clock narrowed to u8 (seed C11-13a)", "expect": "C11-CLOCK/hist",
     "edits": __import__("shared_mutants").edits_from_patch("seeded/C11-13a/patch.diff")},
    {"name": "make_null_move zeroes the halfmove clock (seed C11-11a)", "expect": "C11-CLOCK/writer/make_null_move",
     "edits": __import__("shared_mutants").edits_from_patch("seeded/C11-11a/patch.diff")},
    {"name": "an occurrence before the search root counts only when it is the second one (seed C11-9a)", "expect": "C11-REPKEY/parameter",
     "edits": __import__("shared_mutants").edits_from_patch("seeded/C11-9a/patch.diff")},
    {"name": "draw tests skipped at depth 0, before the check extension (seed C11-6a)", "expect": "C11-CALLERS/conditional/negamax",
     "edits": [("src/engine/search/negamax.rs", "    if !is_root\n        && (game.is_repeated_position()", "    if !is_root\n        && depth > 0\n        && (game.is_repeated_position()")]},
    {"name": "benign: draw tests skipped at depth 0 after the check extension (those nodes go to quiescence)", "benign": True,
     "edits": [("src/engine/search/negamax.rs", "    if !is_root\n        && (game.is_repeated_position()\n            || game.is_stalemate_by_fifty_move_rule()\n            || game.is_stalemate_by_insufficient_material())\n    {\n        return Ok(Eval::DRAW);\n    }\n\n    // Check extension: If we're about to finish searching, but we are in check, we\n    // should keep going.\n    let in_check = game.is_king_in_check();\n    if in_check && depth < MAX_SEARCH_DEPTH {\n        depth += 1;\n    }\n",
                "    // Check extension: If we're about to finish searching, but we are in check, we\n    // should keep going.\n    let in_check = game.is_king_in_check();\n    if in_check && depth < MAX_SEARCH_DEPTH {\n        depth += 1;\n    }\n\n    if !is_root\n        && depth > 0\n        && (game.is_repeated_position()\n            || game.is_stalemate_by_fifty_move_rule()\n            || game.is_stalemate_by_insufficient_material())\n    {\n        return Ok(Eval::DRAW);\n    }\n")]},
    {"name": "castling word toggled while any right is left (seed C11-5b)", "expect": "C11-KEY/PAIR/try_remove_castle_rights",
     "edits": [("src/chess/game.rs", "        if !castle_rights.can_castle_to_side(castle_rights_side) {\n            return;\n        }\n", "        if !(castle_rights.king_side || castle_rights.queen_side) {\n            return;\n        }\n")]},
    {"name": "scan skipped when the clock exceeds the history length (seed C11-5a)", "expect": "C11-REPKEY/early-return",
     "edits": [("src/chess/game.rs", "        self.history\n            .iter()\n            .rev()\n            .take(self.halfmove_clock as usize)\n            .any(|h| h.zobrist == self.zobrist)",
                "        let Some(window_start) = self.history.len().checked_sub(self.halfmove_clock as usize) else {\n            return false;\n        };\n        self.history[window_start..].iter().any(|h| h.zobrist == self.zobrist)")]},
    {"name": "benign: scan over the tail slice history[len.saturating_sub(clock)..]", "benign": True,
     "edits": [("src/chess/game.rs", "        self.history\n            .iter()\n            .rev()\n            .take(self.halfmove_clock as usize)\n            .any(|h| h.zobrist == self.zobrist)",
                "        let window_start = self.history.len().saturating_sub(self.halfmove_clock as usize);\n        self.history[window_start..].iter().any(|h| h.zobrist == self.zobrist)")]},
    {"name": "tail slice one entry short", "expect": "C11-REPKEY/window",
     "edits": [("src/chess/game.rs", "        self.history\n            .iter()\n            .rev()\n            .take(self.halfmove_clock as usize)\n            .any(|h| h.zobrist == self.zobrist)",
                "        let window_start = (self.history.len() + 1).saturating_sub(self.halfmove_clock as usize);\n        self.history[window_start.min(self.history.len())..].iter().any(|h| h.zobrist == self.zobrist)")]},
    {"name": "copies of the game start with an empty history (seed C17-4b)", "expect": "C11-HISTORY/clone/history",
     "edits": [(G, "#[derive(Debug, Clone)]\npub struct Game {", "#[derive(Debug)]\npub struct Game {"),
               (G, "impl Game {\n", "impl Clone for Game {\n    fn clone(&self) -> Self {\n        Self {\n            player: self.player,\n            board: self.board.clone(),\n            castle_rights: self.castle_rights.clone(),\n            en_passant_target: self.en_passant_target,\n            halfmove_clock: self.halfmove_clock,\n            plies: self.plies,\n            zobrist: self.zobrist.clone(),\n            incremental_eval: self.incremental_eval.clone(),\n            history: Vec::new(),\n        }\n    }\n}\n\nimpl Game {\n")]},
    {"name": "draw tests moved below the hash probe (seed C11-4a)", "expect": "C11-CALLERS/after-probe",
     "edits": [("src/engine/search/negamax.rs", "    if !is_root\n        && (game.is_repeated_position()\n            || game.is_stalemate_by_fifty_move_rule()\n            || game.is_stalemate_by_insufficient_material())\n    {\n        return Ok(Eval::DRAW);\n    }\n", ""),
               ("src/engine/search/negamax.rs", "    let tb_cardinality = ctx.tablebase.n_men();", "    if !is_root\n        && (game.is_repeated_position()\n            || game.is_stalemate_by_fifty_move_rule()\n            || game.is_stalemate_by_insufficient_material())\n    {\n        return Ok(Eval::DRAW);\n    }\n\n    let tb_cardinality = ctx.tablebase.n_men();")]},
    {"name": "quiescence skips the draw tests when the clock is zero (seed C11-4b)", "expect": "C11-CALLERS/conditional/quiescence",
     "edits": [("src/engine/search/quiescence.rs", "    if game.is_repeated_position()\n        || game.is_stalemate_by_fifty_move_rule()\n        || game.is_stalemate_by_insufficient_material()\n    {", "    if game.halfmove_clock > 0\n        && (game.is_repeated_position()\n            || game.is_stalemate_by_fifty_move_rule()\n            || game.is_stalemate_by_insufficient_material())\n    {")]},
    {"name": "promotion no longer resets the halfmove clock (seed C11-3)", "expect": "C11-CLOCK",
     "edits": [(G, "            maybe_captured_piece.is_some() || moved_piece.kind == PieceKind::Pawn;", "            maybe_captured_piece.is_some() || (moved_piece.kind == PieceKind::Pawn && mv.promotion().is_none());")]},
    {"name": "king and two minors versus king with a pawn counted as dead", "expect": "C11-MATERIAL",
     "edits": [(G, "            3 => (self.board.all_knights() | self.board.all_bishops()).any(),", "            3 => true,")]},
    {"name": "five men with three knights declared dead", "expect": "C11-MATERIAL",
     "edits": [(G, "            _ => false,\n        }\n    }\n\n    #[inline(always)]\n    pub fn is_king_in_check", "            5 => self.board.all_knights().count() == 3,\n            _ => false,\n        }\n    }\n\n    #[inline(always)]\n    pub fn is_king_in_check")]},
    {"name": "fifty-move rule applied one ply early", "expect": "C11-FIFTY",
     "edits": [(G, "        if self.halfmove_clock >= 100 {", "        if self.halfmove_clock >= 99 {")]},
    {"name": "fifty-move draw even when mated", "expect": "C11-FIFTY",
     "edits": [(G, "            return !movelist.is_empty();", "            return true;")]},
    {"name": "repetition compares half of the key", "expect": "C11-REPKEY/key",
     "edits": [(G, "            .any(|h| h.zobrist == self.zobrist)", "            .any(|h| h.zobrist.0 as u32 == self.zobrist.0 as u32)")]},
    {"name": "repetition window ignores the clock", "expect": "C11-REPKEY/window",
     "edits": [(G, "            .take(self.halfmove_clock as usize)", "            .take(self.halfmove_clock as usize + 1)")]},
    {"name": "window ends at the first entry stored with clock 0 (seed C11-1)", "expect": "C11-REPKEY",
     "edits": [(G, "        self.history\n            .iter()\n            .rev()\n            .take(self.halfmove_clock as usize)", "        if self.halfmove_clock < 4 {\n            return false;\n        }\n\n        self.history\n            .iter()\n            .rev()\n            .take_while(|h| h.halfmove_clock > 0)")]},
    {"name": "benign: early return for clocks below four", "benign": True,
     "edits": [(G, "    pub fn is_repeated_position(&self) -> bool {\n        self.history", "    pub fn is_repeated_position(&self) -> bool {\n        if self.halfmove_clock < 4 {\n            return false;\n        }\n\n        self.history")]},
    {"name": "quiescence forgets the repetition test", "expect": "C11-CALLERS",
     "edits": [("src/engine/search/quiescence.rs", "    if game.is_repeated_position()\n        || game.is_stalemate_by_fifty_move_rule()", "    if game.is_stalemate_by_fifty_move_rule()")]},
    {"name": "benign: material rule via early returns", "benign": True,
     "edits": [(G, "            // King vs king is always a draw\n            2 => true,", "            // King vs king is always a draw\n            0..=2 => true,")]},
]
