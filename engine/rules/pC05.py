"""C05 — no command history can hang the engine: structural clauses C05-TS (latch/handle typestate),
C05-SET, C05-LOCK, C05-NOBLOCK (DESIGN.md §3)."""
from collections import deque

import shared_mutants

from facts import (norm, show, walk, strip_refs, deep_strip, is_call_to, callee_name, find_calls,
                   guard_conditions, option_guard, switch_edge_conds, decision_paths, cmp_op)

EXPLANATION = (
    "Decides deadlock-freedom clauses of command handling, assuming the search itself terminates once its limit is "
    "reached or the stop flag is raised (C04/C09): (TS) an abstract model (stop handle present?, latch set?, search "
    "in flight?) is extracted from the MIR of every UciCommand arm (assignments to the handle, latch reset/set/wait, "
    "thread spawn/join) and explored exhaustively over all command histories allowed by the property's quantifier; no "
    "reachable state executes a latch wait with the latch unset and no search in flight; (SET) the search thread sets "
    "the latch on every non-panicking path, after printing exactly one bestmove; (LOCK) the lock-order graph over the "
    "persistent-state mutex and the latch mutex across both threads is acyclic and no guard is held across a wait; "
    "(NOBLOCK) the isready / quit / position / debug / ponderhit arms reach no blocking primitive and setoption only "
    "try_lock; (STOPFLAG) the stop flag is only raised, raised whenever a handle is installed, and the poll answers false "
    "only after reading it as clear (or on the node-count throttle); (LIMIT) only the payload-free time control is "
    "searched without a time limit - a limit value is never used as the no-limit marker unless no finite limit can "
    "compute to it; (PANIC) no undischarged panic site in the cone of the search thread (a panic there leaves the latch "
    "unset). Not decided: that the search reaches its next poll in bounded time (search termination)."
)

UCI = "engine::uci::Uci"
BLOCKING = ("Mutex::lock", "Condvar::wait", "JoinHandle::join", "LockLatch::wait", "Receiver::recv", "Barrier::wait", "thread::park", "RwLock::write", "RwLock::read")


def run(fx, rep, tier):
    ex = fx.one("uci::Uci::execute")
    arms = arm_regions(fx, ex)
    rep.analysed["arms"] = sorted(arms)
    rule_ts(fx, rep, ex, arms)
    rule_set(fx, rep, ex)
    rule_lock(fx, rep, ex)
    rule_noblock(fx, rep, ex, arms)
    rule_held(fx, rep, ex)
    rule_stopflag(fx, rep, ex, arms)
    rule_limit(fx, rep)
    rule_panic(fx, rep, ex)
    rule_panic_root(fx, rep)
    rule_latch(fx, rep)
    rule_goargs(fx, rep)


# ---- C05-GOARGS ----------------------------------------------------------------------------


def rule_goargs(fx, rep):
    """A `go` line that does not parse is reported as an unknown command and never answered with a bestmove. GUIs do send
    negative clock values (a side that has overstepped its time), so the time arguments of `go` must be read with a parser
    that accepts a sign (and clamped afterwards, which C14 checks); an unsigned number parser turns such a line into an
    unanswered command (seed C05-7b)."""
    cgs = fx.find("parser::cmd_go")
    if len(cgs) != 1:
        rep.rule("C05-GOARGS", 0, 0, True, "go parser not found: not decided")
        return
    cg = cgs[0]
    ok = True
    n = 0
    for bb, t in cg.calls():
        if not norm(callee_name(t) or "").endswith("parser::command_with_argument") or len(t["args"]) < 2:
            continue
        tok = next((const_str_of(a) for a in t["args"] if a.get("k") == "const" and const_str_of(a)), None)
        if tok not in ("wtime", "btime"):
            continue
        pf = t["args"][1].get("fn") if t["args"][1].get("k") == "const" else None
        if not pf or "nom::character::complete::" not in pf:
            rep.notes.append(f"C05-GOARGS: the `{tok}` argument is read by `{pf}`, not by one of nom's number parsers; not decided")
            continue
        n += 1
        good = pf.split("::")[-1] in ("i8", "i16", "i32", "i64", "i128")
        rep.obligation(good)
        if not good:
            ok = False
            rep.violation("C05-GOARGS", f"C05-GOARGS/{tok}", f"`go {tok} <n>` is read with `{pf}`, which rejects a negative number: a `go` carrying a negative clock value (sent by GUIs once a side has overstepped its time) is then an unknown command and is never answered with a bestmove",
                          {"fn": cg.name, "file": cg.file, "line": t.get("line")})
    rep.rule("C05-GOARGS", n, 0, ok, "time arguments of go accept a sign")


def const_str_of(o):
    from facts import const_str
    return const_str(o)


# ---- C05-LATCH -----------------------------------------------------------------------------


def _self_field_name(e):
    d = deep_strip(e)
    while isinstance(d, tuple) and d and d[0] in ("ref", "deref"):
        d = deep_strip(d[1])
    if isinstance(d, tuple) and d and d[0] == "field" and deep_strip(d[1])[:2] == ("arg", 1):
        return d[2]
    return None


def rule_latch(fx, rep):
    """The completion latch is a monitor: `wait()` tests the state and goes to sleep on the condition variable atomically only
    with respect to threads that hold the *same mutex*. A method that changes the state and notifies without taking that mutex
    can run between the waiter's test and its enqueue - the notification is lost and `stop` sleeps forever (seed C05-7a: the
    flag kept in an AtomicBool, set() = store + notify_all without the lock). Every LockLatch method that notifies the
    condition variable must have locked the mutex the waiter waits with, on every path to the notify."""
    bodies = [b for b in fx.fn_bodies() if norm(b.name).startswith("engine::util::sync::LockLatch::") and b.kind == "AssocFn"]
    waits = [(b, bb, t) for b in bodies for bb, t in b.calls() if norm(callee_name(t) or "").endswith("Condvar::wait") or norm(callee_name(t) or "").endswith("Condvar::wait_while")]
    if not waits:
        rep.notes.append("C05-LATCH: LockLatch does not wait on a condition variable in a recognisable form; clause not decided")
        rep.rule("C05-LATCH", 0, 0, True, "not decided")
        return
    wb, wbb, wt = waits[0]
    cv = _self_field_name(wb.expr(wt["args"][0], expand_named=True, at=wbb))
    locks = find_calls(wb.expr(wt["args"][1], expand_named=True, at=wbb), "Mutex::lock")
    if not locks:
        locks = [("call", "Mutex::lock", (wb.expr(t["args"][0], expand_named=True, at=bb),)) for bb, t in wb.calls() if norm(callee_name(t) or "").endswith("Mutex::lock")]
    mx = _self_field_name(locks[0][2][0]) if locks else None
    ok = True
    n = 0
    if cv is None or mx is None:
        rep.notes.append("C05-LATCH: the mutex / condition variable pair of LockLatch::wait could not be identified; clause not decided")
        rep.rule("C05-LATCH", 0, 0, True, "not decided")
        return
    for b in bodies:
        for bb, t in b.calls():
            cn = norm(callee_name(t) or "")
            if not (cn.endswith("Condvar::notify_all") or cn.endswith("Condvar::notify_one")) or _self_field_name(b.expr(t["args"][0], expand_named=True, at=bb)) != cv:
                continue
            n += 1
            lk = [lb for lb, lt in b.calls() if norm(callee_name(lt) or "").endswith("Mutex::lock") and _self_field_name(b.expr(lt["args"][0], expand_named=True, at=lb)) == mx]
            good = any(b.block_dominates(lb, bb) and lb != bb for lb in lk)
            rep.obligation(good)
            rep.sample({"rule": "C05-LATCH", "method": norm(b.name).split("::")[-1], "locks_waiters_mutex_before_notify": good})
            if not good:
                ok = False
                rep.violation("C05-LATCH", f"C05-LATCH/{norm(b.name).split('::')[-1]}", f"`{b.name}` notifies `{cv}` without having locked `{mx}`, the mutex `wait()` sleeps with: a change made between the waiter's test and its enqueue is not seen and its notification is lost, so the waiter (the `stop` handler) sleeps forever",
                              {"fn": b.name, "file": b.file, "line": t.get("line")})
    # polarity: `wait()` returns when the flag has the value `set()` stores, and only then. Loop form: the return is reached on the
    # flag-is-set edge of the test on the guarded flag; `wait_while` form: the predicate (sleep while ..) is the negated flag.
    setter = [b for b in bodies if norm(b.name).endswith("LockLatch::set")]
    vset = None
    if len(setter) == 1:
        for bb, j, st in setter[0].stmts():
            if st["k"] == "assign" and st["lhs"].get("p") == ["*"] and st["rv"]["k"] == "use" and st["rv"]["op"].get("k") == "const" and st["rv"]["op"].get("ty") == "bool":
                vset = bool(st["rv"]["op"].get("int"))
    if vset is None or not norm(wb.name).endswith("LockLatch::wait"):
        rep.notes.append("C05-LATCH: the value `set()` stores / the waiting method was not identified; polarity clause not decided")
    else:
        verdict = None
        if norm(callee_name(wt) or "").endswith("Condvar::wait_while") and len(wt["args"]) == 3:
            ce = deep_strip(wb.expr(wt["args"][2], expand_named=True, at=wbb))
            cb = fx.body(str(ce[1])[len("closure:"):]) if isinstance(ce, tuple) and ce and ce[0] == "agg" and str(ce[1]).startswith("closure:") else None
            if cb is not None:
                rets = [deep_strip(r) for (_c, r, _l) in decision_paths(cb, 8) if r is not None]
                if len(rets) == 1:
                    r = rets[0]
                    neg = isinstance(r, tuple) and r and r[0] == "unop" and r[1] == "Not"
                    inner = deep_strip(r[2]) if neg else r
                    if isinstance(inner, tuple) and inner and inner[0] == "arg" and inner[1] == 2:
                        # sleeps while the predicate is true: must be true exactly while the flag is NOT the set value
                        sleeps_while_flag = not neg
                        verdict = (sleeps_while_flag != vset, f"`wait_while` sleeps while the flag is {'set' if sleeps_while_flag == vset else 'clear'}")
        else:
            for rb in wb.return_blocks():
                for (e, pol, w) in guard_conditions(wb, rb, expand_named=True):
                    if "Deref>::deref" in show(e) and pol is not None and "MutexGuard" in "".join(wb.local_ty(l) for l in range(len(wb.locals)) if (wb.local_name(l) or "") and (wb.local_name(l) or "") in show(e)):
                        verdict = (bool(pol) == vset, f"`wait()` returns on the flag-{'true' if pol else 'false'} edge of its test")
        if verdict is None:
            rep.notes.append("C05-LATCH: the waiter's test on the flag is not in a recognised form; polarity clause not decided")
        else:
            n += 1
            rep.obligation(verdict[0])
            rep.sample({"rule": "C05-LATCH", "set_stores": vset, "waiter": verdict[1]})
            if not verdict[0]:
                ok = False
                rep.violation("C05-LATCH", "C05-LATCH/polarity", f"`set()` stores {str(vset).lower()} but {verdict[1]}: a stop issued after a search has completed (latch set) sleeps forever, and one issued while it is "
                              "unset returns at once without waiting for the search", {"fn": wb.name, "file": wb.file, "line": wt.get("line")})
    rep.rule("C05-LATCH", n, 1, ok, "latch methods notify only while holding the waiter's mutex; the waiter returns exactly when the flag is set")


# ---- C05-PANIC -----------------------------------------------------------------------------


def rule_panic_root(fx, rep):
    """C05-PANIC/root. One site of the search thread's cone is discharged by a belief rather than by arithmetic: the line of a
    completed iteration is non-empty, so `pv.first().unwrap()` cannot fail. The belief rests on the root node never returning
    before it has searched a move (C08-ROOTRET / C04-ROOT), re-reported here: a draw test that no longer exempts the root makes
    that unwrap panic on the search thread while it holds the state mutex - no bestmove, the latch never set, `stop` waits forever."""
    import core
    import pC08
    sub = type(rep)(rep.prop, rep.tier)
    q = core.QUIET
    core.QUIET = True
    try:
        pC08.rule_rootret(fx, sub, fx.one("search::negamax::negamax"))
    finally:
        core.QUIET = q
    for v in sub.violations:
        rep.violation("C05-PANIC", v["key"].replace("C08-ROOTRET", "C05-PANIC/root"), v["msg"] + " - the search thread then panics on the empty line while holding the state mutex: the go is never answered and stop / ucinewgame block", v["site"])
    rep.obligations += sub.obligations
    rep.discharged += sub.discharged
    r = sub.rules[-1]
    rep.rule("C05-PANIC/root", r["instances"], r["floor"], r["status"] == "ok", "the root node never returns before searching a move (shared with C08-ROOTRET)")


def rule_panic(fx, rep, ex):
    """The latch is set at the end of the search thread (C05-SET, on every *non-panicking* path). A panic anywhere in the code
    that thread runs kills it before `bestmove` is printed and before the latch is set - and poisons the state mutex it
    holds - so the next stop / go / ucinewgame waits forever. The panic sites in the call-graph cone of the spawned closure are
    therefore discharged here exactly as in C04-CONE (same interval arguments and class table); the two mutex-lock unwraps
    that only exist in this cone panic only on a poisoned lock, i.e. after an earlier panic."""
    import pC04
    import core
    roots = [c.name for (_bb, _t, c) in spawned_closures(fx, ex) if c is not None]
    if not roots:
        rep.rule("C05-PANIC", 0, 0, True, "no spawned search closure found (C05-TS reports that): not decided")
        return

    def c_lock_poison(site, fx):
        return site.family == "unwrap" and bool(site.ops) and bool(find_calls(site.ops[0], "Mutex::lock")) and \
            (site.body.name in roots or norm(site.body.name).startswith("engine::util::sync::LockLatch::"))

    extra = [("lock-poison", c_lock_poison, "Mutex::lock().unwrap() fails only on a lock poisoned by an earlier panic", "belief")]
    sub = type(rep)(rep.prop, rep.tier)
    q = core.QUIET
    core.QUIET = True
    try:
        pC04.run_cone(fx, sub, "C05-PANIC", roots, pC04.exempt_roots(fx), 200, extra_classes=extra)
    finally:
        core.QUIET = q
    for v in sub.violations:
        rep.violation("C05-PANIC", v["key"], v["msg"] + " - in the search thread: the latch is then never set and the state mutex is poisoned, so `stop` (and every later `go`) blocks forever", v["site"])
    rep.obligations += sub.obligations
    rep.discharged += sub.discharged
    rep.analysed["C05-PANIC_cone_bodies"] = sub.analysed.get("C05-PANIC_cone_bodies")
    rep.rule("C05-PANIC", sub.obligations, 200, not sub.violations, "panic sites in the search thread's cone (shared with C04-CONE)")


# ---- C05-LIMIT -----------------------------------------------------------------------------


LIMIT_FNS = (("TimeStrategy::should_stop", 0), ("TimeStrategy::should_start_new_search", 1))


def _mentions_other_param(e):
    return any(isinstance(x, tuple) and len(x) >= 2 and x[0] == "arg" and x[1] != 1 for x in walk(e))


def _is_force_cond(e):
    return bool(find_calls(e, "is_force_stopped", "atomic::Atomic", "AtomicBool::load"))


def _self_field(e):
    """name of the TimeStrategy field `e` reads (through refs / derefs), or None"""
    d = deep_strip(e)
    while isinstance(d, tuple) and d and d[0] in ("ref", "deref"):
        d = deep_strip(d[1])
    if isinstance(d, tuple) and d and d[0] == "field" and isinstance(deep_strip(d[1]), tuple) and deep_strip(d[1])[:2] == ("arg", 1):
        return d[2]
    return None


def _selected(variants, val):
    if isinstance(val, tuple) and val and val[0] == "otherwise":
        return {n for d, n in variants.items() if d not in val[1]}
    return {variants.get(val)}


UNEXPLAINED = []


def limit_verdicts(fx):
    """Which searches are told "no time limit"? Every path of should_stop that answers `false` (and of
    should_start_new_search that answers `true`) without consulting the clock, once the poll throttle / depth-1 /
    stop-flag tests are set aside, must be selected by the *kind* of limit - the payload-free variant of TimeControl, or an
    Option-typed limit that TimeStrategy::new leaves None for exactly that variant. A limit *value* used as the "no limit"
    marker (`hard_stop.is_zero()`) is only sound if no finite limit can compute to it.
    Returns (findings [(fn, key, msg)], instances, notes)."""
    findings, notes, n = [], [], 0
    del UNEXPLAINED[:]
    try:
        tc = fx.adt("search::TimeControl")
    except Exception:
        return findings, 0, ["TimeControl type not found; limit clause not decided"]
    variants = {v["discr"]: v["name"] for v in tc["variants"]}
    finite = {v["name"] for v in tc["variants"] if v["fields"]}
    for fn, keep in LIMIT_FNS:
        b = fx.one(fn)
        paths = decision_paths(b, max_paths=400)
        if not paths:
            notes.append(f"`{fn}`: paths not enumerable; limit clause not decided")
            continue
        for conds, ret, _bb in paths:
            if ret is None:
                continue
            r = deep_strip(ret)
            if not (isinstance(r, tuple) and r and r[0] == "const" and r[1] in (keep, bool(keep))):
                continue
            rest = [(c, v) for (c, v) in conds if not _mentions_other_param(c)]
            if not rest:
                continue  # the poll throttle / "depth 1 is always searched"
            rest = [(c, v) for (c, v) in rest if not _is_force_cond(c)]
            n += 1
            verdict = None
            sentinels = []
            for c, v in rest:
                d = deep_strip(c)
                if isinstance(d, tuple) and d and d[0] == "discr":
                    f = _self_field(d[1])
                    if f == "time_control" or f is None:
                        sel = _selected(variants, v)
                        if None not in sel and not (sel & finite):
                            verdict = "variant"
                        continue
                    # an Option-typed limit field: value 0 = None
                    if v == 0 or (isinstance(v, tuple) and v[0] == "otherwise" and 1 in v[1]):
                        sentinels.append((f, "none"))
                    continue
                if isinstance(d, tuple) and d and d[0] == "call" and isinstance(d[1], str):
                    truth = not (v == 0)
                    if d[1].endswith("Duration::is_zero") and truth and _self_field(d[2][0]):
                        sentinels.append((_self_field(d[2][0]), "zero"))
                        continue
                    if d[1].endswith("Option::is_none") and truth and _self_field(d[2][0]):
                        sentinels.append((_self_field(d[2][0]), "none"))
                        continue
                    if d[1].endswith("Option::is_some") and not truth and _self_field(d[2][0]):
                        sentinels.append((_self_field(d[2][0]), "none"))
                        continue
                    co = cmp_op(d)
                    if co and co[0] in ("Eq", "Ne") and (co[0] == "Eq") == truth:
                        for x, y in ((co[1], co[2]), (co[2], co[1])):
                            if _self_field(x) and "ZERO" in show(y) or (_self_field(x) and deep_strip(y) == ("const", 0)):
                                sentinels.append((_self_field(x), "zero"))
            if verdict == "variant":
                continue
            if not sentinels:
                if not rest:
                    findings.append((fn, f"{fn}/unconditional", f"`{fn}` answers `{bool(keep)}` for every kind of limit once the stop flag is clear: no time limit is ever enforced there"))
                else:
                    notes.append(f"`{fn}`: a path answering `{bool(keep)}` is selected by `{show(rest[0][0])[:80]}`, which is neither the limit kind nor a recognised marker; not decided")
                    UNEXPLAINED.append((fn, show(rest[0][0])[:80], bool(keep)))
                continue
            for f, kind in sentinels:
                res, why = sentinel_sound(fx, f, kind, variants, finite)
                if res is False:
                    findings.append((fn, f"{fn}/marker/{f}", f"`{fn}` treats `{f}` being {'zero' if kind == 'zero' else 'None'} as \"no time limit\", but {why}: such a `go` is searched as if it were `go infinite` and is never answered on its own"))
                elif res is None:
                    notes.append(f"`{fn}`: marker `{f}` ({kind}): {why}; not decided")
    return findings, n, notes


def limit_field_by_variant(fx, field):
    """[(selected TimeControl variant names, value stored in TimeStrategy.<field>)] over the paths of TimeStrategy::new;
    None if that cannot be enumerated."""
    tc = fx.adt("search::TimeControl")
    variants = {v["discr"]: v["name"] for v in tc["variants"]}
    new = fx.one("TimeStrategy::new")
    ts = fx.adt("time_control::TimeStrategy")
    names = [f["name"] for f in ts["variants"][0]["fields"]]
    if field not in names:
        return None
    idx = names.index(field)
    out = []
    for conds, ret, _bb in decision_paths(new, max_paths=400) or []:
        if ret is None:
            continue
        sel = None
        for c, v in conds:
            d = deep_strip(c)
            if isinstance(d, tuple) and d and d[0] == "discr":
                x = deep_strip(d[1])
                while isinstance(x, tuple) and x and x[0] in ("ref", "deref"):
                    x = deep_strip(x[1])
                if isinstance(x, tuple) and x and x[0] == "arg" and "time_control" in str(x[2:]):
                    sel = _selected(variants, v)
        agg = next((x for x in walk(ret) if isinstance(x, tuple) and x and x[0] == "agg" and str(x[1]).endswith("TimeStrategy::TimeStrategy")), None)
        if sel is None or agg is None or idx >= len(agg[2]):
            return None
        out.append((sel, deep_strip(agg[2][idx])))
    return out or None


def none_without_limit(fx, field):
    """TimeStrategy::new leaves the Option-typed `field` None for every payload-free TimeControl variant."""
    tc = fx.adt("search::TimeControl")
    free = {v["name"] for v in tc["variants"] if not v["fields"]}
    vals = limit_field_by_variant(fx, field)
    if not vals:
        return False
    seen = False
    for sel, val in vals:
        if sel & free:
            seen = True
            if not (isinstance(val, tuple) and val and val[0] == "agg" and str(val[1]).endswith("Option::None")):
                return False
    return seen


def sentinel_sound(fx, field, kind, variants, finite):
    """In TimeStrategy::new, can a finite TimeControl variant produce the marker value in `field`?
    True = no (sound), False = yes, None = unknown."""
    new = fx.one("TimeStrategy::new")
    ts = fx.adt("time_control::TimeStrategy")
    names = [f["name"] for f in ts["variants"][0]["fields"]]
    if field not in names:
        return None, f"`{field}` is not a field of TimeStrategy"
    idx = names.index(field)
    paths = decision_paths(new, max_paths=400)
    if not paths:
        return None, "TimeStrategy::new not enumerable"
    seen_finite = False
    for conds, ret, _bb in paths:
        if ret is None:
            continue
        sel = None
        for c, v in conds:
            d = deep_strip(c)
            if isinstance(d, tuple) and d and d[0] == "discr":
                x = deep_strip(d[1])
                while isinstance(x, tuple) and x and x[0] in ("ref", "deref"):
                    x = deep_strip(x[1])
                if isinstance(x, tuple) and x and x[0] == "arg" and "time_control" in str(x[2:]):
                    sel = _selected(variants, v)
        if sel is None or not (sel & finite):
            continue
        seen_finite = True
        agg = next((x for x in walk(ret) if isinstance(x, tuple) and x and x[0] == "agg" and str(x[1]).endswith("TimeStrategy::TimeStrategy")), None)
        if agg is None or idx >= len(agg[2]):
            return None, "constructed TimeStrategy not found on a finite-limit path"
        val = deep_strip(agg[2][idx])
        if kind == "none":
            if isinstance(val, tuple) and val and val[0] == "agg" and str(val[1]).endswith("Option::Some"):
                continue
            if isinstance(val, tuple) and val and val[0] == "agg" and str(val[1]).endswith("Option::None"):
                return False, f"TimeStrategy::new leaves it None for {sorted(sel & finite)}"
            return None, f"value `{show(val)[:80]}` for {sorted(sel & finite)} is not a literal Some/None"
        # kind == zero: only a positive lower clamp makes a computed duration provably non-zero
        top = val
        if isinstance(top, tuple) and top and top[0] == "call" and isinstance(top[1], str) and top[1].split("::")[-1] == "max" and \
                any(find_calls(a, "Duration::from_millis", "Duration::from_secs", "Duration::from_micros") and not any(isinstance(x, tuple) and x and x[0] in ("arg", "field") for x in walk(a)) and
                    any(isinstance(x, tuple) and x and x[0] == "const" and isinstance(x[1], int) and x[1] > 0 for x in walk(a)) for a in top[2]):
            continue
        return False, f"for {sorted(sel & finite)} TimeStrategy::new stores `{show(val)[:90]}` there, which is zero for a zero input (movetime 0, wtime 0 with no overhead)"
    if not seen_finite:
        return None, "no finite-limit path found in TimeStrategy::new"
    return True, ""


def rule_limit(fx, rep):
    """'each go is answered ... when its limit is reached': the only searches told that there is no limit are those whose
    TimeControl is the payload-free variant (see limit_verdicts). Owner of the comparison details: C14-USE."""
    findings, n, notes = limit_verdicts(fx)
    for x in notes:
        rep.notes.append("C05-LIMIT: " + x)
    for fn, key, msg in findings:
        b = fx.one(fn)
        rep.violation("C05-LIMIT", "C05-LIMIT/" + key, msg, {"fn": b.name, "file": b.file, "line": b.line})
    rep.obligation(not findings, max(1, n))
    rep.sample({"rule": "C05-LIMIT", "no_limit_paths_examined": n})
    if n == 0 and not findings:
        rep.notes.append("C05-LIMIT: no path of should_stop / should_start_new_search answers without consulting the clock; nothing to decide")
    rep.rule("C05-LIMIT", n, 0, not findings, "only the payload-free time control is searched without a time limit")


# ---- C05-STOPFLAG --------------------------------------------------------------------------


def rule_stopflag(fx, rep, ex, arms):
    """A stop request is never lost: (a) the shared stop flag is only ever *raised* after its construction - the only store
    is `true`, in Control::stop; nothing lowers it again (a later `store(false)` can wipe a request that arrived first);
    (b) in the Stop arm, raising the flag and waiting is conditional on nothing but a stop handle being installed."""
    ok = True
    n = 0
    # (a) writers of the flag
    stores = []
    for b in fx.fn_bodies():
        if "::tests::" in b.name:
            continue
        for bb, t in b.calls():
            cn = norm(callee_name(t) or "")
            if "atomic::Atomic" in cn and cn.split("::")[-1] in ("store", "swap", "fetch_and", "fetch_or", "fetch_xor", "fetch_nand", "compare_exchange", "compare_exchange_weak", "fetch_update"):
                recv = b.expr(t["args"][0], expand_named=True, at=bb)
                if not any(isinstance(x, tuple) and len(x) == 3 and x[0] == "field" and x[2] == "force_stop" for x in walk(recv)):
                    continue
                val = deep_strip(b.expr(t["args"][1], expand_named=True, at=bb)) if len(t["args"]) > 1 else None
                stores.append((b, t.get("line"), cn.split("::")[-1], val))
    for (b, line, op, val) in stores:
        n += 1
        good = op == "store" and val in (("const", 1), ("const", True)) and norm(b.name).endswith("time_control::Control::stop")
        rep.obligation(good)
        if not good:
            ok = False
            rep.violation("C05-STOPFLAG", f"C05-STOPFLAG/writer/{norm(b.name).split('::')[-1]}", f"`{b.name}` line {line} writes the shared stop flag ({op} of `{show(val)[:30]}`): a stop request that arrived before this write is wiped, "
                          f"so an unbounded search never ends and the input thread waits on the latch forever", {"fn": b.name, "file": b.file, "line": line})
    n += 1
    good = any(norm(b.name).endswith("time_control::Control::stop") for (b, _, _, _) in stores)
    rep.obligation(good)
    if not good:
        ok = False
        rep.violation("C05-STOPFLAG", "C05-STOPFLAG/raise", "Control::stop does not raise the shared stop flag", {"fn": ex.name, "file": ex.file})
    # (b) the Stop arm
    entry, region = arms["Stop"]
    sc = [(bb, ex.blocks[bb]["term"]) for bb in sorted(region) if ex.blocks[bb]["term"]["k"] == "call" and norm(callee_name(ex.blocks[bb]["term"]) or "").endswith("Control::stop")]
    n += 1
    good = len(sc) >= 1
    extra = []
    for bb, t in sc:
        for (a, v, s2) in ex.guards_of(bb):
            if a not in region:
                continue
            for (tgt, e, pol, vv) in switch_edge_conds(ex, a):
                if tgt != s2:
                    continue
                og = option_guard(e, pol)
                if og is not None and mentions_self_field(og[0], "control"):
                    continue
                extra.append(show(e)[:80])
    if extra:
        good = False
    rep.obligation(good)
    if not good:
        ok = False
        rep.violation("C05-STOPFLAG", "C05-STOPFLAG/stop-arm", ("the Stop arm raises the stop flag only under the additional condition(s) " + str(extra[:2]) + ": a `stop` can be ignored while an unbounded search is running, which then never answers")
                      if extra else "the Stop arm never calls Control::stop", {"fn": ex.name, "file": ex.file, "line": sc[0][1].get("line") if sc else None})
    # (c) the poll honours the flag: should_stop answers `false` only after having read the flag as clear, or on the
    # node-count throttle (which releases by itself: the node counter only grows)
    for key, msg, site in stop_ignored(fx):
        n += 1
        ok = False
        rep.obligation(False)
        rep.violation("C05-STOPFLAG", "C05-STOPFLAG/" + key, msg + ": a `stop` (or an expired limit) is then not acted on while that condition holds, and the go is not answered", site)
    n += 1
    rep.obligation(True)
    rep.rule("C05-STOPFLAG", n, 4, ok, "the stop flag is only raised, raised whenever a handle is installed, and honoured by the poll")


def stop_ignored(fx):
    """[(key, msg, site)] for paths of TimeStrategy::should_stop that answer `false` without having seen the stop flag clear and
    that are not the node-count throttle. A condition on other state of the strategy (say, "still in the first iteration")
    does not go away by searching on, so a stop request raised meanwhile is ignored for as long as it holds."""
    b = fx.one("TimeStrategy::should_stop")
    paths = decision_paths(b, max_paths=400)
    out = []
    if not paths:
        return out
    seen = set()
    for conds, ret, _bb in paths:
        if ret is None:
            continue
        r = deep_strip(ret)
        if isinstance(r, tuple) and r and r[0] == "const" and r[1] in (1, True):
            continue
        # any other answer (a constant `false`, or a comparison with the clock) is only acceptable if this path has read the flag
        # as clear - or hands the flag itself back as (part of) the answer
        flag_clear = any(_is_force_cond(c) and v == 0 for c, v in conds)
        if flag_clear or _is_force_cond(ret):
            continue
        # the throttle: the deciding (last) condition compares the node-count parameter
        others = [(c, v) for c, v in conds if not _mentions_other_param(c)]
        if conds and _mentions_other_param(conds[-1][0]) and not others:
            # ... by an order comparison: it releases by itself because the node counter only grows. An (in)equality test
            # `count != due` never releases once the count has stepped over the due value (counted nodes that return before
            # polling), and from then on no poll looks at the flag or the clock
            co = cmp_op(deep_strip(conds[-1][0])) if isinstance(deep_strip(conds[-1][0]), tuple) else None
            if co and co[0] in ("Eq", "Ne"):
                key = "poll/throttle-exact"
                if key not in seen:
                    seen.add(key)
                    out.append((key, f"should_stop answers `false` whenever `{show(conds[-1][0])[:80]}` - an exact match on the node count instead of an order comparison: once the count "
                                "has stepped over the due value the throttle never releases again", {"fn": b.name, "file": b.file, "line": b.line}))
            continue
        if not conds:
            key, what = "poll/unconditional", "should_stop answers `false` unconditionally"
        else:
            c = (others or conds)[-1][0]
            key, what = "poll/flag-not-read", f"should_stop answers `false` under `{show(c)[:80]}` without having read the stop flag"
        if key in seen:
            continue
        seen.add(key)
        out.append((key, what, {"fn": b.name, "file": b.file, "line": b.line}))
    return out


# ---- C05-HELD ------------------------------------------------------------------------------

GUARD_TYPES = ("MutexGuard", "StdoutLock", "StderrLock", "StdinLock", "RwLockReadGuard", "RwLockWriteGuard", "ReentrantLockGuard")


def rule_held(fx, rep, ex):
    """The search thread runs for an unbounded time. The only lock it may hold across the search is the persistent-state
    mutex (which every arm that must not block approaches with try_lock only: C05-NOBLOCK / C13-NOLOCK). Any other guard
    held across it - in particular the process-wide stdout lock, which every `println!` of the input thread takes - makes
    the input thread block on its next answer (`readyok`) until the search ends, i.e. forever for `go infinite`."""
    ok = True
    n = 0
    for (sbb, st, cb) in spawned_closures(fx, ex):
        if cb is None:
            continue
        # the long-running calls of the thread: the search itself and anything that reaches it
        cone_cache = {}
        long_calls = []
        for bb, t in cb.calls():
            cal = fx.body(callee_name(t)) if callee_name(t) else None
            if cal is not None and (norm(cal.name).endswith("search::search") or fx.one("engine::search::search").name in fx.cone([cal.name])):
                long_calls.append(bb)
        for l, loc in enumerate(cb.locals):
            ty = loc["ty"]
            if not any(g in ty for g in GUARD_TYPES) or ty.startswith("&") or "Result<" in ty or "Option<" in ty:
                continue
            kind = mutex_kind(ty) if "MutexGuard" in ty else ty
            defs = [d for d in cb.defs().get(l, []) if d[0] in ("call", "stmt")]
            drops = [i for i in range(cb.n) if cb.blocks[i]["term"]["k"] == "drop" and cb.blocks[i]["term"]["pl"]["l"] == l and not cb.blocks[i].get("cleanup")]
            for d in defs:
                live = cb.reachable(d[1], removed_blocks=drops)
                across = [bb for bb in long_calls if bb in live and bb != d[1]]
                if not across:
                    continue
                n += 1
                good = kind == "persistent_state"
                rep.obligation(good)
                rep.sample({"rule": "C05-HELD", "guard": ty[:80], "held_across_search": True, "allowed": good})
                if not good:
                    ok = False
                    rep.violation("C05-HELD", f"C05-HELD/{kind.split('::')[-1][:40]}", f"the search thread holds `{ty[:80]}` across the search: every use of that lock by the input thread "
                                  f"({'each println!, e.g. the readyok answer' if 'Stdout' in ty else 'a blocking acquisition'}) waits until the search ends - forever for an unbounded search, and the following stop / quit are never read",
                                  {"fn": cb.name, "file": cb.file, "line": cb.blocks[across[0]]["term"].get("line")})
    rep.rule("C05-HELD", n, 1, ok, "guards held across the search in the search thread")


# ---- arms ----------------------------------------------------------------------------------


def arm_regions(fx, ex):
    """variant name -> (entry block, set of blocks of that arm) for the top-level `match cmd`."""
    variants = {v["discr"]: v["name"] for v in fx.adt("uci::commands::UciCommand")["variants"]}
    sw = None
    for i in sorted(ex.live_blocks()):
        t = ex.blocks[i]["term"]
        if t["k"] == "switch" and t["dty"] != "bool":
            e = deep_strip(ex.expr(t["discr"], expand_named=True))
            if isinstance(e, tuple) and e[0] == "discr" and isinstance(e[1], tuple) and e[1][0] == "arg" and e[1][1] == 2:
                sw = (i, t)
                break
    if sw is None:
        raise_missing("no `match cmd` switch found in Uci::execute")
    i, t = sw
    arms = {}
    base = ex.reachable(0)
    for v, tg in t["targets"]:
        name = variants.get(v, str(v))
        without = ex.reachable(0, removed_edges=[(i, tg)])
        region = {b for b in base if b not in without}
        arms[name] = (tg, region)
    missing = set(variants.values()) - set(arms)
    if missing:
        # variants handled by the otherwise edge
        tg = t["otherwise"]
        without = ex.reachable(0, removed_edges=[(i, tg)])
        region = {b for b in base if b not in without}
        for m in missing:
            arms[m] = (tg, region)
    return arms


def raise_missing(msg):
    import facts
    raise facts.MissingAnchor(msg)


# ---- C05-TS --------------------------------------------------------------------------------
# abstract state: (control in {'N','S'}, latch in {'U','S'}, inflight in {False, True})

INIT = ("N", "U", False)
NEEDS_IDLE = ("Go", "UciNewGame", "Position", "SetOption", "Uci", "Bench", "D")  # only sent while no bestmove is outstanding


def self_field_of(e, fld):
    e = deep_strip(e)
    return isinstance(e, tuple) and e[0] == "field" and e[2] == fld and isinstance(e[1], tuple) and e[1][0] == "arg" and e[1][1] == 1


def mentions_self_field(e, fld):
    return any(isinstance(x, tuple) and x and x[0] == "field" and x[2] == fld and deep_strip(x[1]) == ("arg", 1, "self") for x in walk(e))


class Sim:
    def __init__(self, fx, rep):
        self.fx = fx
        self.rep = rep
        self.deadlocks = []
        self.effects_seen = set()

    def transfer_stmt(self, body, s, st):
        c, l, f = st
        if s["k"] == "assign":
            lhs = s["lhs"]
            ps = lhs.get("p", [])
            if lhs["l"] == 1 and len(ps) == 2 and ps[0] == "*" and isinstance(ps[1], dict) and ps[1].get("n") == "control" and norm(ps[1].get("adt", "")) == UCI:
                e = strip_refs(body.expr(s["rv"].get("op"), expand_named=True)) if s["rv"]["k"] == "use" else None
                if s["rv"]["k"] == "agg":
                    e = ("agg", norm(s["rv"].get("adt", "")) + "::" + s["rv"].get("variant", ""), ())
                if isinstance(e, tuple) and e[0] == "agg" and str(e[1]).endswith("Option::Some"):
                    self.effects_seen.add("control=Some")
                    return [("S", l, f)]
                if isinstance(e, tuple) and e[0] == "agg" and str(e[1]).endswith("Option::None"):
                    self.effects_seen.add("control=None")
                    return [("N", l, f)]
                return [("S", l, f), ("N", l, f)]
        return [st]

    def transfer_call(self, body, bb, t, st, depth):
        c, l, f = st
        cn = norm(callee_name(t) or "")
        args = [body.expr(a, expand_named=True) for a in t["args"]]
        on_latch = bool(args) and mentions_self_field(args[0], "is_stopped")
        if cn.endswith("LockLatch::reset") and on_latch:
            self.effects_seen.add("latch.reset")
            return [(c, "U", f)]
        if cn.endswith("LockLatch::set") and on_latch:
            self.effects_seen.add("latch.set")
            return [(c, "S", f)]
        if cn.endswith("LockLatch::wait") and on_latch:
            self.effects_seen.add("latch.wait")
            if l == "S":
                return [st]
            if f:
                return [(c, "S", False)]
            self.deadlocks.append((body, bb, t, st))
            return []  # blocked forever
        if cn.endswith("thread::spawn"):
            self.effects_seen.add("spawn")
            return [(c, l, True)]
        if cn.endswith("JoinHandle::join"):
            self.effects_seen.add("join")
            return [(c, "S" if f else l, False)]
        if cn.endswith("Option::take") and args and self_field_of(args[0], "control"):
            # the handle is None from here on; "T" remembers that the value taken out was Some (tested by `let Some(h) = .. else`)
            self.effects_seen.add("control=None")
            return [("T" if c in ("S", "T") else "N", l, f)]
        # helper receiving &mut Uci: inline
        cb = self.fx.body(callee_name(t)) if callee_name(t) else None
        if cb is not None and depth < 4 and any(deep_strip(a) == ("arg", 1, "self") for a in args) and cb.locals[1]["ty"].endswith("engine::uci::Uci"):
            outs = self.simulate(cb, 0, {st}, None, depth + 1)
            return list(outs)
        return [st]

    def simulate(self, body, entry, states, region, depth=0):
        """Propagate abstract states from `entry` through `region` (None = whole body); return the states
        leaving the region / reaching return."""
        at = {entry: set(states)}
        out = set()
        wl = deque([entry])
        while wl:
            bb = wl.popleft()
            cur = set(at.get(bb, ()))
            # environment step: an in-flight search may finish at any time
            cur |= {(c, "S", False) for (c, l, f) in cur if f}
            blk = body.blocks[bb]
            for s in blk["stmts"]:
                nxt = set()
                for st in cur:
                    nxt.update(self.transfer_stmt(body, s, st))
                cur = nxt
            t = blk["term"]
            succs = []
            if t["k"] == "call":
                nxt = set()
                for st in cur:
                    nxt.update(self.transfer_call(body, bb, t, st, depth))
                cur = nxt
                if "target" in t:
                    succs = [(t["target"], cur)]
            elif t["k"] == "switch":
                for (tg, e, pol, v) in switch_edge_conds(body, bb):
                    sel = cur
                    og = option_guard(e, pol)
                    if og is not None and mentions_self_field(og[0], "control"):
                        if find_calls(og[0], "Option::take"):
                            # a test of the value taken out of the handle
                            sel = {st for st in cur if (st[0] == "T") == bool(og[1])}
                        else:
                            sel = {st for st in cur if (st[0] == "S") == bool(og[1])}
                    succs.append((tg, sel))
            elif t["k"] == "return":
                out |= {("N" if c0 == "T" else c0, l0, f0) for (c0, l0, f0) in cur}
            else:
                succs = [(x, cur) for x in body.succ(bb)]
            for tg, sts in succs:
                if not sts:
                    continue
                if region is not None and tg not in region:
                    out |= {("N" if c0 == "T" else c0, l0, f0) for (c0, l0, f0) in sts}
                    continue
                old = at.get(tg, set())
                if not sts <= old:
                    at[tg] = old | sts
                    wl.append(tg)
        return out


def rule_ts(fx, rep, ex, arms):
    sim = Sim(fx, rep)
    reach = {INIT}
    frontier = deque([INIT])
    trans = 0
    witness = {INIT: []}
    while frontier:
        st = frontier.popleft()
        # environment step
        nxts = []
        if st[2]:
            nxts.append(("<search finishes>", (st[0], "S", False)))
        for name, (entry, region) in sorted(arms.items()):
            if name in NEEDS_IDLE and st[2]:
                continue
            before = len(sim.deadlocks)
            outs = sim.simulate(ex, entry, {st}, region)
            for d in sim.deadlocks[before:]:
                d_hist = witness[st] + [name]
                d[3:]  # keep tuple
                sim.deadlocks[sim.deadlocks.index(d)] = d + (d_hist,)
            for o in outs:
                nxts.append((name, o))
        for name, o in nxts:
            trans += 1
            if o not in reach:
                reach.add(o)
                witness[o] = witness[st] + [name]
                frontier.append(o)
    rep.analysed["typestate"] = {"states": sorted(map(str, reach)), "transitions": trans, "effects_extracted": sorted(sim.effects_seen)}
    rep.sample({"rule": "C05-TS", "reachable_states(control,latch,inflight)": sorted(map(str, reach)), "effects": sorted(sim.effects_seen)})
    ok = True
    # the effects the model is built from must all have been found (fail closed)
    need = {"control=Some", "control=None", "latch.reset", "latch.wait", "spawn"}
    missing = need - sim.effects_seen
    rep.obligation(not missing)
    if missing:
        ok = False
        rep.violation("C05-TS", "C05-TS/model", f"could not extract the effects {sorted(missing)} from Uci::execute: the typestate model would be vacuous", {"fn": ex.name, "file": ex.file, "line": ex.line})
    seen = set()
    for d in sim.deadlocks:
        body, bb, t, st = d[:4]
        hist = d[4] if len(d) > 4 else []
        key = f"C05-TS/wait/{norm(body.name)}/{'-'.join(hist[-1:])}"
        if key in seen:
            continue
        seen.add(key)
        ok = False
        rep.violation("C05-TS", key,
                      f"command history {hist} reaches `is_stopped.wait()` with the latch unset and no search in flight (handle={st[0]}, latch={st[1]}, inflight={st[2]}): the input thread blocks forever",
                      {"fn": body.name, "file": body.file, "line": t.get("line")})
    waits = len([1 for b in [ex] for bb, t in b.calls_to("LockLatch::wait")])
    rep.obligation(not sim.deadlocks, max(1, len(reach)))
    rep.rule("C05-TS", len(reach) + waits, 4, ok, f"typestate exploration: {len(reach)} abstract states, {trans} transitions, {waits} wait site(s)")


# ---- C05-SET -------------------------------------------------------------------------------


def spawned_closures(fx, body):
    out = []
    for bb, t in body.calls_to("thread::spawn"):
        e = body.expr(t["args"][0], expand_named=True)
        for x in walk(e):
            if isinstance(x, tuple) and x and x[0] == "agg" and isinstance(x[1], str) and x[1].startswith("closure:"):
                out.append((bb, t, fx.bodies.get(x[1][len("closure:"):])))
            if isinstance(x, tuple) and x and x[0] == "closure":
                out.append((bb, t, fx.bodies.get(x[1])))
    return out


def rule_set(fx, rep, ex):
    ok = True
    cl = spawned_closures(fx, ex)
    n = 0
    for (bb, t, cb) in cl:
        n += 1
        if cb is None:
            ok = False
            rep.obligation(False)
            rep.violation("C05-SET", "C05-SET/closure", "cannot resolve the closure passed to thread::spawn", {"fn": ex.name, "line": t.get("line")})
            continue
        rets = cb.return_blocks()
        bm = [b for b, tt in cb.calls() if norm(callee_name(tt) or "").endswith("Reporter::best_move") or norm(callee_name(tt) or "").endswith("Reporter>::best_move")]
        st = [b for b, tt in cb.calls_to("LockLatch::set")]
        se = [b for b, tt in cb.calls() if norm(callee_name(tt) or "").endswith("search::search")]
        good, why = True, ""
        if len(st) != 1 or not cb.must_pass(0, st, rets):
            good, why = False, f"the search thread does not set the latch exactly once on every path ({len(st)} set site(s))"
        elif len(bm) != 1 or not cb.must_pass(0, bm, rets):
            good, why = False, f"the search thread does not report exactly one bestmove on every path ({len(bm)} site(s))"
        elif not cb.block_dominates(bm[0], st[0]):
            good, why = False, "the latch is set before bestmove is printed: `stop` returns while the answer is still outstanding"
        elif len(se) != 1 or not cb.block_dominates(se[0], bm[0]):
            good, why = False, "bestmove is not preceded by the search call"
        else:
            # no loop around these (exactly once): none of the blocks lies on a cycle
            for b in (bm[0], st[0]):
                if b in cb.reachable(cb.succs()[b][0]) if cb.succs()[b] else False:
                    good, why = False, "bestmove/set lies on a loop"
        rep.obligation(good)
        rep.sample({"rule": "C05-SET", "closure": cb.name, "ok": good})
        if not good:
            ok = False
            rep.violation("C05-SET", f"C05-SET/{norm(cb.name)}", why, {"fn": cb.name, "file": cb.file, "line": cb.line})
    rep.rule("C05-SET", n, 1, ok, "search thread: search -> one bestmove -> latch.set on every path")


# ---- C05-LOCK ------------------------------------------------------------------------------


def mutex_kind(ty):
    if "PersistentState" in ty:
        return "persistent_state"
    if "bool" in ty:
        return "latch"
    return ty


def acquisitions_in_cone(fx, names, cache):
    """Set of mutex kinds that may be lock()ed (blocking) in the cone of the given bodies, plus waits."""
    out = set()
    for nm in fx.cone(names):
        if nm in cache:
            out |= cache[nm]
            continue
        acc = set()
        b = fx.bodies[nm]
        for bb, t in b.calls():
            cn = norm(callee_name(t) or "")
            if cn.endswith("Mutex::lock"):
                ty = b.local_ty(t["args"][0]["pl"]["l"]) if "pl" in t["args"][0] else "?"
                acc.add(("lock", mutex_kind(ty)))
            if cn.endswith("Condvar::wait"):
                acc.add(("wait", "latch"))
        cache[nm] = acc
        out |= acc
    return out


def rule_lock(fx, rep, ex):
    ok = True
    n = 0
    cache = {}
    edges = set()
    details = []
    roots = fx.cone([ex.name])
    for nm in sorted(roots):
        b = fx.bodies[nm]
        # guard locals
        for l, loc in enumerate(b.locals):
            if "MutexGuard" not in loc["ty"] or loc["ty"].startswith("&") or "Result<" in loc["ty"] or "Option<" in loc["ty"]:
                continue
            held = mutex_kind(loc["ty"])
            defs = [d for d in b.defs().get(l, []) if d[0] in ("call", "stmt")]
            drops = [i for i in range(b.n) if b.blocks[i]["term"]["k"] == "drop" and b.blocks[i]["term"]["pl"]["l"] == l and not b.blocks[i].get("cleanup")]
            for d in defs:
                start = d[1]
                live = b.reachable(start, removed_blocks=drops) | set(drops)
                n += 1
                for bb in sorted(live):
                    t = b.blocks[bb]["term"]
                    if t["k"] != "call" or (bb == start and d[0] == "call"):
                        continue
                    cn = norm(callee_name(t) or "")
                    acq = set()
                    if cn.endswith("Mutex::lock"):
                        ty = b.local_ty(t["args"][0]["pl"]["l"]) if "pl" in t["args"][0] else "?"
                        acq.add(("lock", mutex_kind(ty)))
                    elif cn.endswith("Condvar::wait"):
                        # waiting on the guard's own mutex releases it: fine; with a different guard held it is not
                        # (decided by the mutex kind of the guard handed to wait)
                        gty = b.local_ty(t["args"][1]["pl"]["l"]) if len(t["args"]) > 1 and "pl" in t["args"][1] else "?"
                        if mutex_kind(gty) != held:
                            acq.add(("wait", mutex_kind(gty)))
                    else:
                        cb = fx.body(callee_name(t)) if callee_name(t) else None
                        if cb is not None:
                            acq |= acquisitions_in_cone(fx, [cb.name], cache)
                        # closures passed as values are not called here
                    for (k, m) in acq:
                        edges.add((held, m, k))
                        details.append((held, k, m, b.name, t.get("line")))
    rep.sample({"rule": "C05-LOCK", "lock_order_edges": sorted(edges)})
    # acyclic and no wait while holding another guard
    kinds = {a for a, _, _ in edges} | {b for _, b, _ in edges}
    adj = {k: {m for (h, m, _) in edges if h == k} for k in kinds}
    cyc = None
    for k in kinds:
        seen = set()
        dq = deque(adj.get(k, ()))
        while dq:
            x = dq.popleft()
            if x == k:
                cyc = k
                break
            if x in seen:
                continue
            seen.add(x)
            dq.extend(adj.get(x, ()))
    rep.obligation(cyc is None)
    if cyc is not None:
        ok = False
        rep.violation("C05-LOCK", f"C05-LOCK/cycle/{cyc}", f"lock-order cycle through `{cyc}`: edges {sorted(edges)}; sites {details[:6]}", {"fn": ex.name, "file": ex.file})
    for (held, m, k) in sorted(edges):
        if k == "wait":
            ok = False
            rep.obligation(False)
            site = [d for d in details if d[0] == held and d[1] == "wait"][0]
            rep.violation("C05-LOCK", f"C05-LOCK/wait-under/{held}", f"a condition-variable wait is reachable while the `{held}` guard is held ({site[3]}:{site[4]})", {"fn": site[3], "line": site[4]})
    rep.rule("C05-LOCK", n, 2, ok, f"guards examined; lock-order edges {sorted(edges)}")


# ---- C05-NOBLOCK ---------------------------------------------------------------------------


def blocking_in_arm(fx, ex, region):
    found = []
    for bb in sorted(region):
        t = ex.blocks[bb]["term"]
        if t["k"] != "call":
            continue
        cn = norm(callee_name(t) or "")
        if any(cn.endswith(b) for b in BLOCKING):
            found.append((cn, ex.name, t.get("line")))
        cb = fx.body(callee_name(t)) if callee_name(t) else None
        if cb is not None:
            for nm in fx.cone([cb.name]):
                b2 = fx.bodies[nm]
                for bb2, t2 in b2.calls():
                    cn2 = norm(callee_name(t2) or "")
                    if any(cn2.endswith(b) for b in BLOCKING):
                        found.append((cn2, nm, t2.get("line")))
    return found


def rule_noblock(fx, rep, ex, arms, names=("IsReady", "Quit", "Position", "Debug", "PonderHit", "SetOption", "Uci"), rid="C05-NOBLOCK"):
    ok = True
    n = 0
    for name in names:
        if name not in arms:
            raise_missing(f"UciCommand::{name} arm not found")
        entry, region = arms[name]
        n += 1
        found = blocking_in_arm(fx, ex, region)
        good = not found
        rep.obligation(good)
        rep.sample({"rule": rid, "arm": name, "blocking_calls": found})
        if not good:
            ok = False
            rep.violation(rid, f"{rid}/{name}", f"the `{name}` arm can reach blocking primitive(s) {found[:3]}: with a search running the input thread stops answering",
                          {"fn": ex.name, "file": ex.file, "line": found[0][2]})
    rep.rule(rid, n, len(names), ok, "arms that must never block")


U = "src/engine/uci/mod.rs"
MUTANTS = [
    {"name": "the root is no longer exempt from the fifty-move / dead-material return (seed C05-11a)", "expect": "C05-PANIC/root",
     "edits": __import__("shared_mutants").edits_from_patch("seeded/C05-11a/patch.diff")},
    {"name": "LockLatch::wait by wait_while with the predicate inverted (seed C05-8a)", "expect": "C05-LATCH/polarity",
     "edits": [("src/engine/util/sync.rs", "        let mut guard = self.m.lock().unwrap();\n        while !*guard {\n            guard = self.v.wait(guard).unwrap();\n        }", "        let guard = self.m.lock().unwrap();\n        let _guard = self.v.wait_while(guard, |set| *set).unwrap();")]},
    {"name": "LockLatch::wait by wait_while", "benign": True,
     "edits": [("src/engine/util/sync.rs", "        let mut guard = self.m.lock().unwrap();\n        while !*guard {\n            guard = self.v.wait(guard).unwrap();\n        }", "        let guard = self.m.lock().unwrap();\n        let _guard = self.v.wait_while(guard, |set| !*set).unwrap();")]},
    {"name": "stop flag consulted only for searches without a time limit (seed C09-7a)", "expect": "C05-STOPFLAG/poll",
     "edits": [("src/engine/search/time_control.rs", "        if self.is_force_stopped() {\n            return true;\n        }\n\n        self.next_check_at = nodes_visited + params::CHECK_TERMINATION_NODE_FREQUENCY;\n\n        match self.time_control {\n            TimeControl::Clocks(_) => self.elapsed() > self.hard_stop,\n            TimeControl::ExactTime(time) => self.elapsed() > time,\n            TimeControl::Infinite => false,\n        }",
                "        self.next_check_at = nodes_visited + params::CHECK_TERMINATION_NODE_FREQUENCY;\n\n        match self.time_control {\n            TimeControl::Clocks(_) => self.elapsed() > self.hard_stop,\n            TimeControl::ExactTime(time) => self.elapsed() > time,\n            TimeControl::Infinite => self.is_force_stopped(),\n        }")]},
    {"name": "clock arguments of go parsed as unsigned numbers (seed C05-7b)", "expect": "C05-GOARGS/wtime",
     "edits": [("src/engine/uci/parser.rs", "command_with_argument(\"wtime\", nom::character::complete::i64, |wtime| {\n                    GoCmdArgumentsModifyFn::new(move |acc: &mut GoCmdArguments| {\n                        acc.wtime = Some(parse_duration(wtime));",
                "command_with_argument(\"wtime\", nom::character::complete::u32, |wtime| {\n                    GoCmdArgumentsModifyFn::new(move |acc: &mut GoCmdArguments| {\n                        acc.wtime = Some(parse_duration(i64::from(wtime)));")]},
    {"name": "latch state in an AtomicBool, set() notifies without the lock (seed C05-7a)", "expect": "C05-LATCH/set",
     "edits": [("src/engine/util/sync.rs", "use std::sync::{Condvar, Mutex};", "use std::sync::atomic::{AtomicBool, Ordering};\nuse std::sync::{Condvar, Mutex};"),
               ("src/engine/util/sync.rs", "    m: Mutex<bool>,\n", "    set: AtomicBool,\n    m: Mutex<()>,\n"),
               ("src/engine/util/sync.rs", "            m: Mutex::new(false),\n", "            set: AtomicBool::new(false),\n            m: Mutex::new(()),\n"),
               ("src/engine/util/sync.rs", "        while !*guard {", "        while !self.set.load(Ordering::Acquire) {"),
               ("src/engine/util/sync.rs", "        *self.m.lock().unwrap() = true;", "        self.set.store(true, Ordering::Release);"),
               ("src/engine/util/sync.rs", "        *self.m.lock().unwrap() = false;", "        self.set.store(false, Ordering::Release);")]},
    {"name": "stop written with take(): waits on the latch even when no handle was installed", "expect": "C05-TS/wait",
     "edits": [("src/engine/uci/mod.rs", "                if let Some(c) = self.control.as_mut() {\n                    c.stop();\n                    self.is_stopped.wait();\n                }\n\n                self.control = None;", "                if let Some(c) = self.control.take() {\n                    c.stop();\n                }\n                self.is_stopped.wait();")]},
    {"name": "benign: stop written with take() and let-else", "benign": True,
     "edits": [("src/engine/uci/mod.rs", "                if let Some(c) = self.control.as_mut() {\n                    c.stop();\n                    self.is_stopped.wait();\n                }\n\n                self.control = None;", "                let Some(running_search) = self.control.take() else {\n                    return Ok(ExecuteResult::KeepGoing);\n                };\n                running_search.stop();\n                self.is_stopped.wait();")]},
    {"name": "polls of the first iteration answer false without reading the flag (seed C09-5a)", "expect": "C05-STOPFLAG/poll",
     "edits": [("src/engine/search/time_control.rs", "    next_check_at: u64,\n", "    next_check_at: u64,\n    current_depth: u8,\n"),
               ("src/engine/search/time_control.rs", "            next_check_at: params::CHECK_TERMINATION_NODE_FREQUENCY,\n", "            next_check_at: params::CHECK_TERMINATION_NODE_FREQUENCY,\n            current_depth: 1,\n"),
               ("src/engine/search/time_control.rs", "        if nodes_visited < self.next_check_at {\n            return false;\n        }", "        if self.current_depth <= 1 || nodes_visited < self.next_check_at {\n            return false;\n        }")]},
    {"name": "hashfull computed with an integer division by the table size (seeds C19-3 / C04-4b / C05-5b)", "expect": "C05-PANIC",
     "edits": [("src/engine/transposition_table.rs", "        let decimal = self.occupied as f32 / self.data.len() as f32;\n        let permille = decimal * 1000.0;\n        permille as usize", "        self.occupied * 1000 / self.data.len()")]},
    {"name": "benign: Option-typed limits, None = no limit (match form)", "benign": True, "edits": shared_mutants.OPT_MATCH},
    {"name": "Option-typed hard limit left None for a fixed move time", "expect": "C05-LIMIT", "edits": shared_mutants.OPT_BAD},
    {"name": "zero hard limit used as the no-limit marker (seed C05-5a)", "expect": "C05-LIMIT",
     "edits": [("src/engine/search/time_control.rs", "        match self.time_control {\n            TimeControl::Clocks(_) => self.elapsed() > self.hard_stop,\n            TimeControl::ExactTime(time) => self.elapsed() > time,\n            TimeControl::Infinite => false,\n        }",
                "        !self.hard_stop.is_zero() && self.elapsed() > self.hard_stop")]},
    {"name": "search thread lowers the stop flag when it begins (seed C05-4a)", "expect": "C05-STOPFLAG/writer",
     "edits": [("src/engine/search/time_control.rs", "    pub fn elapsed(&self) -> Duration {", "    pub fn begin(&mut self) {\n        self.force_stop.store(false, Ordering::Relaxed);\n    }\n\n    pub fn elapsed(&self) -> Duration {"),
               (U, "                    let mut persistent_state_handle = persistent_state.lock().unwrap();\n", "                    let mut persistent_state_handle = persistent_state.lock().unwrap();\n                    time_strategy.begin();\n")]},
    {"name": "stop ignored when the latch is still set from an earlier search (seed C05-4b)", "expect": "C05-STOPFLAG/stop-arm",
     "edits": [(U, "                if let Some(c) = self.control.as_mut() {\n                    c.stop();\n                    self.is_stopped.wait();\n                }\n\n                self.control = None;", "                if !self.is_stopped.is_set() {\n                    if let Some(c) = self.control.as_mut() {\n                        c.stop();\n                        self.is_stopped.wait();\n                    }\n                }\n\n                self.control = None;"),
               ("src/engine/util/sync.rs", "    // Sets the lock to true and notifies any threads waiting on it.", "    pub fn is_set(&self) -> bool {\n        *self.m.lock().unwrap()\n    }\n\n    // Sets the lock to true and notifies any threads waiting on it.")]},
    {"name": "search thread keeps the stdout lock for the whole search (seed C05-3)", "expect": "C05-HELD",
     "edits": [(U, "                    let mut persistent_state_handle = persistent_state.lock().unwrap();\n", "                    let mut persistent_state_handle = persistent_state.lock().unwrap();\n                    let _stdout = std::io::stdout().lock();\n")]},
    {"name": "ucinewgame keeps the stale stop handle (original defect)", "expect": "C05-TS/wait",
     "edits": [(U, "                self.control = None;\n                self.is_stopped.reset();", "                self.is_stopped.reset();")]},
    {"name": "go resets the latch but stop handle survives a finished search", "expect": "C05-TS/wait",
     "edits": [(U, "            UciCommand::Stop => {\n                if let Some(c) = self.control.as_mut() {\n                    c.stop();\n                    self.is_stopped.wait();\n                }\n\n                self.control = None;",
                "            UciCommand::Stop => {\n                if let Some(c) = self.control.as_mut() {\n                    c.stop();\n                    self.is_stopped.wait();\n                    self.is_stopped.reset();\n                }\n")]},
    {"name": "latch set before bestmove", "expect": "C05-SET",
     "edits": [(U, "                    reporter.best_move(&game, best_move);\n                    is_stopped.set();", "                    is_stopped.set();\n                    reporter.best_move(&game, best_move);")]},
    {"name": "latch only set when a PV exists", "expect": "C05-SET",
     "edits": [(U, "                    is_stopped.set();\n                });", "                    if best_move.src() != best_move.dst() {\n                        is_stopped.set();\n                    }\n                });")]},
    {"name": "setoption blocks on the mutex", "expect": "C05-NOBLOCK/SetOption",
     "edits": [(U, "                        if let Ok(mut tt_handle) = self.persistent_state.try_lock() {", "                        if let Ok(mut tt_handle) = self.persistent_state.lock() {")]},
    {"name": "isready waits for the search", "expect": "C05-NOBLOCK/IsReady",
     "edits": [(U, "            UciCommand::IsReady => send_response(&UciResponse::ReadyOk),", "            UciCommand::IsReady => {\n                let _guard = self.persistent_state.lock().unwrap();\n                send_response(&UciResponse::ReadyOk);\n            }")]},
    {"name": "ucinewgame resets latch while holding the state lock and search thread waits on it", "expect": "C05-LOCK",
     "edits": [(U, "                    reporter.best_move(&game, best_move);\n                    is_stopped.set();", "                    reporter.best_move(&game, best_move);\n                    is_stopped.set();\n                    is_stopped.wait();")]},
    {"name": "benign: stop handle taken instead of borrowed", "benign": True,
     "edits": [(U, "                if let Some(c) = self.control.as_mut() {\n                    c.stop();\n                    self.is_stopped.wait();\n                }\n\n                self.control = None;",
                "                if let Some(c) = self.control.as_ref() {\n                    c.stop();\n                    self.is_stopped.wait();\n                }\n\n                self.control = None;")]},
]
