"""C08 — reported lines are playable and mate announcements are true: structural clauses C08-PVGUARD,
C08-PVPUSH, C08-MATEDIST, C08-DEPTH, C08-MATE (DESIGN.md §3)."""
from facts import (decision_paths, norm, show, walk, strip_refs, deep_strip, is_call_to, callee_name, find_calls, guard_conditions,
                   cmp_op, switch_edge_conds, option_guard)
import sh

EXPLANATION = (
    "Decides the mechanisms the integrity of reported lines rests on, not the legality or length of actual lines: "
    "(PVGUARD) in negamax every branch on the static evaluation or on the contents of a hash entry (depth, bound, "
    "score) is dominated by the false edge of the PV-node flag `alpha != beta - 1`, so PV nodes are never cut off by "
    "hash hits or forward pruning (tablebase code exempt); (PVPUSH) the PV is extended only under `move_score > alpha` "
    "for the move just unmade, after the child returned Ok and after undo_move, from a child PV that was cleared "
    "before the child call, and the null-move search gets a throw-away PV; (MATEDIST) every score stored from the "
    "move loop is converted with with_mate_distance_from_position(plies), every hash-hit score returned with "
    "with_mate_distance_from_root(plies), and the two conversions are mirror images; (DEPTH) the reported depth is "
    "the iteration variable of 1..=limit and one report is made per completed iteration; (MATE) mate/stalemate "
    "scores are returned only under `number_of_legal_moves == 0`, the counter moves with make_move, and moves are "
    "skipped only when the counter is already positive."
)


def run(fx, rep, tier):
    neg = fx.one("search::negamax::negamax")
    rule_pvguard(fx, rep, neg)
    rule_pvpush(fx, rep, neg)
    rule_matedist(fx, rep, neg)
    rule_depth(fx, rep)
    rule_mate(fx, rep, neg)
    rule_aspwin(fx, rep)
    rule_rootret(fx, rep, neg)
    rule_mateconv(fx, rep)
    rule_zerowin(fx, rep, neg)
    rule_matesrc(fx, rep, neg)
    rule_key(fx, rep)
    rule_report(fx, rep)
    rule_qprobe(fx, rep)


def rule_qprobe(fx, rep):
    """C08-PVGUARD/quiescence. "No hash cut-off in PV nodes" also covers the node where the principal variation ends: quiescence
    is entered from PV and non-PV nodes alike and carries no PV flag, so a value it returns out of a table probe cuts the
    principal variation at the horizon - harmless for ordinary scores, but a stored mate score is then announced with a line
    that stops short of the mate. The value quiescence returns must not be derived from a transposition-table probe."""
    q = fx.find("search::quiescence::quiescence")
    if not q:
        rep.rule("C08-PVGUARD/quiescence", 0, 0, True, "quiescence not found: not decided")
        return
    q = q[0]
    probes = [(bb, t) for bb, t in q.calls() if "TranspositionTable" in norm(callee_name(t) or "") and norm(callee_name(t) or "").split("::")[-1] == "get"]
    n, ok = 0, True
    if probes:
        sl, _recs = q.slice_back([0])
        for bb, t in probes:
            n += 1
            good = t["dest"]["l"] not in sl
            rep.obligation(good)
            if not good:
                ok = False
                rep.violation("C08-PVGUARD", "C08-PVGUARD/quiescence/probe", f"`{q.name}` (line {t.get('line')}) returns a value taken from a transposition-table probe; it has no PV flag, so the leaf of the principal "
                              "variation is cut off by a stored score too: a mate score from an earlier search is announced with a line that stops at the horizon", {"fn": q.name, "file": q.file, "line": t.get("line")})
    rep.rule("C08-PVGUARD/quiescence", n, 0, ok, "quiescence returns nothing taken from a table probe")


def rule_report(fx, rep):
    """C08-REPORT. The line printed with a score is the line the search recorded, whole: a `score mate N` is announced with
    exactly the plies that reach the mate. Where the UCI reporter builds the `pv` field of an info line from the search's `pv`,
    the iterator chain in between only converts (clone / iter / map / collect ..); an adaptor that selects or reorders moves
    (`take`, `skip`, `filter`, `rev`, `step_by`, ..) prints a different line than the one the score belongs to - a mate found
    through the check extension by an iteration shallower than the mate line is announced with a line that stops short of it."""
    selecting = ("take", "skip", "take_while", "skip_while", "step_by", "filter", "filter_map", "rev", "chain", "zip", "flat_map", "scan", "map_while", "dedup", "truncate", "split_off", "drain", "pop", "split_at")
    n, ok = 0, True
    for b in fx.fn_bodies():
        if not norm(b.name).startswith("engine::uci::") or "::tests::" in b.name:
            continue
        for bb, j, st in b.stmts():
            rv = st.get("rv")
            if not (st["k"] == "assign" and rv and rv["k"] == "agg" and rv.get("agg") == "adt" and norm(rv.get("adt", "")).endswith("InfoFields") and "pv" in (rv.get("fields") or [])):
                continue
            e = b.expr(rv["ops"][rv["fields"].index("pv")], expand_named=True, at=bb)
            if not any(isinstance(x, tuple) and x and x[0] == "field" and x[2] == "pv" for x in walk(e)):
                continue  # not built from a search's pv here
            n += 1
            used = [str(x[1]).split("::")[-1] for x in walk(e) if isinstance(x, tuple) and x and x[0] == "call" and isinstance(x[1], str)]
            sel = [u for u in used if u in selecting]
            good = not sel
            rep.obligation(good)
            rep.sample({"rule": "C08-REPORT", "fn": norm(b.name).split("::")[-1], "pv_chain": used[:12]})
            if not good:
                ok = False
                rep.violation("C08-REPORT", f"C08-REPORT/{norm(b.name).split('::')[-1]}/{sel[0]}", f"`{b.name}` (line {st.get('line')}) passes the search's line through `{sel[0]}` before printing it: the printed line is not the "
                              "line the score belongs to (a mate announced with fewer plies than reach it, or a line that is not the recorded one)", {"fn": b.name, "file": b.file, "line": st.get("line")})
    if n == 0:
        rep.notes.append("C08-REPORT: no info line built from a search's `pv` field found in the UCI reporter; clause not decided")
    rep.rule("C08-REPORT", n, 0, ok, "the printed line is the recorded line, whole")


def rule_key(fx, rep):
    """The move stored in the transposition table is tried first and can end up in a reported line without any legality
    test: what makes it playable is that the key it was stored under identifies the position - placement, side to move,
    castling rights and en-passant target. If the key written by make_move / undo_move / the constructor can differ from, or
    alias, the from-scratch key (the C03 clauses), the move of one position is played and reported in another (seed C08-5b:
    `e1g1` reported for a board without castling rights). The C03 clauses are re-reported here as that premise; key equality of
    genuinely different positions (64-bit collisions) stays an assumption."""
    import core
    import pC03
    sub = type(rep)(rep.prop, rep.tier)
    q = core.QUIET
    core.QUIET = True
    try:
        pC03.run(fx, sub, rep.tier)
    finally:
        core.QUIET = q
    for v in sub.violations:
        rep.violation("C08-KEY", v["key"].replace("C03-", "C08-KEY/", 1), v["msg"] + " (the table move of the aliased position is then played, and reported in the line, without a legality test)", v["site"])
    rep.obligations += sub.obligations
    rep.discharged += sub.discharged
    rep.rule("C08-KEY", sub.obligations, 100, not sub.violations, "the key the table move is stored under identifies the position (shared with C03)")


def rule_matesrc(fx, rep, neg):
    """Mate scores originate only where a line is recorded: Eval::mated_in / mate_in are called, inside the search, by negamax
    (under the no-legal-move guard, C08-MATE) and by the tablebase code only. A mate score produced elsewhere (e.g. in
    quiescence, which keeps no line) is backed up as exact and announced with a line that stops short of the mate."""
    search = fx.one("engine::search::search")
    cone = fx.cone([search.name])
    ok = True
    n = 0
    for (b, bb, t) in fx.callers_of(lambda nm: nm.endswith("Eval::mated_in") or nm.endswith("Eval::mate_in")):
        if b.name not in cone or "::tests::" in b.name:
            continue
        n += 1
        def allowed(x):
            return x.name == neg.name or "tablebase" in norm(x.name) or norm(x.name).endswith("search::get_tablebase_pv")
        good = allowed(b) or tablebase_guarded(b, bb)
        if not good and b.kind in ("Fn", "AssocFn") and not b.raw.get("vis_pub"):
            # a private helper all of whose callers are allowed producers is part of them
            cs = [c for (c, _cbb, _ct) in fx.callers_of(lambda nm, _n=b.name: nm == _n or norm(nm) == norm(_n))]
            good = bool(cs) and all(allowed(c) for c in cs)
        rep.obligation(good)
        if not good:
            ok = False
            rep.violation("C08-MATESRC", f"C08-MATESRC/{norm(b.name).split('::')[-1]}", f"`{b.name}` line {t.get('line')} creates a mate score outside negamax's no-legal-move case: no line is recorded there, so the mate is announced with a line that does not reach it",
                          {"fn": b.name, "file": b.file, "line": t.get("line")})
    rep.rule("C08-MATESRC", n, 1, ok, "mate scores created only by negamax / tablebase code")


def rule_zerowin(fx, rep, neg):
    """A move enters the principal variation only on an exact score: the score compared with alpha right before `pv.push` never
    comes from a zero-window search ((-alpha-1, -alpha)) on a feasible path - the code re-searches with the full window whenever
    such a score lands inside (alpha, beta). Decided by enumerating the paths from make_move to pv.push with their comparison
    outcomes and discarding those whose comparisons contradict each other."""
    mk = neg.calls_to("Game::make_move")
    push = {bb for bb, t in neg.calls_to("PrincipalVariation::push")}
    if len(mk) != 1 or not push:
        rep.notes.append("C08-ZEROWIN: negamax does not have one make_move and a pv.push; clause not decided")
        rep.rule("C08-ZEROWIN", 0, 0, True, "not decided")
        return
    paths = decision_paths(neg, 4000, start=mk[0][0], stop=push)
    if not paths or len(paths) >= 4000:
        rep.notes.append("C08-ZEROWIN: too many paths between make_move and pv.push; clause not decided")
        rep.rule("C08-ZEROWIN", 0, 0, True, "not decided")
        return

    def zero_window(score):
        calls = find_calls(score, "negamax::negamax")
        if not calls:
            return None
        c = calls[0]
        a, b = deep_strip(c[2][1]), deep_strip(c[2][2])
        return isinstance(a, tuple) and a[0] == "call" and a[1].endswith("Sub>::sub") and deep_strip(a[2][0]) == b

    allowed = {("Gt", True): {"gt"}, ("Gt", False): {"lt", "eq"}, ("Ge", True): {"gt", "eq"}, ("Ge", False): {"lt"}, ("Lt", True): {"lt"}, ("Lt", False): {"gt", "eq"},
               ("Le", True): {"lt", "eq"}, ("Le", False): {"gt"}, ("Eq", True): {"eq"}, ("Eq", False): {"lt", "gt"}, ("Ne", True): {"lt", "gt"}, ("Ne", False): {"eq"}}
    ok = True
    n = 0
    undecided = 0
    for conds, _env, bb in paths:
        rel = {}
        feasible = True
        pushed = None
        for (e, val) in conds:
            co = cmp_op(deep_strip(e)) if isinstance(deep_strip(e), tuple) else None
            if not co:
                continue
            truth = (val != 0) if isinstance(val, int) else (0 in val[1] if isinstance(val, tuple) and val[0] == "otherwise" else None)
            if truth is None:
                continue
            x, y = deep_strip(co[1]), deep_strip(co[2])
            key = (show(x), show(y))
            cur = rel.get(key, {"lt", "eq", "gt"}) & allowed[(co[0], truth)]
            rel[key] = cur
            if not cur:
                feasible = False
            if co[0] == "Gt" and truth and find_calls(x, "negamax::negamax"):
                pushed = x  # the last `score > ..` taken true before the push is the alpha test
        if not feasible:
            continue
        if pushed is None:
            undecided += 1
            continue
        n += 1
        zw = zero_window(pushed)
        good = zw is False
        rep.obligation(good)
        if not good and ok:
            ok = False
            rep.violation("C08-ZEROWIN", "C08-ZEROWIN/push", f"negamax can extend the principal variation with a move whose score `{show(pushed)[:110]}` comes from a zero-window search that was not re-searched with the full window: "
                          "such a score is a bound, and the child line behind it was collected in non-PV nodes (hash cut-offs, pruning), so it may stop short - e.g. of an announced mate",
                          {"fn": neg.name, "file": neg.file, "line": neg.blocks[bb]["term"].get("line")})
    if undecided:
        rep.notes.append(f"C08-ZEROWIN: {undecided} feasible path(s) to pv.push without a recognisable score test; not decided for those")
    rep.rule("C08-ZEROWIN", n, 2, ok, "feasible paths from make_move to pv.push carry a full-window score")


def int_eval(fx, e, env):
    """signed-integer value of a closed-form expression (constants, parameters, + - * / with truncation, negation, widening
    conversions, comparisons as 0/1); `Some(x)` -> ('some', x), `None` -> ('none',); None when outside this fragment"""
    if not isinstance(e, tuple) or not e:
        return None
    k = e[0]
    if k in ("ref", "deref"):
        return int_eval(fx, e[1], env)
    if k == "arg":
        return env.get(e[1])
    if k == "const":
        return int(e[1]) if isinstance(e[1], (int, bool)) else None
    if k == "constpath":
        cv = [v for kk, v in fx.consts.items() if norm(kk) == e[1]]
        return cv[0].get("int") if cv and "int" in cv[0] else None
    if k == "agg":
        tag = str(e[1])
        if tag.endswith("Option::None"):
            return ("none",)
        if tag.endswith("Option::Some") and len(e[2]) == 1:
            v = int_eval(fx, e[2][0], env)
            return None if v is None else ("some", v)
        if len(e[2]) == 1:
            return int_eval(fx, e[2][0], env)      # newtype
        return None
    if k == "field" and e[2] == "0":
        return int_eval(fx, e[1], env)
    if k == "cast":
        return int_eval(fx, e[1], env)
    if k == "unop" and e[1] == "Neg":
        v = int_eval(fx, e[2], env)
        return None if v is None else -v
    if k == "binop":
        a, b = int_eval(fx, e[2], env), int_eval(fx, e[3], env)
        if not isinstance(a, int) or not isinstance(b, int):
            return None
        op = e[1].replace("WithOverflow", "")
        if op == "Div":
            return None if b == 0 else int(a / b)
        return {"Add": a + b, "Sub": a - b, "Mul": a * b, "Gt": int(a > b), "Lt": int(a < b), "Ge": int(a >= b), "Le": int(a <= b),
                "Eq": int(a == b), "Ne": int(a != b)}.get(op)
    if k == "call" and isinstance(e[1], str) and (e[1].endswith("num::from") or e[1].endswith(">::from") or e[1].endswith("::into")) and len(e[2]) == 1:
        return int_eval(fx, e[2][0], env)
    return None


def fn_eval(fx, name, args):
    """value of a small loop-free function for concrete integer arguments, through its extracted paths"""
    b = fx.one(name)
    env = {i + 1: a for i, a in enumerate(args)}
    for conds, ret, last in decision_paths(b, 64):
        if ret is None:
            continue
        ok = True
        for (ce, val) in conds:
            v = int_eval(fx, ce, env)
            if not isinstance(v, int):
                return None
            if isinstance(val, int):
                ok = ok and v == val
            elif isinstance(val, tuple) and val[0] == "otherwise":
                ok = ok and v not in val[1]
        if ok:
            return int_eval(fx, ret, env)
    return None


def rule_mateconv(fx, rep):
    """The reported "mate N" is derived from the score by Eval::is_mate_in_moves; scores are built by mate_in / mated_in(ply).
    For a mate delivered p plies from the root (p odd) the announcement must be (p+1)/2, for being mated in p plies (p even)
    it must be -p/2: then "mate in N" has exactly the matching number of plies. Evaluated on the extracted formulas."""
    ok = True
    n = 0
    bad_ex = None
    undecided = False
    try:
        span = fx.const("player_eval::Eval::MATE").get("int") - fx.const("player_eval::Eval::MATE_THRESHOLD").get("int")
    except Exception:
        span = None
    if not isinstance(span, int) or span < 10:
        rep.notes.append("C08-MATECONV: MATE / MATE_THRESHOLD constants not found; clause not decided")
        rep.rule("C08-MATECONV", 0, 0, True, "not decided")
        return
    # mates up to (MATE - MATE_THRESHOLD - 1) plies are representable as mate scores by the engine's own threshold
    for p in range(1, span):
        if p % 2 == 1:
            sc = fn_eval(fx, "Eval::mate_in", [p])
            want = ("some", (p + 1) // 2)
        else:
            sc = fn_eval(fx, "Eval::mated_in", [p])
            want = ("some", -(p // 2))
        got = fn_eval(fx, "Eval::is_mate_in_moves", [sc]) if isinstance(sc, int) else None
        if sc is None or got is None:
            undecided = True
            break
        n += 1
        good = got == want
        rep.obligation(good)
        if not good and bad_ex is None:
            bad_ex = (p, sc, got, want)
    if undecided:
        rep.notes.append("C08-MATECONV: the mate score conversions are not closed formulas this rule can evaluate; clause not decided")
        rep.rule("C08-MATECONV", 0, 0, True, "not decided")
        return
    # ordinary scores are not announced as mates
    for v in (0, 150, -150, 31900, -31900):
        n += 1
        good = fn_eval(fx, "Eval::is_mate_in_moves", [v]) == ("none",)
        rep.obligation(good)
        if not good and bad_ex is None:
            bad_ex = ("score", v, fn_eval(fx, "Eval::is_mate_in_moves", [v]), ("none",))
    if bad_ex is not None:
        ok = False
        b = fx.one("Eval::is_mate_in_moves")
        rep.violation("C08-MATECONV", "C08-MATECONV/distance", f"mate-score conversion: for {'a mate' if bad_ex[0] != 'score' else 'the score'} {bad_ex[0]} {'plies from the root ' if bad_ex[0] != 'score' else ''}(score {bad_ex[1]}) is_mate_in_moves gives {bad_ex[2]}, expected {bad_ex[3]}: "
                      "the announced mate distance does not match the length of the line", {"fn": b.name, "file": b.file, "line": b.line})
    rep.rule("C08-MATECONV", n, 60, ok, f"mate_in / mated_in / is_mate_in_moves agree for every ply 1..{span - 1}")


def rule_rootret(fx, rep, neg):
    """The root node always searches its moves: every return of negamax that happens before the move loop (draw by rule, hash
    cut-off, tablebase, static pruning, null move) is taken only at non-root nodes - otherwise an iteration would be reported
    with an empty line - except the hand-over to quiescence at depth 0 (the root is searched with depth >= 1)."""
    nxt = neg.calls_to("MovePicker::next")
    if len(nxt) != 1:
        rep.notes.append("C08-ROOTRET: negamax does not contain exactly one MovePicker::next call; clause not decided")
        rep.rule("C08-ROOTRET", 0, 0, True, "not decided")
        return
    loop_bb = nxt[0][0]
    after_loop = neg.reachable(loop_bb)
    ok = True
    n = 0
    for bb, j, st in neg.stmts():
        rv = st.get("rv")
        if not (st["k"] == "assign" and st["lhs"]["l"] == 0 and not st["lhs"].get("p") and rv and rv["k"] == "agg" and rv.get("variant") == "Ok"):
            continue
        if bb in after_loop:
            continue
        n += 1
        nonroot = False
        for (e, pol, w) in guard_conditions(neg, bb, expand_named=True):
            co = cmp_op(e)
            if co and co[0] in ("Eq", "Ne"):
                a, b = deep_strip(co[1]), deep_strip(co[2])
                for x, y in ((a, b), (b, a)):
                    if isinstance(x, tuple) and x[:2] == ("arg", 5) and y == ("const", 0):
                        if (co[0] == "Eq" and pol is False) or (co[0] == "Ne" and pol is True):
                            nonroot = True
        rep.obligation(nonroot)
        if not nonroot:
            ok = False
            rep.violation("C08-ROOTRET", f"C08-ROOTRET/line-{n}", f"negamax line {st.get('line')} returns a score before the move loop without requiring a non-root node (plies != 0): at the root the iteration would end with an empty principal variation",
                          {"fn": neg.name, "file": neg.file, "line": st.get("line")})
    rep.rule("C08-ROOTRET", n, 4, ok, "early returns of negamax only at non-root nodes")


def rule_aspwin(fx, rep):
    """A score returned by the root search is exact (and its line the refreshed one) only when it lies strictly inside the
    window that was searched: aspiration_search may return Ok(eval) only under alpha < eval < beta of the very window it
    passed to negamax. Anything else is a bound whose principal variation is stale (seed C08-2)."""
    asp = fx.one("aspiration::aspiration_search")
    ncalls = asp.calls_to("negamax::negamax")
    if len(ncalls) != 1:
        rep.notes.append("C08-ASPWIN: aspiration_search does not contain exactly one root negamax call; clause not decided")
        rep.rule("C08-ASPWIN", 0, 0, True, "not decided")
        return
    nbb, nt = ncalls[0]
    alpha = deep_strip(asp.expr(nt["args"][1], expand_named=True, at=nbb))
    beta = deep_strip(asp.expr(nt["args"][2], expand_named=True, at=nbb))

    def is_score(e):
        # the payload of the negamax call's Ok result
        return bool(find_calls(e, "negamax::negamax"))
    ok = True
    n = 0
    for bb, j, st in asp.stmts():
        rv = st.get("rv")
        if not (st["k"] == "assign" and st["lhs"]["l"] == 0 and not st["lhs"].get("p") and rv and rv["k"] == "agg" and rv.get("variant") == "Ok"):
            continue
        v = asp.expr(rv["ops"][0], expand_named=True, at=bb)
        if not is_score(v):
            continue
        n += 1
        above_alpha = below_beta = False
        for (e, pol, w) in guard_conditions(asp, bb, expand_named=True):
            co = cmp_op(e)
            if not co or pol not in (True, False):
                continue
            op, a, b2 = co[0], deep_strip(co[1]), deep_strip(co[2])
            # normalise to "score OP bound"
            if is_score(b2) and not is_score(a):
                a, b2 = b2, a
                op = {"Lt": "Gt", "Gt": "Lt", "Le": "Ge", "Ge": "Le"}.get(op, op)
            if not is_score(a):
                continue
            if not pol:
                op = {"Lt": "Ge", "Ge": "Lt", "Gt": "Le", "Le": "Gt", "Eq": "Ne", "Ne": "Eq"}[op]
            if op == "Gt" and b2 == alpha:
                above_alpha = True
            if op == "Lt" and b2 == beta:
                below_beta = True
        # a full-width search (no window) needs no test: both bounds are the type extremes on every path - not assumed here
        good = above_alpha and below_beta
        rep.obligation(good)
        rep.sample({"rule": "C08-ASPWIN", "line": st.get("line"), "above_alpha": above_alpha, "below_beta": below_beta})
        if not good:
            ok = False
            rep.violation("C08-ASPWIN", f"C08-ASPWIN/return/{n}", f"aspiration_search line {st.get('line')} returns the root score without requiring it to lie strictly inside the searched window "
                          f"(alpha < score: {above_alpha}, score < beta: {below_beta}): a fail-high / fail-low score is only a bound and the root line was not refreshed, so a mate can be announced with a line that does not deliver it",
                          {"fn": asp.name, "file": asp.file, "line": st.get("line")})
    if n == 0:
        rep.notes.append("C08-ASPWIN: no `Ok(score)` return of the root negamax result found in aspiration_search; clause not decided")
    rep.rule("C08-ASPWIN", n, 0, ok, "root score returned only from inside the searched window")


def is_pv_expr(neg, e):
    co = cmp_op(e)
    if not co or co[0] != "Ne":
        return False
    a, b = deep_strip(co[1]), deep_strip(co[2])
    for x, y in ((a, b), (b, a)):
        if isinstance(x, tuple) and x[0] == "arg" and x[1] == 2 and isinstance(y, tuple) and y[0] == "call" and y[1].endswith("Sub>::sub"):
            p, q = deep_strip(y[2][0]), deep_strip(y[2][1])
            if p == ("arg", 3, neg.local_name(3)) and isinstance(q, tuple) and q[0] == "agg" and q[2] == (("const", 1),):
                return True
    return False


def tablebase_guarded(neg, bb):
    for (e, pol, where) in guard_conditions(neg, bb, expand_named=True):
        if find_calls(e, "Tablebase::n_men") or find_calls(e, "Tablebase::wdl"):
            return True
    return False


def prune_relevant(e):
    if find_calls(e, "eval::eval"):
        return "static evaluation"
    for x in walk(e):
        if isinstance(x, tuple) and len(x) == 3 and x[0] == "field" and x[2] in ("depth", "eval", "bound") and find_calls(x[1], "TranspositionTable::get"):
            return f"hash entry {x[2]}"
    return None


def rule_pvguard(fx, rep, neg):
    ok = True
    n = 0
    found_flag = False
    for i in sorted(neg.live_blocks()):
        t = neg.blocks[i]["term"]
        if t["k"] != "switch":
            continue
        e = neg.expr(t["discr"], expand_named=True)
        if is_pv_expr(neg, e):
            found_flag = True
        why = prune_relevant(e)
        if why is None or tablebase_guarded(neg, i):
            continue
        n += 1
        good = False
        for (ge, pol, where) in guard_conditions(neg, i, expand_named=True):
            if is_pv_expr(neg, ge) and pol is False:
                good = True
        rep.obligation(good)
        rep.sample({"rule": "C08-PVGUARD", "branch_on": why, "line": t.get("line"), "under_not_pv": good})
        if not good:
            ok = False
            rep.violation("C08-PVGUARD", f"C08-PVGUARD/{why.replace(' ', '-')}/{ordinal(neg, i, why)}",
                          f"negamax line {t.get('line')}: a branch on the {why} (`{show(e)[:100]}`) is not restricted to non-PV nodes: a PV node can be cut off, so the reported line may end in a node that was never searched",
                          {"fn": neg.name, "file": neg.file, "line": t.get("line")})
    rep.obligation(found_flag)
    if not found_flag:
        ok = False
        rep.violation("C08-PVGUARD", "C08-PVGUARD/flag", "negamax has no PV-node flag of the form `alpha != beta - Eval(1)`", {"fn": neg.name, "file": neg.file, "line": neg.line})
    rep.rule("C08-PVGUARD", n, 3, ok, "branches on static eval / hash-entry contents under !is_pv")


def ordinal(neg, bb, why):
    same = []
    for i in sorted(neg.live_blocks()):
        t = neg.blocks[i]["term"]
        if t["k"] == "switch" and prune_relevant(neg.expr(t["discr"], expand_named=True)) == why:
            same.append(i)
    return same.index(bb) + 1


def rule_pvpush(fx, rep, neg):
    ok = True
    n = 0

    def bad(key, msg, line=None):
        nonlocal ok
        ok = False
        rep.violation("C08-PVPUSH", f"C08-PVPUSH/{key}", msg, {"fn": neg.name, "file": neg.file, "line": line or neg.line})

    pushes = neg.calls_to("PrincipalVariation::push")
    undo = [bb for bb, t in neg.calls_to("Game::undo_move")]
    sites = [s for s in sh.recursive_sites(fx) if s[0].name == neg.name and s[3].name == neg.name]
    # which local is the per-node child PV: the one handed to push as child and to the children as &mut
    for pb, pt in pushes:
        n += 1
        good, why = True, ""
        recv = deep_strip(neg.expr(pt["args"][0], expand_named=False))
        mv = neg.expr(pt["args"][1], expand_named=False)
        child = deep_strip(neg.expr(pt["args"][2], expand_named=False))
        if recv != ("arg", 6, neg.local_name(6)):
            good, why = False, f"push writes `{show(recv)}`, not the caller's PV"
        # guard move_score > alpha
        g_ok = False
        for (e, pol, where) in guard_conditions(neg, pb, expand_named=False):
            co = cmp_op(e)
            if co:
                a, b = deep_strip(co[1]), deep_strip(co[2])
                if ((co[0] == "Gt" and pol is True and b == ("arg", 2, neg.local_name(2))) or (co[0] == "Lt" and pol is True and a == ("arg", 2, neg.local_name(2)))):
                    score = a if co[0] == "Gt" else b
                    # the score derives from a child search result
                    sl, recs = neg.slice_back([score[2]] if isinstance(score, tuple) and score[0] in ("var", "tmp") else [])
                    if any(r[1][0] == "call" and fx.body(callee_name(r[1][2]) or "") is not None and fx.body(callee_name(r[1][2])).name == neg.name for r in recs):
                        g_ok = True
        if good and not g_ok:
            good, why = False, "the PV is extended without `move_score > alpha` for a score that came from the child search"
        if good and not any(neg.block_dominates(u, pb) for u in undo):
            good, why = False, "the PV is extended before the move is unmade"
        # the pushed move is the one made
        mk = neg.calls_to("Game::make_move")
        if good and not any(neg.expr(t["args"][1], expand_named=False) == mv for bb, t in mk):
            good, why = False, f"the move pushed (`{show(mv)}`) is not the move that was made"
        # child PV cleared before each child call that receives it, inside the loop
        clears = [bb for bb, t in neg.calls_to("PrincipalVariation::clear") if deep_strip(neg.expr(t["args"][0], expand_named=False)) == child]
        for (b, bb, t, cb) in sites:
            a = deep_strip(neg.expr(t["args"][5], expand_named=False))
            if a == child:
                if not any(neg.block_dominates(c, bb) and c in neg.reachable(neg.succs()[bb][0] if neg.succs()[bb] else bb) for c in clears):
                    good, why = False, f"the child PV handed to the search at line {t.get('line')} is not cleared at the top of each loop iteration (stale moves of a previous child would be appended)"
        if good and not any(deep_strip(neg.expr(t["args"][5], expand_named=False)) == child for (b, bb, t, cb) in sites):
            good, why = False, "the child PV appended is not the one the child searches fill"
        rep.obligation(good)
        if not good:
            bad("push", f"negamax line {pt.get('line')}: {why}", pt.get("line"))
    # null-move search: throw-away PV
    n += 1
    good = False
    nm = [bb for bb, t in neg.calls_to("Game::make_null_move")]
    um = [bb for bb, t in neg.calls_to("Game::undo_null_move")]
    for (b, bb, t, cb) in sites:
        if nm and um and neg.block_dominates(nm[0], bb) and neg.block_dominates(bb, um[0]):
            e = neg.expr(t["args"][5], expand_named=True)
            good = bool(find_calls(e, "PrincipalVariation::new"))
    rep.obligation(good)
    if not good:
        bad("null-move-pv", "the null-move search is not given a fresh, throw-away PrincipalVariation")
    rep.rule("C08-PVPUSH", n, 2, ok, "PV extension discipline")


def conv_shape(fx, fn):
    """[(cmp op, threshold const, arithmetic op)] of a mate-distance conversion."""
    b = fx.one(fn)
    out = []
    for i in sorted(b.live_blocks()):
        t = b.blocks[i]["term"]
        if t["k"] != "switch":
            continue
        for (tg, e, pol, v) in switch_edge_conds(b, i):
            if pol is not True:
                continue
            co = cmp_op(e)
            if not co:
                continue
            thr = [x for x in (deep_strip(co[1]), deep_strip(co[2])) if isinstance(x, tuple) and x[0] in ("const", "constpath")]
            # arithmetic on the true edge
            ops = []
            cur, seen = tg, set()
            while cur is not None and cur not in seen:
                seen.add(cur)
                if cur != tg and len(b.preds()[cur]) > 1:
                    break
                for s in b.blocks[cur]["stmts"]:
                    rv = s.get("rv")
                    if rv and rv["k"] == "binop" and rv["op"] in ("AddWithOverflow", "SubWithOverflow", "Add", "Sub"):
                        ops.append(rv["op"][:3])
                if b.blocks[cur]["term"]["k"] == "switch":
                    break
                nx = b.succ(cur)
                cur = nx[0] if len(nx) == 1 else None
            out.append((co[0], thr[0] if thr else None, tuple(ops[:1])))
    return out


def rule_matedist(fx, rep, neg):
    ok = True
    n = 0

    def bad(key, msg, line=None):
        nonlocal ok
        ok = False
        rep.violation("C08-MATEDIST", f"C08-MATEDIST/{key}", msg, {"fn": neg.name, "file": neg.file, "line": line or neg.line})

    plies = ("arg", 5, neg.local_name(5))
    # stores
    for bb, j, s in neg.stmts():
        rv = s.get("rv")
        if s["k"] == "assign" and rv and rv["k"] == "agg" and rv.get("agg") == "adt" and norm(rv["adt"]).endswith("SearchTranspositionTableData"):
            if tablebase_guarded(neg, bb):
                continue
            n += 1
            m = dict(zip(rv["fields"], rv["ops"]))
            e = strip_refs(neg.expr(m["eval"], expand_named=True, at=bb))
            good = isinstance(e, tuple) and e[0] == "call" and e[1].endswith("Eval::with_mate_distance_from_position") and deep_strip(e[2][1]) == plies
            rep.obligation(good)
            if not good:
                bad("store", f"negamax line {s.get('line')}: the score stored in the hash table is `{show(e)[:80]}`, not best_eval.with_mate_distance_from_position(plies): mate distances are then wrong when the entry is reused at another ply", s.get("line"))
    # hash-hit returns
    n_hits = 0
    for bb, j, s in neg.stmts():
        rv = s.get("rv")
        if s["k"] == "assign" and s["lhs"]["l"] == 0 and rv and rv["k"] == "agg" and rv.get("variant") == "Ok":
            # is this return controlled by hash-entry contents?
            conds = guard_conditions(neg, bb, expand_named=True)
            if not any(prune_relevant(e) and prune_relevant(e).startswith("hash entry") for (e, pol, w) in conds) or tablebase_guarded(neg, bb):
                continue
            n += 1
            n_hits += 1
            e = strip_refs(neg.expr(rv["ops"][0], expand_named=True, at=bb))
            good = isinstance(e, tuple) and e[0] == "call" and e[1].endswith("Eval::with_mate_distance_from_root") and deep_strip(e[2][1]) == plies and \
                any(isinstance(x, tuple) and len(x) == 3 and x[0] == "field" and x[2] == "eval" for x in walk(e[2][0]))
            rep.obligation(good)
            if not good:
                bad("hit", f"negamax line {s.get('line')}: a hash hit returns `{show(e)[:80]}`, not tt_entry.eval.with_mate_distance_from_root(plies)", s.get("line"))
    # mirror images
    n += 1
    p = conv_shape(fx, "Eval::with_mate_distance_from_position")
    r = conv_shape(fx, "Eval::with_mate_distance_from_root")
    flip = {"Add": "Sub", "Sub": "Add"}
    good = len(p) == len(r) == 2 and all(a[0] == b[0] and a[1] == b[1] and len(a[2]) == 1 and len(b[2]) == 1 and flip.get(a[2][0]) == b[2][0] for a, b in zip(p, r))
    # and the positive branch of from_position adds (further from mate when stored relative to the node)
    good = good and any(a[0] == "Gt" and a[2] == ("Add",) for a in p) and any(a[0] == "Lt" and a[2] == ("Sub",) for a in p)
    if not p or not r:
        rep.notes.append("C08-MATEDIST: the two mate-distance conversions are not `if value > / < threshold { value +- plies }` on the score itself (the tests may sit in predicate helpers); the mirror clause is not decided")
        good = True
    rep.obligation(good)
    rep.sample({"rule": "C08-MATEDIST", "from_position": [str(x) for x in p], "from_root": [str(x) for x in r]})
    if not good:
        bad("mirror", f"with_mate_distance_from_position {p} and with_mate_distance_from_root {r} are not mirror images (same thresholds, opposite adjustments)")
    if n_hits == 0:
        rep.notes.append("C08-MATEDIST: no return of negamax is visibly controlled by the hash entry's contents (the cut-off may sit in a helper or closure); the hit conversion is not decided")
    rep.rule("C08-MATEDIST", n, 2, ok, "mate-distance conversion on store / hit, mirrored conversions")


def rule_depth(fx, rep):
    ok = True
    n = 0
    idb = fx.one("search::iterative_deepening::search")

    def bad(key, msg, line=None):
        nonlocal ok
        ok = False
        rep.violation("C08-DEPTH", f"C08-DEPTH/{key}", msg, {"fn": idb.name, "file": idb.file, "line": line or idb.line})

    reports = [(bb, t) for bb, t in idb.calls() if norm(callee_name(t) or "").endswith("report_search_progress")]
    n += 1
    rep.obligation(len(reports) == 1)
    if len(reports) != 1:
        bad("reports", f"iterative deepening has {len(reports)} report sites (expected one per iteration)")
    # the SearchInfo literal: in the iteration loop itself, or in a private helper it calls (the helper's parameters are then
    # replaced by the call's arguments)
    from facts import substitute_args
    lits = []
    for bb, j, s in idb.stmts():
        rv = s.get("rv")
        if s["k"] == "assign" and rv and rv["k"] == "agg" and rv.get("agg") == "adt" and norm(rv["adt"]).endswith("search::SearchInfo"):
            lits.append((idb.expr(dict(zip(rv["fields"], rv["ops"]))["depth"], expand_named=True, at=bb), s))
    for cbb, ct in idb.calls():
        hb = fx.body(callee_name(ct)) if callee_name(ct) else None
        if hb is None or hb is idb or not norm(hb.name).startswith("engine::search::") or hb.kind == "Closure":
            continue
        for hbb, hj, hs in hb.stmts():
            rv = hs.get("rv")
            if hs["k"] == "assign" and rv and rv["k"] == "agg" and rv.get("agg") == "adt" and norm(rv["adt"]).endswith("search::SearchInfo"):
                he = hb.expr(dict(zip(rv["fields"], rv["ops"]))["depth"], expand_named=True, at=hbb)
                actual = tuple(idb.expr(a, expand_named=True, at=cbb) for a in ct["args"])
                lits.append((substitute_args(he, actual), {"line": ct.get("line")}))
    for e, s in lits:
        if True:
            n += 1
            rng = [x for x in walk(e) if isinstance(x, tuple) and x and x[0] == "call" and isinstance(x[1], str) and x[1].endswith("RangeInclusive::new")]
            nxt = find_calls(e, "Iterator>::next", "range::next", "RangeInclusive<A>>::next", "iter::range::next")
            d = deep_strip(e)
            direct = isinstance(d, tuple) and d[0] == "field" and d[2] == "0" and isinstance(d[1], tuple) and d[1][0] == "as" and d[1][2] == "Some" and \
                isinstance(d[1][1], tuple) and d[1][1][0] == "call" and d[1][1] in [deep_strip(x) for x in nxt]
            good = bool(rng) and bool(nxt) and direct
            why = f"SearchInfo.depth is `{show(e)[:100]}`, not the iteration variable itself"
            if good:
                lo, hi = deep_strip(rng[0][2][0]), deep_strip(rng[0][2][1])
                lim = isinstance(hi, tuple) and hi[0] == "call" and hi[1].endswith("Option::unwrap_or") and \
                    any(isinstance(x, tuple) and len(x) == 3 and x[0] == "field" and x[2] == "depth" for x in walk(hi))
                good = lo == ("const", 1) and lim
                why = f"the iteration range is {show(lo)}..={show(hi)[:80]}, expected 1..=search_restrictions.depth.unwrap_or(MAX)"
            rep.obligation(good)
            if not good:
                bad("depth-field", why, s.get("line"))
    # report only after the aspiration search returned Ok, in the same iteration
    for (rb, rt) in reports:
        n += 1
        sites = [s for s in sh.recursive_sites(fx) if s[0].name == idb.name]
        good = False
        for (b, bb, t, cb) in sites:
            rs = sh.result_switch(idb, bb, t)
            if rs and rs[0] != "tail":
                sw, ok_t, err_t, between = rs
                good = idb.edge_dominates(sw, ok_t, rb)
        rep.obligation(good)
        if not good:
            bad("after-ok", "a search progress report is not dominated by the Ok edge of the iteration's aspiration search", rt.get("line"))
    # the requested limit reaches the iteration range: every SearchRestrictions value built in the go handler takes its depth from
    # the command's own `depth` argument - whatever time control is selected alongside (seed C08-6b: `go depth 2 movetime 1500`
    # searched without the depth limit because only the untimed arm kept it)
    import pC05
    ex = fx.one("uci::Uci::execute")
    arms = pC05.arm_regions(fx, ex)
    if "Go" in arms:
        _entry, region = arms["Go"]
        built = []
        for bb in sorted(region):
            for j, st in enumerate(ex.blocks[bb]["stmts"]):
                rv = st.get("rv")
                if st["k"] == "assign" and rv and rv["k"] == "agg" and rv.get("agg") == "adt" and norm(rv["adt"]).endswith("search::SearchRestrictions"):
                    m = dict(zip(rv["fields"], rv["ops"]))
                    e = ex.expr(m["depth"], expand_named=True, at=bb) if "depth" in m else None
                    from_cmd = e is not None and any(isinstance(x, tuple) and len(x) == 3 and x[0] == "field" and x[2] == "depth" and
                                                     any(isinstance(y, tuple) and len(y) == 3 and y[0] == "as" and y[2] == "Go" for y in walk(x[1])) for x in walk(e))
                    built.append((from_cmd, st.get("line"), show(e)[:80] if e is not None else None))
            t = ex.blocks[bb]["term"]
            if t["k"] == "call" and (ex.local_ty(t["dest"]["l"]) or "").endswith("search::SearchRestrictions") and not t["dest"].get("p"):
                built.append((False, t.get("line"), norm(callee_name(t) or "?").split("::")[-1] + "()"))
        if not built:
            rep.notes.append("C08-DEPTH: no SearchRestrictions value is built in the go handler itself; the wiring of the requested depth is not decided")
        for from_cmd, line, what in built:
            n += 1
            rep.obligation(from_cmd)
            if not from_cmd:
                bad("limit-dropped", f"uci line {line}: a SearchRestrictions value is built with depth `{what}`, not the `depth` argument of the go command: on that path a requested depth limit is ignored")
    rep.rule("C08-DEPTH", n, 3, ok, "reported depth is the iteration variable; one report per completed iteration; the requested limit reaches the range")


def rule_mate(fx, rep, neg):
    ok = True
    n = 0

    def bad(key, msg, line=None):
        nonlocal ok
        ok = False
        rep.violation("C08-MATE", f"C08-MATE/{key}", msg, {"fn": neg.name, "file": neg.file, "line": line or neg.line})

    # the legal-move counter: a local incremented by 1 right where make_move is called
    mk = neg.calls_to("Game::make_move")
    counter = None
    for bb, j, s in neg.stmts():
        rv = s.get("rv")
        if s["k"] == "assign" and rv and rv["k"] == "binop" and rv["op"] == "AddWithOverflow" and rv["b"].get("int") == 1 and "pl" in rv["a"] and not rv["a"]["pl"].get("p"):
            l = rv["a"]["pl"]["l"]
            if any(neg.block_dominates(mb, bb) and neg.must_pass(mb, [bb], [x for x, _ in neg.calls_to("Game::undo_move")]) for mb, _ in mk) and neg.local_ty(l) == "usize":
                counter = l
    n += 1
    rep.obligation(counter is not None)
    if counter is None:
        bad("counter", "no legal-move counter incremented together with make_move was found")
        rep.rule("C08-MATE", n, 3, False)
        return
    cname = neg.local_name(counter)

    def is_counter_cmp(e, op, val):
        co = cmp_op(e)
        if not co:
            return False
        a, b = deep_strip(co[1]), deep_strip(co[2])
        return co[0] == op and isinstance(a, tuple) and a[0] in ("var", "tmp") and a[-1] == counter and b == ("const", val)

    # mate / stalemate returns only under counter == 0
    for bb, t in neg.calls_to("Eval::mated_in"):
        if tablebase_guarded(neg, bb):
            continue
        n += 1
        conds = guard_conditions(neg, bb, expand_named=False)
        zero = any(is_counter_cmp(e, "Eq", 0) and pol is True for (e, pol, w) in conds)
        chk = any(isinstance(e, tuple) and e[0] == "call" and e[1].endswith("is_king_in_check") and pol is True for (e, pol, w) in conds)
        good = zero and chk
        rep.obligation(good)
        if not good:
            bad("mated", f"negamax line {t.get('line')}: a mated score is returned without both `{cname} == 0` and `is_king_in_check()` holding", t.get("line"))
        # mated at this node's own distance from the root
        n += 1
        ply = deep_strip(neg.expr(t["args"][0], expand_named=True, at=bb))
        good = isinstance(ply, tuple) and ply[:2] == ("arg", 5)
        rep.obligation(good)
        if not good:
            bad("mated-ply", f"negamax line {t.get('line')}: the mated score is built for `{show(ply)[:60]}`, not for this node's ply: the announced mate distance no longer matches the line's length", t.get("line"))
    # skips (continue without make_move) only when counter > 0
    nxt = neg.calls_to("MovePicker::next")
    n += 1
    good, why = len(nxt) == 1 and len(mk) == 1, "expected one MovePicker::next and one make_move in negamax"
    if good:
        nb, mb = nxt[0][0], mk[0][0]
        skip_from = neg.reachable(nxt[0][1]["target"], removed_blocks=[mb])
        if nb in skip_from:
            # committing edges: switch edges a->t inside skip_from where t cannot reach make_move before returning to next
            for a in sorted(skip_from):
                t = neg.blocks[a]["term"]
                if t["k"] != "switch":
                    continue
                for (tg, e, pol, v) in switch_edge_conds(neg, a, expand_named=False):
                    r = neg.reachable(tg, removed_blocks=[nb])
                    if mb in r or not (nb in neg.reachable(tg)):
                        continue
                    # tg commits to skipping (or leaving the loop); only skipping matters: nb reachable directly
                    if nb not in neg.reachable(tg, removed_blocks=[mb]):
                        continue
                    conds = guard_conditions(neg, a, expand_named=False) + [(e, pol, (a, v))]
                    if tg in neg.reachable(nxt[0][1]["target"], removed_blocks=[mb]) and is_loop_exit(neg, tg, nb):
                        continue
                    if not any(is_counter_cmp(ce, "Gt", 0) and cp is True for (ce, cp, w) in conds):
                        good, why = False, f"a move can be skipped (line {t.get('line')}) although no move has been searched yet: a position whose moves are all skipped would be scored as mate/stalemate"
    rep.obligation(good)
    if not good:
        bad("skip", why)
    rep.rule("C08-MATE", n, 3, ok, "mate scores only with zero legal moves; skips only after a searched move")


def is_loop_exit(neg, tg, nb):
    return False


NG = "src/engine/search/negamax.rs"
ID = "src/engine/search/iterative_deepening.rs"
PE = "src/engine/eval/player_eval.rs"
def _c03_mutant(tag, expect):
    import pC03
    m = next(m for m in pC03.MUTANTS if tag in m["name"])
    return {"name": m["name"], "expect": expect, "edits": m["edits"]}


MUTANTS = [
    {"name": "quiescence returns stored scores out of a table probe (seed C08-10a)", "expect": "C08-PVGUARD/quiescence/probe",
     "edits": __import__("shared_mutants").edits_from_patch("seeded/C08-10a/patch.diff")},
    {"name": "the UCI reporter prints at most `depth` moves of the line (seed C08-9a)", "expect": "C08-REPORT/uci_report_search_progress/take",
     "edits": __import__("shared_mutants").edits_from_patch("seeded/C08-9a/patch.diff")},
    {"name": "timed searches built without the requested depth limit (seed C08-6b)", "expect": "C08-DEPTH/limit-dropped",
     "edits": [("src/engine/uci/mod.rs", "                let search_restrictions = SearchRestrictions { depth: *depth };", "                let search_restrictions = if matches!(time_control, TimeControl::Infinite) {\n                    SearchRestrictions { depth: *depth }\n                } else {\n                    SearchRestrictions::default()\n                };")]},
    _c03_mutant("seed C08-5b", "C08-KEY/SCRATCH/right/loop-colour"),
    {"name": "reduced zero-window result accepted after a second zero-window search (seed C08-4a)", "expect": "C08-ZEROWIN",
     "edits": [("src/engine/search/negamax.rs", "            if pvs_score > alpha && pvs_score < beta {\n                -negamax(game, -beta, -alpha, depth - 1, plies + 1, &mut node_pv, ctx)?", "            if pvs_score > alpha && reduction > 1 {\n                -negamax(game, -alpha - Eval(1), -alpha, depth - 1, plies + 1, &mut node_pv, ctx)?\n            } else if pvs_score > alpha && pvs_score < beta {\n                -negamax(game, -beta, -alpha, depth - 1, plies + 1, &mut node_pv, ctx)?")]},
    {"name": "quiescence announces mates itself (seed C08-4b)", "expect": "C08-MATESRC/quiescence",
     "edits": [("src/engine/search/quiescence.rs", "    let eval = eval::eval(game);\n\n    if eval >= beta {", "    if game.is_king_in_check() && game.moves().is_empty() {\n        return Ok(Eval::mated_in(plies));\n    }\n\n    let eval = eval::eval(game);\n\n    if eval >= beta {")]},
    {"name": "mate distance announced without rounding up", "expect": "C08-MATECONV",
     "edits": [("src/engine/eval/player_eval.rs", "            return Some((Self::MATE - self.0 + 1) / 2);", "            return Some((Self::MATE - self.0) / 2);")]},
    {"name": "being mated announced with the wrong sign", "expect": "C08-MATECONV",
     "edits": [("src/engine/eval/player_eval.rs", "            return Some((Self::MATED - self.0) / 2);", "            return Some((self.0 - Self::MATED) / 2);")]},
    {"name": "draw-by-rule test also taken at the root", "expect": "C08-ROOTRET",
     "edits": [("src/engine/search/negamax.rs", "    if !is_root\n        && (game.is_repeated_position()", "    if (plies < 200)\n        && (game.is_repeated_position()")]},
    {"name": "mated score built for the next ply", "expect": "C08-MATE/mated-ply",
     "edits": [("src/engine/search/negamax.rs", "            Eval::mated_in(plies)\n        } else {\n            Eval::DRAW\n        });", "            Eval::mated_in(plies + 1)\n        } else {\n            Eval::DRAW\n        });")]},
    {"name": "aspiration returns a mate score from outside the window (seed C08-2)", "expect": "C08-ASPWIN",
     "edits": [("src/engine/search/aspiration.rs", "        if eval <= window.alpha {\n            window.widen_down();", "        if eval.is_mate_in_moves().is_some() {\n            return Ok(eval);\n        }\n\n        if eval <= window.alpha {\n            window.widen_down();")]},
    {"name": "aspiration accepts a score equal to beta", "expect": "C08-ASPWIN",
     "edits": [("src/engine/search/aspiration.rs", "        } else if eval >= window.beta {", "        } else if eval > window.beta {")]},
    {"name": "hash cut-off allowed in PV nodes", "expect": "C08-PVGUARD/hash-entry",
     "edits": [(NG, "        if !is_root && !is_pv && tt_entry.depth >= depth {", "        if !is_root && tt_entry.depth >= depth {")]},
    {"name": "reverse futility / null move in PV nodes", "expect": "C08-PVGUARD/static-evaluation",
     "edits": [(NG, "    if !is_root && !is_pv && !in_check {", "    if !is_root && !in_check {")]},
    {"name": "futility pruning in PV nodes", "expect": "C08-PVGUARD/static-evaluation",
     "edits": [(NG, "        if number_of_legal_moves > 0\n            && !is_pv\n            && !mv.is_capture()", "        if number_of_legal_moves > 0\n            && !mv.is_capture()")]},
    {"name": "PV extended on beta cutoff too (>=)", "expect": "C08-PVPUSH",
     "edits": [(NG, "        if move_score >= beta {\n            tt_node_bound = NodeBound::Lower;\n            break;\n        }", "        if move_score >= beta {\n            tt_node_bound = NodeBound::Lower;\n            pv.push(mv, &node_pv);\n            break;\n        }")]},
    {"name": "child PV not cleared per move", "expect": "C08-PVPUSH",
     "edits": [(NG, "        node_pv.clear();\n", "")]},
    {"name": "best_eval stored raw", "expect": "C08-MATEDIST/store",
     "edits": [(NG, "        eval: best_eval.with_mate_distance_from_position(plies),", "        eval: best_eval,")]},
    {"name": "hash hit returns raw score", "expect": "C08-MATEDIST/hit",
     "edits": [(NG, "            let tt_score = tt_entry.eval.with_mate_distance_from_root(plies);", "            let tt_score = tt_entry.eval;")]},
    {"name": "mate-distance conversions both add", "expect": "C08-MATEDIST/mirror",
     "edits": [(PE, "        if adjusted_value > Self::MATE_THRESHOLD {\n            adjusted_value -= i16::from(plies);\n        }", "        if adjusted_value > Self::MATE_THRESHOLD {\n            adjusted_value += i16::from(plies);\n        }")]},
    {"name": "reported depth off by one", "expect": "C08-DEPTH/depth-field",
     "edits": [(ID, "            SearchInfo {\n                depth,", "            SearchInfo {\n                depth: depth + 1,")]},
    {"name": "futility may skip the first move", "expect": "C08-MATE/skip",
     "edits": [(NG, "        if number_of_legal_moves > 0\n            && !is_pv", "        if !is_pv")]},
    {"name": "benign: is_pv computed via helper locals", "benign": True,
     "edits": [(NG, "    let is_pv = alpha != beta - Eval(1);", "    let null_window_alpha = beta - Eval(1);\n    let is_pv = alpha != null_window_alpha;")]},
]
