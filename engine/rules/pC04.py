"""C04 — a search always answers with one legal move and never crashes: C04-CONE (panic-site cone of
search::search), C04-EVALOP (score arithmetic at call sites incl. the clamp-then-arith discipline), C04-RET
(DESIGN.md §3)."""
import collections

from facts import norm, show, walk, strip_refs, deep_strip, callee_name, find_calls, guard_conditions, cmp_op
import classes as C
import intervals as iv
import panics
import pC09

EXPLANATION = (
    "Decides the absence of reachable, undischarged crash sites in the call-graph cone of search::search, not "
    "termination and not the legality of an unverified hash move: (CONE) every panic-capable site of the cone "
    "(overflow / division / bounds asserts that checked builds contain and optimised builds turn into silent "
    "wrap-around, unwrap/expect/panic!/unreachable!, ArrayVec capacity, indexing, unchecked operations) is discharged "
    "by an interval argument over constants and dominating guards or by a named class rule with a stated reason; a "
    "site matching no rule is reported; (EVALOP) every call of the unchecked +,-,* of the score types is classified, a "
    "field that can hold a type extreme (Eval::MIN/MAX, clamp results) or that accumulates its own result must not "
    "be an operand; (RET) search returns the PV's first move or the move picker's first move. Exempt, with stated "
    "assumptions: code that runs only with tablebases enabled and the terminal pretty-printer."
)

EXEMPT_SUFFIXES = ("search::get_tablebase_pv", "Tablebase::wdl", "Tablebase::best_move", "Tablebase::to_wdl", "Tablebase::set_paths",
                   "UciReporter::pretty_report_search_progress", "UciReporter::pretty_best_move")


def exempt_roots(fx):
    out = set()
    for s in EXEMPT_SUFFIXES:
        for b in fx.find(s):
            out.add(b.name)
    return out


def discharge(site, fx, extra_classes=()):
    why = panics.auto_discharge(site, fx)
    if why:
        return ("auto", why, "checked")
    if C.interval_ok(site, fx):
        return ("interval", "result range fits the type (constants, widenings and dominating guards)", "checked")
    for (name, pred, reason, kind) in list(extra_classes) + C.CLASSES:
        try:
            if pred(site, fx):
                if kind == "deny":
                    # a belief of the general table that does not hold in this cone's input domain
                    return None
                return (name, reason, kind)
        except Exception as e:  # a predicate must never crash the check: treat as not matching
            continue
    return None


def run_cone(fx, rep, rid, roots, stop, floor_sites, extra_classes=(), floors=None):
    cone, sites = panics.enumerate_cone(fx, roots, stop=stop)
    rep.analysed[f"{rid}_cone_bodies"] = len(cone)
    by_class = collections.Counter()
    kinds = collections.Counter()
    ok = True
    seen_keys = collections.Counter()
    for s in sites:
        d = discharge(s, fx, extra_classes)
        rep.obligation(d is not None)
        if d is None:
            ok = False
            seen_keys[s.key()] += 1
            k = f"{rid}/{s.key()}" + (f"/{seen_keys[s.key()]}" if seen_keys[s.key()] > 1 else "")
            rep.violation(rid, k, f"undischarged panic site: {s.describe()} — no interval argument and no class rule covers it "
                          f"(checked builds panic here, optimised builds wrap or index out of range)",
                          {"fn": s.body.name, "file": s.body.file, "line": s.line})
        else:
            by_class[d[0]] += 1
            kinds[d[2]] += 1
            if by_class[d[0]] <= 1:
                rep.sample({"rule": rid, "class": d[0], "kind": d[2], "reason": d[1], "example": s.describe()[:160]})
    rep.analysed[f"{rid}_classes"] = dict(by_class)
    rep.analysed[f"{rid}_kinds"] = dict(kinds)
    # class floors: a class that silently matches nothing (or much less than confirmed) fails the check
    for cname, fl in (floors or {}).items():
        if by_class.get(cname, 0) < fl:
            ok = False
            rep.violation(rid, f"{rid}/class-floor/{cname}", f"class `{cname}` matched {by_class.get(cname, 0)} site(s), fewer than the {fl} confirmed by reading", {})
    assumed = [n for (n, p, r, k) in C.CLASSES if k == "assumption" and by_class.get(n)]
    for a in assumed:
        rep.assume(next(r for (n, p, r, k) in C.CLASSES if n == a) + f" [{by_class[a]} site(s)]")
    rep.rule(rid, len(sites), floor_sites, ok, f"panic sites in a cone of {len(cone)} bodies; classes used: {len(by_class)}; by kind {dict(kinds)}")
    return cone, sites


FLOORS = {"movelist-capacity": 12, "piece-on-move-square": 4, "undo-after-make": 2, "table-lookup": 15, "ply-255": 4, "wide-counter": 8, "opimpl-forwarded": 8}


def run(fx, rep, tier):
    search = fx.one("engine::search::search")
    stop = exempt_roots(fx)
    rep.assume("tablebases are off unless a SyzygyPath is set: code reached only with tablebases enabled is exempt")
    rep.assume("the terminal pretty-printer (SAN output, used only when stdin is a terminal) is exempt; UCI output is analysed")
    rep.assume("a hash move is played without a legality test, relying on 64-bit key equality (probabilistic; outside static reach)")
    # the time limits of a search are set up by TimeStrategy::new (run by the go handler just before the search starts)
    tsnew = fx.one("TimeStrategy::new")
    cone, sites = run_cone(fx, rep, "C04-CONE", [search.name, tsnew.name], stop, 200, floors=FLOORS)
    rule_evalop(fx, rep, cone)
    pC09.rule_fallback(fx, rep) if False else rule_ret(fx, rep)
    rule_root(fx, rep)
    rule_goargs(fx, rep)


def rule_goargs(fx, rep):
    """C04-GOARGS. "Under any time limit ... returns a move": GUIs send negative clocks once the engine has overstepped its time;
    a parser that refuses them turns the whole `go` into an unknown command, no search starts and no move is returned. This is
    C05-GOARGS (the clocks are read by a signed parser), re-reported as a premise of this property."""
    import core
    import pC05
    sub = type(rep)(rep.prop, rep.tier)
    q = core.QUIET
    core.QUIET = True
    try:
        pC05.rule_goargs(fx, sub)
    finally:
        core.QUIET = q
    for v in sub.violations:
        rep.violation("C04-GOARGS", v["key"].replace("C05-GOARGS", "C04-GOARGS"), v["msg"], v["site"])
    rep.obligations += sub.obligations
    rep.discharged += sub.discharged
    rep.rule("C04-GOARGS", sub.obligations, 0, not sub.violations, "the clock arguments of go are read by a signed parser (shared with C05-GOARGS)")


# ---- C04-EVALOP ------------------------------------------------------------------------------


def risky_impls(fx):
    """operator impls of the score types that contain an overflow assert"""
    out = {}
    for k, b in fx.bodies.items():
        if C.OPIMPL_RE.match(norm(k)):
            if any(b.blocks[i]["term"]["k"] == "assert" and b.blocks[i]["term"]["msg"] in ("Overflow", "OverflowNeg", "DivisionByZero") for i in b.live_blocks()):
                out[b.name] = b
    return out


def field_of_operand(body, op, bb):
    """(adt, field) if the operand is (a copy of) a struct field read"""
    seen = set()
    cur = op
    while cur is not None and "pl" in cur:
        pl = cur["pl"]
        flds = [p for p in pl.get("p", []) if isinstance(p, dict) and "n" in p and "adt" in p]
        if flds:
            return norm(flds[-1]["adt"]), flds[-1]["n"]
        l = pl["l"]
        if l in seen:
            return None
        seen.add(l)
        ds = body.reaching_defs(l, bb)
        if len(ds) == 1 and ds[0][0] == "stmt" and ds[0][3]["rv"]["k"] in ("use",):
            cur = ds[0][3]["rv"]["op"]
            bb = ds[0][1]
            continue
        if len(ds) == 1 and ds[0][0] == "stmt" and ds[0][3]["rv"]["k"] == "ref":
            cur = {"k": "copy", "pl": ds[0][3]["rv"]["pl"]}
            bb = ds[0][1]
            continue
        return None
    return None


def extreme_sources(fx, adt, fld):
    """does any write to adt.fld (aggregate or assignment) come from a type extreme or a clamp?"""
    hits = []

    def is_extreme(e):
        for x in walk(e):
            if isinstance(x, tuple) and x and x[0] == "constpath" and (str(x[1]).endswith("Eval::MIN") or str(x[1]).endswith("Eval::MAX")):
                return True
            if isinstance(x, tuple) and x and x[0] == "const" and x[1] in (32767, -32768):
                return True
            if isinstance(x, tuple) and x and x[0] == "call" and isinstance(x[1], str):
                cb = fx.body(x[1])
                if cb is not None and cb.name not in seen_fn:
                    seen_fn.add(cb.name)
                    ret = cb.expr({"l": 0, "p": []}, expand_named=True)
                    if is_extreme(ret):
                        return True
                if x[1].endswith("saturating_add") or x[1].endswith("saturating_sub") or x[1].endswith("saturating_mul"):
                    return True
        return False

    for b in fx.fn_bodies():
        if "::tests::" in b.name:
            continue
        for bb, j, s in b.stmts():
            rv = s.get("rv")
            if s["k"] == "assign" and rv and rv["k"] == "agg" and rv.get("agg") == "adt" and norm(rv["adt"]) == adt:
                for fname, op in zip(rv["fields"], rv["ops"]):
                    if fname == fld:
                        seen_fn = set()
                        if is_extreme(b.expr(op, expand_named=True, at=bb)):
                            hits.append((b.name, s.get("line")))
            if s["k"] == "assign":
                flds = [p for p in s["lhs"].get("p", []) if isinstance(p, dict) and p.get("n") == fld and norm(p.get("adt", "")) == adt]
                if flds and rv["k"] == "use":
                    seen_fn = set()
                    if is_extreme(b.expr(rv["op"], expand_named=True, at=bb)):
                        hits.append((b.name, s.get("line")))
    return hits


def evalop_class(fx, b, bb, t, args):
    fn = norm(b.name)
    cn = norm(callee_name(t))
    ty = cn.split(" as ")[0].split("::")[-1]
    op = cn.split("::")[-1]
    consts = []
    for a in args:
        d = deep_strip(a)
        if isinstance(d, tuple) and d[0] == "agg" and d[2] and all(isinstance(x, tuple) and x[0] == "const" for x in d[2]):
            consts.append(d[2][0][1])
        elif isinstance(d, tuple) and d[0] == "constpath":
            cv = [v for k, v in fx.consts.items() if norm(k) == d[1]]
            if cv and "bits" in cv[0]:
                bits = cv[0]["bits"]
                consts.append(bits - 65536 if bits >= 32768 else bits)
    if fn.startswith("engine::eval::") and ty == "WhiteEval" and op in ("mul", "div"):
        # scaling the blended evaluation is not a sum of bounded terms: |eval| * k leaves i16 for k >= 2 already near the mate threshold
        k_ok = any(isinstance(c0, int) and abs(c0) <= 1 for c0 in consts) if op == "mul" else bool(consts) and all(c0 != 0 for c0 in consts)
        if not k_ok:
            return None
    if fn.startswith("engine::eval::") and ty in ("PhasedEval", "WhiteEval"):
        return "eval-terms", "evaluation terms summed in packed/plain score arithmetic; magnitudes bounded by C16-BOUND"
    if fn.endswith("see::see") and ty == "Eval":
        return "see-sum", "alternating sum of piece values (<= 10000 + 15*900) starting from -threshold"
    if fn.endswith("aspiration::Window::around"):
        return "window-around", "previous iteration's score (within +-32255) +- the constant window size"
    if fn.endswith("negamax::negamax") and op in ("add", "sub") and consts and all(abs(c) == 1 for c in consts):
        others = [deep_strip(a) for a in args if not (isinstance(deep_strip(a), tuple) and deep_strip(a)[0] == "agg")]
        if all((isinstance(o, tuple) and o[0] == "arg" and o[1] in (2, 3)) or (isinstance(o, tuple) and o[0] == "call" and o[1].endswith("Neg>::neg")) for o in others):
            return "null-window", "window bound (a score or the saturating negation of one; alpha < beta) +- 1"
    if fn.endswith("negamax::negamax") and op == "mul":
        # MARGIN * i16::from(depth) with depth bounded by a dominating guard
        ctx = iv.Ctx(b, bb, fx)
        other = [a for a in args if not (isinstance(deep_strip(a), tuple) and deep_strip(a)[0] in ("constpath", "agg"))]
        r = iv.rng(ctx, other[0]) if other else None
        if consts and r and iv.fits((min(consts[0] * r[0], consts[0] * r[1]), max(consts[0] * r[0], consts[0] * r[1])), "i16") and r[1] <= 16:
            return "margin-times-depth", f"constant margin {consts[0]} times a depth bounded by its guard to {r}"
    if fn.endswith("negamax::negamax") and op in ("add", "sub") and any(find_calls(a, "eval::eval") for a in args):
        return "static-eval-margin", "static evaluation (bounded by C16-BOUND, < 31900) +- a small pruning margin"
    return None


def rule_evalop(fx, rep, cone):
    ok = True
    n = 0
    risky = risky_impls(fx)
    counts = collections.Counter()
    keyc = collections.Counter()
    for nm in sorted(cone):
        b = fx.bodies[nm]
        if C.OPIMPL_RE.match(norm(nm)):
            continue
        for bb, t in b.calls():
            cb = fx.body(callee_name(t) or "")
            if cb is None or cb.name not in risky:
                continue
            n += 1
            args = [b.expr(a, expand_named=True, at=bb) for a in t["args"]]
            opn = norm(cb.name).split("::")[-1]
            # clamp-then-arith / self-accumulation discipline on struct fields
            viol = None
            for a in t["args"]:
                fo = field_of_operand(b, a, bb)
                if fo is None:
                    continue
                adt, fld = fo
                if adt.startswith("engine::eval::") and not adt.endswith("player_eval::Eval"):
                    continue
                if adt.endswith("player_eval::Eval") or adt.endswith("WhiteEval") or adt.endswith("PhasedEval"):
                    continue  # the newtype's own .0
                hits = extreme_sources(fx, adt, fld)
                if hits:
                    viol = f"operand `{adt.split('::')[-1]}.{fld}` can hold a type extreme or a clamped value (written in {hits[:2]}) and is fed to the unchecked `{opn}` of the score type"
                # self accumulation: the result flows back into the same field
                dest = t["dest"]["l"]
                for bb2, j2, s2 in b.stmts():
                    if s2["k"] == "assign" and any(isinstance(p, dict) and p.get("n") == fld and norm(p.get("adt", "")) == adt for p in s2["lhs"].get("p", [])):
                        sl, _ = b.slice_back([x for o in b.rvalue_operands(s2["rv"]) for x in b.operand_locals(o)])
                        if dest in sl and viol is None:
                            viol = f"`{adt.split('::')[-1]}.{fld}` accumulates its own result through the unchecked `{opn}` (unbounded growth across repeated calls)"
            cls = None if viol else evalop_class(fx, b, bb, t, args)
            good = viol is None and cls is not None
            rep.obligation(good)
            if good:
                counts[cls[0]] += 1
                if counts[cls[0]] == 1:
                    rep.sample({"rule": "C04-EVALOP", "class": cls[0], "reason": cls[1], "example": f"{norm(nm).split('::')[-1]}:{t.get('line')} {opn}({', '.join(show(a)[:40] for a in args)})"})
            else:
                ok = False
                base = f"C04-EVALOP/{norm(nm)}/{opn}"
                keyc[base] += 1
                rep.violation("C04-EVALOP", base + (f"/{keyc[base]}" if keyc[base] > 1 else ""),
                              (viol or f"unclassified use of the unchecked `{opn}` of a score type with operands ({', '.join(show(a)[:60] for a in args)})") +
                              f" in `{nm}` line {t.get('line')}: checked builds panic on overflow, optimised builds wrap the score",
                              {"fn": nm, "file": b.file, "line": t.get("line")})
    rep.analysed["C04-EVALOP_classes"] = dict(counts)
    # 28 sites on the pinned tree; the floor only guards against a vacuous pass and leaves room for merged sites (folds, helpers)
    rep.rule("C04-EVALOP", n, 20, ok, f"call sites of unchecked score arithmetic; classes {dict(counts)}")


def rule_ret(fx, rep):
    # same structure as C09-FALLBACK, reported under C04
    import core
    sub = type(rep)(rep.prop, rep.tier)
    q = core.QUIET
    core.QUIET = True
    try:
        pC09.rule_fallback(fx, sub)
    finally:
        core.QUIET = q
    for v in sub.violations:
        rep.violation("C04-RET", v["key"].replace("C09-FALLBACK", "C04-RET"), v["msg"], v["site"])
    rep.obligations += sub.obligations
    rep.discharged += sub.discharged
    r = sub.rules[-1]
    rep.rule("C04-RET", r["instances"], r["floor"], r["status"] == "ok", "search returns pv.first() or the panic move")


def rule_root(fx, rep):
    """The class `pv-first` (the root line of a completed iteration is non-empty, so `pv.first().unwrap()` cannot fail) rests on
    the root node always searching its moves: that is C08-ROOTRET, re-reported here as the premise of that belief (seed C04-5a:
    a draw-by-material return taken at the root too leaves the line empty and the unwrap panics)."""
    import core
    import pC08
    sub = type(rep)(rep.prop, rep.tier)
    q = core.QUIET
    core.QUIET = True
    try:
        pC08.rule_rootret(fx, sub, fx.one("search::negamax::negamax"))
    finally:
        core.QUIET = q
    for v in sub.violations:
        rep.violation("C04-ROOT", v["key"].replace("C08-ROOTRET", "C04-ROOT"), v["msg"] + " - the completed iteration then has an empty line and `pv.first().unwrap()` panics: no bestmove", v["site"])
    for x in sub.notes:
        rep.notes.append(x.replace("C08-ROOTRET", "C04-ROOT"))
    rep.obligations += sub.obligations
    rep.discharged += sub.discharged
    r = sub.rules[-1]
    rep.rule("C04-ROOT", r["instances"], r["floor"], r["status"] == "ok", "the root node never returns before searching a move (shared with C08-ROOTRET)")


NG = "src/engine/search/negamax.rs"
AS = "src/engine/search/aspiration.rs"
TT = "src/engine/transposition_table.rs"
SM = "src/engine/search/mod.rs"
MUTANTS = [
    {"name": "clock arguments of go parsed unsigned (seed C04-13a)", "expect": "C04-GOARGS",
     "edits": __import__("shared_mutants").edits_from_patch("seeded/C04-13a/patch.diff")},
    {"name": "a missing clock becomes Duration::MAX (seed C04-12a)", "expect": "C04-CONE",
     "edits": __import__("shared_mutants").edits_from_patch("seeded/C04-12a/patch.diff")},
    {"name": "draw by material returned at the root too (seed C04-5a)", "expect": "C04-ROOT",
     "edits": [(NG, "    if !is_root\n        && (game.is_repeated_position()\n            || game.is_stalemate_by_fifty_move_rule()\n            || game.is_stalemate_by_insufficient_material())\n    {\n        return Ok(Eval::DRAW);\n    }",
                "    if game.is_stalemate_by_insufficient_material()\n        || (!is_root && (game.is_repeated_position() || game.is_stalemate_by_fifty_move_rule()))\n    {\n        return Ok(Eval::DRAW);\n    }")]},
    {"name": "score array smaller than the move list (seed C04-3)", "expect": "C04-CONE/engine::search::move_picker::MovePicker",
     "edits": [("src/engine/search/move_picker.rs", "const MAX_MOVES: usize = u8::MAX as usize;", "const MAX_MOVES: usize = 128;")]},
    {"name": "per-ply tables and lines shorter than the maximum depth", "expect": "C04-CONE",
     "edits": [("src/engine/search/mod.rs", "const MAX_SEARCH_DEPTH_SIZE: usize = MAX_SEARCH_DEPTH as usize;", "const MAX_SEARCH_DEPTH_SIZE: usize = 128;")]},
    {"name": "aspiration widening unchecked again (original defect)", "expect": "C04-EVALOP",
     "edits": [(AS, "        self.alpha = clamp_alpha(Eval(self.alpha.0.saturating_sub(self.width.0)));", "        self.alpha = clamp_alpha(self.alpha - self.width);")]},
    {"name": "window width growth unchecked again (original defect)", "expect": "C04-",
     "edits": [(AS, "        self.width = Eval(self.width.0.saturating_add(self.width.0 / 2));", "        self.width = self.width + self.width / 2;")]},
    {"name": "generation += 1 (original defect)", "expect": "C04-CONE",
     "edits": [(TT, "        self.generation = self.generation.wrapping_add(1);", "        self.generation += 1;")]},
    {"name": "check extension without depth cap", "expect": "C04-CONE",
     "edits": [(NG, "    if in_check && depth < MAX_SEARCH_DEPTH {\n        depth += 1;\n    }", "    if in_check {\n        depth += 1;\n    }")]},
    {"name": "null move reduction without depth guard", "expect": "C04-CONE",
     "edits": [(NG, "        if depth >= params::NULL_MOVE_PRUNING_DEPTH_LIMIT\n            && eval >= beta", "        if eval >= beta")]},
    {"name": "fallback replaced by unwrap", "expect": "C04-",
     "edits": [(SM, "    best_move.unwrap_or_else(|| panic_move(game, &ctx))", "    let _ = panic_move;\n    best_move.unwrap()")]},
    {"name": "quiescence recursion without ply cap", "expect": "C04-CONE",
     "edits": [("src/engine/search/quiescence.rs", "    if plies == MAX_SEARCH_DEPTH {\n        return Ok(eval::eval(game));\n    }\n", "")]},
    {"name": "new narrow counter in search context", "expect": "C04-CONE",
     "edits": [(NG, "    ctx.max_depth_reached = ctx.max_depth_reached.max(plies);\n\n    if !is_root\n", "    ctx.max_depth_reached = ctx.max_depth_reached.max(plies) + u8::from(is_pv);\n\n    if !is_root\n")]},
    {"name": "futility margin scaled by the (unbounded) ply", "expect": "C04-EVALOP",
     "edits": [(NG, "            && eval + params::FUTILITY_PRUNE_MAX_MOVE_VALUE < alpha", "            && eval + params::FUTILITY_PRUNE_MAX_MOVE_VALUE * i16::from(plies) < alpha")]},
    {"name": "movetime minus overhead with plain Duration subtraction (seed C04-1)", "expect": "C04-CONE",
     "edits": [("src/engine/search/time_control.rs", "            TimeControl::ExactTime(time) => self.elapsed() > time,", "            TimeControl::ExactTime(time) => self.elapsed() > time - self.soft_stop,")]},
    {"name": "remaining time computed with plain subtraction of the overhead", "expect": "C04-CONE",
     "edits": [("src/engine/search/time_control.rs", "                time_remaining = time_remaining\n                    .saturating_sub(move_overhead)\n                    .max(move_overhead);", "                time_remaining = (time_remaining - move_overhead).max(move_overhead);")]},
    {"name": "benign: extra guard and local in null-move block", "benign": True,
     "edits": [(NG, "            game.make_null_move();\n", "            let reduced = depth - 1 - params::NULL_MOVE_PRUNING_DEPTH_REDUCTION;\n            let _ = reduced;\n            game.make_null_move();\n")]},
]
