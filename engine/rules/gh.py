"""Helpers shared by the rules about chess::game::Game (C02, C03, C15)."""
from facts import norm, walk, show, guard_conditions, option_guard, strip_refs, is_call_to, callee_name

GAME = "chess::game::Game"
BOARD = "chess::board::Board"
HISTORY = "chess::game::History"


def self_game_field(place):
    """If `place` is (*self).f... for a &mut/& Game base, return f (the first Game field)."""
    ps = place.get("p", [])
    for p in ps:
        if isinstance(p, dict) and "n" in p and norm(p.get("adt", "")) == GAME:
            return p["n"]
        if isinstance(p, dict) and "n" in p:
            return None
    return None


def game_fields_written(fx, body, depth=4, _seen=None):
    """Set of Game fields that `body` may modify: direct writes / mutable borrows of (*self).f and,
    recursively, the same for in-crate callees that receive a `&mut Game`."""
    if _seen is None:
        _seen = set()
    if body.name in _seen or depth < 0:
        return set()
    _seen.add(body.name)
    out = set()
    for (bb, idx, adt, fld, kind, place) in body.field_writes():
        f = self_game_field(place)
        if f is not None:
            out.add(f)
    for bb, t in body.calls():
        cn = callee_name(t)
        cb = fx.body(cn) if cn else None
        if cb is None:
            continue
        # does any argument carry a &mut Game ?
        passes = False
        for a in t["args"]:
            if "pl" in a:
                ty = body.local_ty(a["pl"]["l"])
                if ty.replace(" ", "") == "&mutchess::game::Game" and not a["pl"].get("p"):
                    passes = True
                # reborrow temp: _29 = &mut (*_1)
        if passes:
            out |= game_fields_written(fx, cb, depth - 1, _seen)
    return out


MOVE_PREDS = {
    "Move::is_castling": "castle",
    "Move::is_en_passant": "ep",
    "Move::promotion": "promo",
}


def classify_guard(e):
    """Map a guard expression onto one of the move-predicate classes, or ('other', text)."""
    calls = [x[1] for x in walk(e) if isinstance(x, tuple) and x and x[0] == "call" and isinstance(x[1], str)]
    for c in calls:
        for suf, cls in MOVE_PREDS.items():
            if c.endswith(suf):
                return cls
    if any(c.endswith("squares::castle_squares") for c in calls):
        return "castle_sq"
    fields = [x[2] for x in walk(e) if isinstance(x, tuple) and x and x[0] == "field"]
    if "captured" in fields or any(c.endswith("Board::piece_at") for c in calls):
        return "capture"
    return ("other", show(e))


def edit_condition(body, bb):
    """Conjunction of (class, polarity) guarding block bb, for move-predicate classes."""
    conds = []
    for (e, pol, where) in guard_conditions(body, bb):
        og = option_guard(e, pol)
        if og is not None:
            inner, p = og
            cls = classify_guard(inner)
            conds.append((cls, p))
        else:
            cls = classify_guard(e)
            if isinstance(pol, bool) or pol is None:
                conds.append((cls, pol))
            else:
                conds.append((("other", show(e) + f"=={pol}"), True))
    return conds


def square_class(e):
    """Abstract 'which square' class of an expression: frozenset of accessor names it is built from."""
    names = set()
    for x in walk(e):
        if isinstance(x, tuple) and x and x[0] == "call" and isinstance(x[1], str):
            n = x[1]
            for k in ("Move::src", "Move::dst", "Square::backward", "Square::forward", "squares::castle_squares"):
                if n.endswith(k):
                    names.add(k.split("::")[-1])
        if isinstance(x, tuple) and x and x[0] == "field" and x[2] in ("0", "1") and \
                any(isinstance(y, tuple) and y and y[0] == "call" and isinstance(y[1], str) and y[1].endswith("castle_squares") for y in walk(x)):
            names.add("cs." + x[2])
    if not names:
        return None
    return frozenset(names)
