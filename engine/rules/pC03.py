"""C03 — the position key depends on the position alone: structural clauses C03-PAIR, C03-SCRATCH,
C03-INIT (DESIGN.md §3)."""
from facts import (cmp_op, switch_edge_conds, norm, show, deep_strip, walk, strip_refs, is_call_to, callee_name, place_fields, guard_conditions,
                   static_accesses, mentions_call, find_calls)
import gh

EXPLANATION = (
    "Decides the structural clauses of C03, not key equality as such: (PAIR) every mutation of hashed state "
    "(Game.board / castle_rights / en_passant_target / player) outside the wholesale-restore functions is paired, "
    "on every path, with exactly the zobrist toggle the from-scratch hash uses for that state and with the same "
    "operands; the wholesale-restore functions reinstall a saved or recomputed key; (SCRATCH) zobrist::hash and "
    "the four incremental toggles read the same component families, hash visits all 12 (colour, kind) piece sets "
    "and all 4 castling rights under the matching flag; (INIT) the five component statics are written only by "
    "zobrist::init, seeded with a constant. Not decided: distinctness / non-zero of the generated words."
)

TOGGLES = ("ZobristHash::toggle_piece_on_square", "ZobristHash::toggle_castle_rights",
           "ZobristHash::set_en_passant", "ZobristHash::toggle_side_to_play")
WHOLESALE = ("Game::undo_move", "Game::undo_null_move", "Game::from_state")
HASHED = ("board", "castle_rights", "en_passant_target", "player")


def run(fx, rep, tier):
    rule_pair(fx, rep)
    rule_scratch(fx, rep)
    rule_toggle_access(fx, rep)
    rule_init(fx, rep)


def is_game_field(body, place_expr, fld):
    e = strip_refs(place_expr)
    return isinstance(e, tuple) and e[0] == "field" and e[2] == fld


def uncond(body, bb):
    return body.must_pass(0, [bb], body.return_blocks())


def rule_pair(fx, rep):
    ok = True
    n = 0
    wholesale = {fx.one(w).name for w in WHOLESALE}
    g_set, g_rem = fx.one("Game::set_at"), fx.one("Game::remove_at")
    trc = fx.one("Game::try_remove_castle_rights")

    def bad(key, msg, body, line=None):
        nonlocal ok
        ok = False
        rep.violation("C03-PAIR", f"C03-PAIR/{key}", msg, {"fn": body.name, "file": body.file, "line": line or body.line})

    # --- who touches hashed Game fields at all (P1)
    writers = {}
    for b in fx.fn_bodies():
        for (bb, idx, adt, fld, kind, place) in b.field_writes():
            f = gh.self_game_field(place)
            if f in HASHED or f == "zobrist":
                writers.setdefault(f, {}).setdefault(b.name, []).append((bb, idx, kind))
    rep.sample({"rule": "C03-PAIR", "writers_of_hashed_fields": {f: sorted(norm(x) for x in w) for f, w in writers.items()}})

    # (i) board edits on Game.board
    allowed_board = {g_set.name, g_rem.name} | wholesale
    for w, sites in sorted(writers.get("board", {}).items()):
        n += len(sites)
        good = w in allowed_board
        rep.obligation(good, len(sites))
        if not good:
            b = fx.bodies[w]
            bad(f"board-writer/{norm(w)}", f"`{w}` modifies Game.board directly; outside Game::set_at/remove_at (which toggle the key) "
                f"and the wholesale-restore functions this leaves the key stale", b, b.line_of(sites[0][0], sites[0][1]))
    for gb, editor in ((g_set, "Board::set_at"), (g_rem, "Board::remove_at")):
        edits = [(bb, t) for bb, t in gb.calls_to(editor) if is_game_field(gb, gb.expr(t["args"][0], expand_named=True), "board")]
        togg = [(bb, t) for bb, t in gb.calls_to("ZobristHash::toggle_piece_on_square")
                if is_game_field(gb, gb.expr(t["args"][0], expand_named=True), "zobrist")]
        n += 1
        good = len(edits) == 1 and len(togg) == 1
        why = ""
        if not good:
            why = f"expected one board edit and one toggle_piece_on_square, found {len(edits)} / {len(togg)}"
        else:
            (eb, et), (tb, tt) = edits[0], togg[0]
            if not (uncond(gb, eb) and uncond(gb, tb)):
                good, why = False, "board edit and key toggle are not both unconditional"
            sq_e = gb.expr(et["args"][1], expand_named=True)
            sq_t = gb.expr(tt["args"][1], expand_named=True)
            if sq_e != sq_t:
                good, why = False, f"square operands differ: edit `{show(sq_e)}` vs toggle `{show(sq_t)}`"
            if editor == "Board::set_at":
                p_e = gb.expr(et["args"][2], expand_named=True)
                p_t = gb.expr(tt["args"][2], expand_named=True)
                if p_e != p_t:
                    good, why = False, f"piece operands differ: edit `{show(p_e)}` vs toggle `{show(p_t)}`"
            else:
                # removed piece must be what piece_at(board, sq) returned, read before the removal
                p_t = gb.expr(tt["args"][2], expand_named=True)
                src = [x for x in walk(p_t) if isinstance(x, tuple) and x[0] == "call" and isinstance(x[1], str) and x[1].endswith("Board::piece_at")]
                if not src or src[0][2][1] != sq_e:
                    good, why = False, f"toggled piece `{show(p_t)}` is not the piece read from the edited square"
                else:
                    reads = [bb for bb, t in gb.calls_to("Board::piece_at")]
                    if not any(gb.block_dominates(r, eb) and r != eb for r in reads):
                        good, why = False, "the removed piece is read after the removal"
        rep.obligation(good)
        if not good:
            bad(f"edit-toggle/{norm(gb.name)}", f"`{gb.name}`: {why}", gb)

    # (ii) castle rights
    cr_writers = {}
    for b in fx.fn_bodies():
        for (bb, idx, adt, fld, kind, place) in b.field_writes():
            if adt == "chess::game::CastleRights" and fld in ("king_side", "queen_side"):
                cr_writers.setdefault(b.name, []).append((bb, idx))
    rr = fx.one("CastleRights::remove_rights")
    for w, sites in sorted(cr_writers.items()):
        n += len(sites)
        good = w == rr.name
        rep.obligation(good, len(sites))
        if not good:
            b = fx.bodies[w]
            bad(f"rights-writer/{norm(w)}", f"`{w}` writes CastleRights flags directly (only CastleRights::remove_rights may)", b)
    for (b, bb, t) in fx.callers_of(lambda nme: nme.endswith("CastleRights::remove_rights")):
        n += 1
        good = b.name == trc.name
        rep.obligation(good)
        if not good:
            bad(f"remove_rights-caller/{norm(b.name)}", f"`{b.name}` removes a castling right without going through Game::try_remove_castle_rights (no key toggle)", b, t.get("line"))
    for w, sites in sorted(writers.get("castle_rights", {}).items()):
        n += len(sites)
        good = w == trc.name or w in wholesale
        rep.obligation(good, len(sites))
        if not good:
            b = fx.bodies[w]
            bad(f"rights-field-writer/{norm(w)}", f"`{w}` modifies Game.castle_rights outside try_remove_castle_rights / wholesale restore", b)
    # inside try_remove_castle_rights
    n += 1
    rem = trc.calls_to("CastleRights::remove_rights")
    tog = trc.calls_to("ZobristHash::toggle_castle_rights")
    good, why = True, ""
    if len(rem) != 1 or len(tog) != 1:
        good, why = False, f"expected one remove_rights and one toggle_castle_rights, found {len(rem)} / {len(tog)}"
    else:
        (rb, rt), (tb, tt) = rem[0], tog[0]
        side_r = trc.expr(rt["args"][1], expand_named=True)
        side_t = trc.expr(tt["args"][2], expand_named=True)
        pl_t = trc.expr(tt["args"][1], expand_named=True)
        recv = trc.expr(rt["args"][0], expand_named=True)
        fp = [x for x in walk(recv) if isinstance(x, tuple) and x[0] == "call" and isinstance(x[1], str) and x[1].endswith("ByPlayer::for_player_mut")]
        if side_r != side_t:
            good, why = False, f"sides differ: removed `{show(side_r)}` toggled `{show(side_t)}`"
        elif not fp or fp[0][2][1] != pl_t:
            good, why = False, f"the rights removed belong to `{show(fp[0][2][1]) if fp else '?'}` but the key is toggled for `{show(pl_t)}`"
        else:
            # both dominated by the 'right still present' edge
            for site in (rb, tb):
                conds = guard_conditions(trc, site)
                has = False
                for (e, pol, where) in conds:
                    if mentions_call(e, "CastleRights::can_castle_to_side") and pol is True:
                        args = [x for x in walk(e) if isinstance(x, tuple) and x[0] == "call" and isinstance(x[1], str) and x[1].endswith("can_castle_to_side")][0][2]
                        if args[1] == side_r:
                            has = True
                if not has:
                    good, why = False, "remove_rights / toggle_castle_rights is not guarded by `can_castle_to_side(side)` being true (key toggled although no right was lost)"
            # on the guarded path both always happen together
            if good and not (trc.block_dominates(rb, tb) or trc.block_dominates(tb, rb)):
                good, why = False, "removal and toggle are on different paths"
            if good:
                first, second = (rb, tb) if trc.block_dominates(rb, tb) else (tb, rb)
                if not trc.must_pass(first, [second], trc.return_blocks()):
                    good, why = False, "a path removes the right without toggling the key (or vice versa)"
    rep.obligation(good)
    if not good:
        bad("try_remove_castle_rights", f"`{trc.name}`: {why}", trc)

    # (iii) en passant target
    for w, sites in sorted(writers.get("en_passant_target", {}).items()):
        b = fx.bodies[w]
        if w in wholesale:
            continue
        for (bb, idx, kind) in sites:
            n += 1
            good, why = True, ""
            if kind != "assign" or idx is None:
                good, why = False, "Game.en_passant_target is mutably borrowed / written by a call"
            else:
                st = b.blocks[bb]["stmts"][idx]
                v = b.expr(st["rv"].get("op"), expand_named=True) if st["rv"]["k"] == "use" else None
                calls = [(cb, t) for cb, t in b.calls_to("ZobristHash::set_en_passant")
                         if is_game_field(b, b.expr(t["args"][0], expand_named=True), "zobrist")]
                dom = [(cb, t) for cb, t in calls if cb != bb and b.block_dominates(cb, bb)]
                match = None
                for cb, t in dom:
                    old = strip_refs(b.expr(t["args"][1], expand_named=True))
                    new = b.expr(t["args"][2], expand_named=True)
                    old_ok = isinstance(old, tuple) and old[0] == "field" and old[2] == "en_passant_target" and \
                        isinstance(strip_refs(old[1]), tuple) and strip_refs(old[1])[0] == "arg"
                    if old_ok and new == v:
                        match = (cb, t)
                if match is None:
                    good, why = False, (f"`self.en_passant_target = {show(v) if v else '?'}` is not preceded by "
                                        "`zobrist.set_en_passant(self.en_passant_target, <same value>)`")
                else:
                    # no other write of the field between the toggle and this write
                    for (ob, oi, ok_) in sites:
                        if (ob, oi) != (bb, idx) and b.block_dominates(match[0], ob) and b.block_dominates(ob, bb):
                            good, why = False, "another write of en_passant_target lies between the key update and this write"
                    # one key update per write: the number of set_en_passant calls equals the number of writes
                    if len(calls) != len([s for s in sites if s[2] == "assign"]):
                        good, why = False, f"{len(calls)} set_en_passant call(s) for {len(sites)} write(s) of en_passant_target"
            rep.obligation(good)
            if not good:
                bad(f"ep-write/{norm(w)}", f"`{w}`: {why}", b, b.line_of(bb, idx))
    # set_en_passant must not be called where the field is not written
    for (b, bb, t) in fx.callers_of(lambda nme: nme.endswith("ZobristHash::set_en_passant")):
        n += 1
        good = b.name in writers.get("en_passant_target", {})
        rep.obligation(good)
        if not good:
            bad(f"ep-toggle-only/{norm(b.name)}", f"`{b.name}` updates the en-passant key component without writing Game.en_passant_target", b, t.get("line"))

    # (iv) side to move
    for w, sites in sorted(writers.get("player", {}).items()):
        b = fx.bodies[w]
        if w in wholesale:
            continue
        n += 1
        tog = [(cb, t) for cb, t in b.calls_to("ZobristHash::toggle_side_to_play")
               if is_game_field(b, b.expr(t["args"][0], expand_named=True), "zobrist")]
        good = len(tog) == len(sites) == 1 and uncond(b, tog[0][0]) and uncond(b, sites[0][0])
        rep.obligation(good)
        if not good:
            bad(f"side/{norm(w)}", f"`{w}` writes Game.player {len(sites)} time(s) but toggles the side-to-move key word {len(tog)} time(s) "
                "(must be exactly one unconditional toggle per unconditional write)", b)
    for (b, bb, t) in fx.callers_of(lambda nme: nme.endswith("ZobristHash::toggle_side_to_play")):
        n += 1
        good = b.name in writers.get("player", {})
        rep.obligation(good)
        if not good:
            bad(f"side-toggle-only/{norm(b.name)}", f"`{b.name}` toggles the side-to-move key word without changing Game.player", b, t.get("line"))
    # piece toggles only next to a board edit
    for (b, bb, t) in fx.callers_of(lambda nme: nme.endswith("ZobristHash::toggle_piece_on_square")):
        n += 1
        good = b.name in (g_set.name, g_rem.name)
        rep.obligation(good)
        if not good:
            bad(f"piece-toggle-only/{norm(b.name)}", f"`{b.name}` toggles a piece-square key word outside Game::set_at/remove_at", b, t.get("line"))
    for (b, bb, t) in fx.callers_of(lambda nme: nme.endswith("ZobristHash::toggle_castle_rights")):
        n += 1
        good = b.name == trc.name
        rep.obligation(good)
        if not good:
            bad(f"castle-toggle-only/{norm(b.name)}", f"`{b.name}` toggles a castling key word outside try_remove_castle_rights", b, t.get("line"))

    # wholesale restore: key reinstalled
    for wn in WHOLESALE:
        b = fx.one(wn)
        n += 1
        good, why = False, "no assignment to self.zobrist"
        for bb, j, s in b.stmts():
            if s["k"] == "assign" and any(isinstance(p, dict) and p.get("n") == "zobrist" and norm(p.get("adt", "")) == gh.GAME for p in s["lhs"].get("p", [])) \
                    and len([p for p in s["lhs"].get("p", []) if isinstance(p, dict)]) == 1:
                e = b.expr(s["rv"].get("op"), expand_named=True) if s["rv"]["k"] == "use" else None
                if wn.endswith("from_state"):
                    good = e is not None and mentions_call(e, "zobrist::hash")
                    # hash must be computed after every other field is in place: it is the last write to the game
                    why = "" if good else f"key assigned from `{show(e)}` rather than zobrist::hash(&game)"
                else:
                    e2 = strip_refs(e) if e else None
                    good = isinstance(e2, tuple) and e2[0] == "field" and e2[2] == "zobrist" and \
                        any(isinstance(x, tuple) and x[0] == "call" and isinstance(x[1], str) and x[1].endswith("Vec::pop") for x in walk(e2))
                    why = "" if good else f"key assigned from `{show(e)}` rather than from the popped History entry"
                if good and not uncond(b, bb):
                    good, why = False, "key restore is conditional"
                if good and wn.endswith("from_state"):
                    # the from-scratch key must be computed after every hashed field is in place: no direct write to a hashed
                    # field may follow it (writes through Game::set_at / remove_at / set_en_passant keep the key themselves)
                    after = b.reachable(bb) - {bb}
                    for (wb, widx, adt, fld, kind, place) in b.field_writes():
                        if adt == gh.GAME and fld in HASHED and (wb in after or (wb == bb and widx is not None and widx > j)):
                            good, why = False, f"Game.{fld} is written directly after the key was computed from scratch: the carried key no longer describes the position"
                if good and not wn.endswith("from_state"):
                    # the restored key is final: no call that toggles the key (Game::set_at / remove_at, try_remove_castle_rights, the
                    # toggle methods) may run after the restore - the take-back edits the board directly (seed C03-7a: the castling
                    # rook put back through the Game helpers after the saved key had been reinstalled)
                    after = b.reachable(bb)
                    for cb_, ct_ in b.calls():
                        tb_ = fx.body(callee_name(ct_)) if callee_name(ct_) else None
                        if tb_ is None or tb_ is b or cb_ not in after:
                            continue
                        if cb_ == bb:
                            pass  # the call terminates the block of the restoring statement: it runs after it
                        touches = ("zobrist" in gh.game_fields_written(fx, tb_) and any("pl" in a_ and "Game" in (b.local_ty(a_["pl"]["l"]) or "") for a_ in ct_["args"])) or \
                            any(norm(tb_.name).endswith(tg_) for tg_ in TOGGLES)
                        if touches:
                            good, why = False, f"`{norm(tb_.name)}` (which toggles the key) is called after the saved key has been restored: the identical position then carries a different key"
        rep.obligation(good)
        if not good:
            bad(f"wholesale/{wn}", f"`{b.name}`: {why}", b)
    # ZobristHash.0 writers
    zw = set()
    for b in fx.fn_bodies():
        for (bb, idx, adt, fld, kind, place) in b.field_writes():
            if adt == "chess::zobrist::ZobristHash":
                zw.add(b.name)
    allowed_z = {fx.one(t).name for t in TOGGLES}
    for w in sorted(zw):
        n += 1
        good = w in allowed_z
        rep.obligation(good)
        if not good:
            b = fx.bodies[w]
            bad(f"key-writer/{norm(w)}", f"`{w}` writes the key word directly (only the four toggle methods may)", b)
    allowed_zf = {g_set.name, g_rem.name, trc.name, fx.one("Game::make_move").name, fx.one("Game::make_null_move").name} | wholesale
    for w in sorted(writers.get("zobrist", {})):
        n += 1
        good = w in allowed_zf
        rep.obligation(good)
        if not good:
            b = fx.bodies[w]
            bad(f"key-field-writer/{norm(w)}", f"`{w}` modifies Game.zobrist; only make/undo, Game::set_at/remove_at, try_remove_castle_rights and from_state may", b)
    rep.rule("C03-PAIR", n, 30, ok, "mutation <-> key-toggle pairing sites")


# ---- C03-SCRATCH ---------------------------------------------------------------------------

ACCESSORS = ("zobrist::piece_on_square", "zobrist::castle_rights", "zobrist::en_passant", "zobrist::side_to_play")


def enum_const(e):
    e = strip_refs(e)
    if isinstance(e, tuple) and e[0] == "agg" and isinstance(e[1], str) and not e[2]:
        return e[1].split("::")[-1]
    return None


def rule_scratch(fx, rep):
    ok = True
    n = 0
    h = fx.one("zobrist::hash")

    def bad(key, msg, line=None):
        nonlocal ok
        ok = False
        rep.violation("C03-SCRATCH", f"C03-SCRATCH/{key}", msg, {"fn": h.name, "file": h.file, "line": line or h.line})

    acc = {fx.one(a).name: a for a in ACCESSORS}
    # private helpers of the zobrist module that `hash` calls (e.g. a per-piece-set folding function) count as part of it
    helpers = []
    for bb, t in h.calls():
        cb = fx.body(callee_name(t)) if callee_name(t) else None
        if cb is not None and cb.name not in acc and norm(cb.name).startswith("chess::zobrist::") and cb.kind == "Fn" and cb not in helpers and cb is not h:
            helpers.append(cb)
    # ... also when the helper is called from a (nested) closure of `hash` (`PLAYERS.iter().fold(.., |acc, p| .. helper(game, p, k))`)
    for nm in sorted(fx.cone([h.name])):
        cb = fx.bodies[nm]
        if cb.kind == "Fn" and cb is not h and cb.name not in acc and norm(cb.name).startswith("chess::zobrist::") and cb not in helpers and norm(cb.name) != "chess::zobrist::init":
            helpers.append(cb)
    hash_bodies = [h] + helpers + [cb for cn_, cb in fx.bodies.items() if cb.kind == "Closure" and any(cn_.startswith(b0.name + "::{closure") for b0 in [h] + helpers)]
    used_by_hash = {norm(callee_name(t)) for b0 in hash_bodies for bb, t in b0.calls() if callee_name(t) and fx.body(callee_name(t)) and fx.body(callee_name(t)).name in acc}
    used_by_toggles = set()
    per_toggle = {}
    for tname in TOGGLES:
        tb = fx.one(tname)
        s = {norm(callee_name(t)) for bb, t in tb.calls() if callee_name(t) and fx.body(callee_name(t)) and fx.body(callee_name(t)).name in acc}
        per_toggle[tname] = sorted(s)
        used_by_toggles |= s
        n += 1
        good = len(s) == 1
        rep.obligation(good)
        if not good:
            bad(f"toggle/{tname}", f"`{tname}` reads component families {sorted(s)} (expected exactly one)")
    n += 1
    good = used_by_hash == used_by_toggles == {norm(a) for a in acc}
    rep.obligation(good)
    rep.sample({"rule": "C03-SCRATCH", "hash_reads": sorted(used_by_hash), "toggles_read": per_toggle})
    if not good:
        bad("families", f"zobrist::hash reads {sorted(used_by_hash)} but the incremental toggles read {sorted(used_by_toggles)}")
    # which static each accessor reads
    fam_static = {}
    for a in ACCESSORS:
        ab = fx.one(a)
        fam_static[a] = sorted({s for (s, k, bb, idx) in static_accesses(ab)})
    rep.sample({"rule": "C03-SCRATCH", "accessor_statics": fam_static})
    n += 1
    all_st = [s for v in fam_static.values() for s in v]
    good = len(all_st) == len(set(all_st)) == 5
    rep.obligation(good)
    if not good:
        bad("statics", f"accessors do not read 5 distinct component statics: {fam_static}")

    # 12 piece sets: piece_on_square(P, K, s) with s iterated from board.<set>(P') where <set> selects kind K and P' == P
    kind_of_method = {}
    for m in ("pawns", "knights", "bishops", "rooks", "queens", "king"):
        mb = fx.one(f"Board::{m}")
        kinds = set()
        for name in fx.cone([mb.name]):
            for bb, j, s in fx.bodies[name].stmts():
                rv = s.get("rv")
                if rv and rv["k"] == "agg" and rv.get("agg") == "adt" and norm(rv["adt"]).endswith("PieceKind"):
                    kinds.add(rv["variant"])
        kind_of_method[mb.name] = kinds
    seen = set()
    loop_pieces = False
    from facts import substitute_args
    psites = []
    for bb, t in h.calls_to("zobrist::piece_on_square"):
        psites.append((t, [h.expr(a, expand_named=True) for a in t["args"][:3]]))
    from facts import resolve_captures
    for hb in helpers:
        inner_sites = [[hb.expr(a, expand_named=True) for a in t["args"][:3]] for bb, t in hb.calls_to("zobrist::piece_on_square")]
        # the word may be read inside a closure the helper folds / maps over the squares of its set argument
        for cname, cb in fx.bodies.items():
            if not cname.startswith(hb.name + "::{closure") or cb.kind != "Closure":
                continue
            for bb, t in cb.calls_to("zobrist::piece_on_square"):
                pe, ke, se = [resolve_captures(fx, cb, cb.expr(a, expand_named=True)) for a in t["args"][:3]]
                # the square is the closure's item parameter: stand in the iterator the closure is handed to
                recv = None
                for hbb, ht in hb.calls():
                    if any(isinstance(x, tuple) and x and x[0] == "agg" and str(x[1]) == "closure:" + cname for a in ht["args"] for x in walk(hb.expr(a, expand_named=True, at=hbb))):
                        recv = hb.expr(ht["args"][0], expand_named=True, at=hbb)
                if recv is not None and isinstance(deep_strip(se), tuple) and deep_strip(se)[0] == "arg":
                    se = recv
                inner_sites.append([pe, ke, se])
        for inner in inner_sites:
            direct = False
            for bb2, t2 in h.calls():
                if callee_name(t2) and fx.body(callee_name(t2)) is hb:
                    actual = tuple(h.expr(a, expand_named=True, at=bb2) for a in t2["args"])
                    psites.append((t2, [substitute_args(e, actual) for e in inner]))
                    direct = True
            if not direct:
                # called from a closure of `hash`: judged on the helper's own parameters (loop form)
                psites.append(({"line": hb.line}, list(inner)))
    for t, (pe, ke, sq) in psites:
        p = enum_const(pe)
        k = enum_const(ke)
        if p is None and k is None:
            # loop form: `for player.. for kind.. for s in board.pieces_of_kind(kind, player) { piece_on_square(player, kind, s) }`
            gen = [x for x in walk(sq) if isinstance(x, tuple) and x[0] == "call" and isinstance(x[1], str) and x[1].endswith("Board::pieces_of_kind")]
            if len(gen) != 1:
                rep.notes.append("C03-SCRATCH: piece words are xored in an unrecognised (non-literal) form; the 12 piece sets are not decided")
                loop_pieces = True
                continue
            n += 1
            good = show(deep_strip(gen[0][2][1])) == show(deep_strip(ke)) and show(deep_strip(gen[0][2][2])) == show(deep_strip(pe))
            rep.obligation(good)
            loop_pieces = True
            if not good:
                bad("piece-set/loop", f"hash xors the word of (`{show(pe)[:60]}`, `{show(ke)[:60]}`) over the squares of a different (colour, kind) set `{show(gen[0])[:120]}`", t.get("line"))
            continue
        n += 1
        src = [x for x in walk(sq) if isinstance(x, tuple) and x[0] == "call" and isinstance(x[1], str) and
               fx.body(x[1]) is not None and fx.body(x[1]).name in kind_of_method]
        good = p is not None and k is not None and len(src) == 1
        if good:
            mk = kind_of_method[fx.body(src[0][1]).name]
            mp = enum_const(src[0][2][1])
            good = mk == {k} and mp == p
        rep.obligation(good)
        if good:
            seen.add((p, k))
        else:
            bad(f"piece-set/{p}/{k}", f"hash xors the ({p}, {k}) word over squares `{show(sq)[:120]}` which is not that colour's set of that kind", t.get("line"))
    def in_closures_of_hash(suffix):
        return [cb for cb in fx.bodies.values() if cb.kind == "Closure" and cb.name.startswith(h.name + "::{closure") and cb.calls_to(suffix)]
    if not psites and in_closures_of_hash("zobrist::piece_on_square"):
        rep.notes.append("C03-SCRATCH: piece words are xored inside closures of `hash` (folds over constant arrays); the 12 piece sets are not decided")
        loop_pieces = True
    if loop_pieces:
        rep.notes.append("C03-SCRATCH: piece words are xored in a loop over (colour, kind); the iteration domain is not decided statically")
    else:
        n += 1
        good = len(seen) == 12
        rep.obligation(good)
        if not good:
            bad("piece-sets", f"hash covers {len(seen)} of the 12 (colour, kind) piece sets: {sorted(seen)}")
    # 4 castling rights, each under its own flag
    seen_r = set()
    loop_rights = False
    for bb, t in h.calls_to("zobrist::castle_rights"):
        pe = h.expr(t["args"][0], expand_named=True)
        se = h.expr(t["args"][1], expand_named=True)
        p = enum_const(pe)
        s = enum_const(se)
        if p is None and s is None:
            # loop form: `if rights.can_castle_to_side(side) { castle_rights(player, side) }` with (player, rights) drawn from one tuple
            loop_rights = True
            g = [e for (e, pol, where) in guard_conditions(h, bb, expand_named=True) if pol is True and isinstance(e, tuple) and e[0] == "call" and
                 isinstance(e[1], str) and e[1].endswith("CastleRights::can_castle_to_side")]
            if len(g) != 1:
                rep.notes.append("C03-SCRATCH: castling words are xored in an unrecognised (non-literal) form; the 4 rights are not decided")
                continue
            n += 1
            good = show(deep_strip(g[0][2][1])) == show(deep_strip(se))
            rep.obligation(good)
            if not good:
                bad("right/loop", f"hash xors the castling word of side `{show(se)[:60]}` under the flag of side `{show(g[0][2][1])[:60]}`", t.get("line"))
            # ... and the word's colour is the colour whose rights are tested
            owners = find_calls(g[0][2][0], "ByPlayer::for_player")
            pe_d = deep_strip(pe)
            side_to_move = isinstance(pe_d, tuple) and pe_d and pe_d[0] == "field" and pe_d[2] == "player"
            if owners or side_to_move:
                n += 1
                good = bool(owners) and show(deep_strip(owners[0][2][1])) == show(pe_d) if owners else False
                rep.obligation(good)
                if not good:
                    bad("right/loop-colour", f"hash xors the castling word of colour `{show(pe)[:60]}` under a right of colour `{show(owners[0][2][1])[:80] if owners else '?'}`: rights held by both colours cancel out of a freshly computed key, so boards that differ only in castling rights share it", t.get("line"))
            continue
        n += 1
        flag = None
        owner = None
        for (e, pol, where) in guard_conditions(h, bb):
            e2 = strip_refs(e)
            if isinstance(e2, tuple) and e2[0] == "field" and e2[2] in ("king_side", "queen_side") and pol is True:
                flag = e2[2]
                idx = [x for x in walk(e2) if isinstance(x, tuple) and x[0] == "index"]
                if idx and isinstance(idx[0][2], tuple) and idx[0][2][0] == "const":
                    owner = idx[0][2][1]
        want_flag = {"Kingside": "king_side", "Queenside": "queen_side"}.get(s)
        pdisc = {v["name"]: v["discr"] for v in fx.adt("player::Player")["variants"]}.get(p)
        good = flag == want_flag and owner is not None and owner == pdisc
        rep.obligation(good)
        if good:
            seen_r.add((p, s))
        else:
            bad(f"right/{p}/{s}", f"hash xors the ({p}, {s}) castling word under flag `{flag}` of rights[{owner}] (expected `{want_flag}` of rights[{pdisc}])", t.get("line"))
    if not h.calls_to("zobrist::castle_rights") and in_closures_of_hash("zobrist::castle_rights"):
        rep.notes.append("C03-SCRATCH: castling words are xored inside closures of `hash`; the 4 rights are not decided")
        loop_rights = True
    if loop_rights:
        rep.notes.append("C03-SCRATCH: castling words are xored in a loop; the iteration domain is not decided statically")
    else:
        n += 1
        good = len(seen_r) == 4
        rep.obligation(good)
        if not good:
            bad("rights", f"hash covers {len(seen_r)} of the 4 castling rights")
    # en passant (unconditional, from game.en_passant_target) and side (iff Black)
    eps = h.calls_to("zobrist::en_passant")
    n += 1
    good = len(eps) == 1 and uncond(h, eps[0][0])
    if good:
        e = strip_refs(h.expr(eps[0][1]["args"][0], expand_named=True))
        good = isinstance(e, tuple) and e[0] == "field" and e[2] == "en_passant_target"
    rep.obligation(good)
    if not good:
        bad("ep", "hash does not xor en_passant(game.en_passant_target) exactly once, unconditionally")
    sides = h.calls_to("zobrist::side_to_play")
    n += 1
    good = len(sides) == 1
    if good:
        conds = guard_conditions(h, sides[0][0])
        good = False
        for (e, pol, where) in conds:
            if isinstance(e, tuple) and e[0] == "call" and isinstance(e[1], str) and e[1].endswith("PartialEq>::eq") and pol is True:
                a, b = strip_refs(e[2][0]), strip_refs(e[2][1])
                fld = [x for x in (a, b) if isinstance(x, tuple) and x[0] == "field" and x[2] == "player"]
                cst = [enum_const(x) for x in (a, b) if enum_const(x)]
                if fld and cst:
                    good = True
                    side_const = cst[0]
        # toggling is symmetric: either colour works as long as exactly one colour carries the word
    rep.obligation(good)
    if not good:
        bad("side", "hash does not xor the side-to-move word exactly when game.player equals one fixed colour")
    # floor: 7 family/static/ep/side obligations + 13 literal piece obligations + 5 literal rights obligations
    rep.rule("C03-SCRATCH", n, 7 + (0 if loop_pieces else 13) + (0 if loop_rights else 5), ok, "from-scratch hash vs incremental toggles")


# ---- C03-TOGGLE / C03-ACCESS ---------------------------------------------------------------


def rule_toggle_access(fx, rep):
    """(TOGGLE) each incremental toggle xors exactly its component word(s) into the key, unconditionally (set_en_passant: the
    old target's word out and the new target's word in; the only admissible shortcut is old == new). (ACCESS) each component
    accessor addresses its table injectively and in range: evaluated for every combination of its enum / square arguments,
    the index tuples are pairwise different and inside the table's dimensions, so different (colour, kind, square) /
    (colour, side) / target squares never share a word."""
    import itertools
    import re
    from facts import decision_paths
    ok = True
    n = 0

    def bad(rule, key, msg, b):
        nonlocal ok
        ok = False
        rep.violation(rule, f"{rule}/{key}", msg, {"fn": b.name, "file": b.file, "line": b.line})

    want = {"ZobristHash::toggle_piece_on_square": ("zobrist::piece_on_square", 1), "ZobristHash::toggle_castle_rights": ("zobrist::castle_rights", 1),
            "ZobristHash::toggle_side_to_play": ("zobrist::side_to_play", 1), "ZobristHash::set_en_passant": ("zobrist::en_passant", 2)}
    for tn, (acc, cnt) in want.items():
        b = fx.one(tn)
        n += 1
        calls = b.calls_to(acc)
        switches = [i for i in b.live_blocks() if b.blocks[i]["term"]["k"] == "switch"]
        good, why = True, ""
        if len(calls) != cnt:
            good, why = False, f"calls {acc} {len(calls)} time(s), expected {cnt}"
        elif switches:
            # the only harmless shortcut: nothing to do when old and new target are equal
            conds = []
            allowed = cnt == 2
            for i in switches:
                for (tgt, e, pol, v) in switch_edge_conds(b, i):
                    conds.append(show(e))
                    co = cmp_op(deep_strip(e)) if isinstance(deep_strip(e), tuple) else None
                    sides = {deep_strip(co[1])[:2], deep_strip(co[2])[:2]} if co and co[0] in ("Eq", "Ne") and all(isinstance(deep_strip(x), tuple) for x in co[1:3]) else set()
                    if sides != {("arg", 2), ("arg", 3)}:
                        allowed = False
            if not allowed:
                good, why = False, f"the key update is conditional on `{conds[0][:80]}`"
        if good:
            # every accessor result is xored into self.0: as many xor operations on the key as accessor calls
            xors = [st for bb, j, st in b.stmts() if st["k"] == "assign" and st.get("rv", {}).get("k") == "binop" and st["rv"]["op"] == "BitXor"]
            if len(xors) != cnt:
                good, why = False, f"{len(xors)} xor operation(s) for {cnt} component word(s)"
            if good and cnt == 2:
                a1 = [deep_strip(b.expr(t["args"][0], expand_named=True, at=bb)) for bb, t in calls]
                if a1[0] == a1[1]:
                    good, why = False, "both component words are taken for the same target"
        rep.obligation(good)
        if not good:
            bad("C03-TOGGLE", tn.split("::")[-1], f"`{tn}`: {why}: the carried key then differs from the recomputed one", b)
    dom = {"chess::player::Player": 2, "chess::piece::PieceKind": 6, "chess::square::Square": 64, "chess::game::CastleRightsSide": 2,
           "std::option::Option<chess::square::Square>": 64}

    def ev(e, env):
        e = deep_strip(e)
        if not isinstance(e, tuple) or not e:
            return None
        if e[0] == "const" and isinstance(e[1], int):
            return e[1]
        if e[0] == "arg":
            return env.get(e[1])
        if e[0] == "field" and e[2] == "0":
            return ev(e[1], env)
        if e[0] == "as":
            return ev(e[1], env)
        if e[0] == "cast":
            return ev(e[1], env)
        if e[0] == "call" and isinstance(e[1], str) and (e[1].endswith("::array_idx") or e[1].endswith("::idx")) and len(e[2]) == 1:
            return ev(e[2][0], env)
        if e[0] == "binop":
            a, c = ev(e[2], env), ev(e[3], env)
            if a is None or c is None:
                return None
            return {"Add": a + c, "Mul": a * c, "Sub": a - c, "Shl": a << c if c < 64 else None, "BitOr": a | c}.get(e[1].replace("WithOverflow", ""))
        return None
    for an in ("zobrist::piece_on_square", "zobrist::castle_rights", "zobrist::en_passant"):
        b = fx.one(an)
        tys = [b.local_ty(i) for i in range(1, b.arg_count + 1)]
        if any(t not in dom for t in tys):
            rep.notes.append(f"C03-ACCESS: `{an}` has a parameter type this rule does not enumerate; not decided")
            continue
        seen = {}
        undecided = False
        for conds, ret, last in decision_paths(b, 16):
            if ret is None:
                continue
            r = deep_strip(ret)
            idxs = []
            base = None
            cur = r[1] if isinstance(r, tuple) and r[0] == "deref" else r
            while isinstance(cur, tuple) and cur and cur[0] in ("call", "cast"):
                if cur[0] == "cast":
                    cur = cur[1]
                    continue
                if not str(cur[1]).endswith("get_unchecked"):
                    break
                idxs.append(cur[2][1])
                cur = cur[2][0]
            if isinstance(cur, tuple) and cur and cur[0] == "const?":
                base = str(cur[1])
            if base is None:
                undecided = True
                break
            dims = [int(x) for x in re.findall(r";\s*(\d+)\]", base)][::-1]
            idxs = idxs[::-1]
            if len(idxs) != len(dims):
                undecided = True
                break
            # argument combinations compatible with this path (Option discriminant)
            for combo in itertools.product(*[range(dom[t]) for t in tys]):
                env = {i + 1: v for i, v in enumerate(combo)}
                skip = False
                for (ce, val) in conds:
                    d = deep_strip(ce)
                    if isinstance(d, tuple) and d[0] == "discr":
                        # Option argument: this path is the Some-path (1) or the None-path (0); enumerate squares only on Some
                        if isinstance(val, int) and val == 0 and combo != tuple(0 for _ in combo):
                            skip = True
                if skip:
                    continue
                vals = tuple(ev(ix, env) for ix in idxs)
                if any(v is None for v in vals):
                    undecided = True
                    break
                n += 1
                in_range = all(0 <= v < d for v, d in zip(vals, dims))
                key = (base, vals)
                clash = seen.get(key)
                good = in_range and (clash is None or clash == combo)
                rep.obligation(good)
                if not good:
                    bad("C03-ACCESS", an.split("::")[-1], f"`{an}`: arguments {combo} address {base}{list(vals)}" + (f", the same word as arguments {clash}" if clash is not None and clash != combo else ", outside the table") +
                        ": two different components share a key word, so positions differing in exactly those components share a key", b)
                    undecided = True  # stop after the first report
                    break
                seen[key] = combo
            if undecided:
                break
        if undecided and ok:
            rep.notes.append(f"C03-ACCESS: `{an}` is not a chain of indexed reads this rule can evaluate; not decided")
    rep.rule("C03-TOGGLE", 4, 4, ok, "toggles xor exactly their component words, unconditionally")
    rep.rule("C03-ACCESS", n, 100, ok, "component accessors address their tables injectively and in range")


# ---- C03-INIT ------------------------------------------------------------------------------


def rule_init(fx, rep):
    ok = True
    n = 0
    init = fx.one("zobrist::init")
    comp = sorted(k for k in fx.statics if norm(k).startswith("chess::zobrist::components::"))
    writers = {}
    for b in fx.fn_bodies():
        for (s, kind, bb, idx) in static_accesses(b):
            if s in [norm(c) for c in comp] and kind in ("write", "mutaddr"):
                writers.setdefault(s, set()).add(b.name)
    for c in comp:
        n += 1
        w = writers.get(norm(c), set())
        good = w == {init.name}
        rep.obligation(good)
        rep.sample({"rule": "C03-INIT", "static": c, "writers": sorted(w)})
        if not good:
            ok = False
            rep.violation("C03-INIT", f"C03-INIT/{norm(c)}", f"key component static `{c}` is written by {sorted(w)} (expected exactly zobrist::init)",
                          {"fn": init.name, "file": init.file, "line": init.line})
    n += 1
    seeds = init.calls_to("SeedableRng::seed_from_u64")
    good = len(seeds) == 1 and seeds[0][1]["args"][0].get("k") == "const" and "int" in seeds[0][1]["args"][0]
    # no other randomness source in init
    other = [norm(callee_name(t)) for bb, t in init.calls() if callee_name(t) and ("thread_rng" in callee_name(t) or "from_entropy" in callee_name(t) or "OsRng" in callee_name(t))]
    good = good and not other
    rep.obligation(good)
    if not good:
        ok = False
        rep.violation("C03-INIT", "C03-INIT/seed", "zobrist::init is not seeded by a single constant seed_from_u64", {"fn": init.name, "file": init.file, "line": init.line})
    # every word of every table is drawn: the filling loops run over the whole dimension. A range whose exclusive end is the
    # *index of the last variant* (`File::A.idx()..File::H.idx()`) leaves the last word 0 - a component that is neither
    # non-zero nor distinct from "nothing there"
    for bb, j, st in init.stmts():
        rv = st.get("rv")
        if not (st["k"] == "assign" and rv and rv["k"] == "agg" and str(rv.get("adt", "")).endswith("Range") and len(rv.get("ops", [])) == 2):
            continue
        hi = deep_strip(init.expr(rv["ops"][1], expand_named=True, at=bb))
        n += 1
        last_idx = isinstance(hi, tuple) and hi and hi[0] == "call" and isinstance(hi[1], str) and hi[1].split("::")[-1] in ("idx", "array_idx") and hi[2] and \
            isinstance(deep_strip(hi[2][0]), tuple) and deep_strip(hi[2][0])[0] == "agg" and not deep_strip(hi[2][0])[2]
        rep.obligation(not last_idx)
        if last_idx:
            ok = False
            rep.violation("C03-INIT", "C03-INIT/range", f"zobrist::init fills a table over a range that ends (exclusively) at `{show(hi)[:60]}`, the index of an enum variant: the word of that last "
                          "variant is never drawn and stays 0, so that component contributes nothing to the key", {"fn": init.name, "file": init.file, "line": st.get("line")})
    rep.rule("C03-INIT", n, 6, ok, "component statics written only in zobrist::init; constant seed; filling ranges cover the tables")


G = "src/chess/game.rs"
Z = "src/chess/zobrist.rs"
MUTANTS = [
    {"name": "en-passant words per file, filled over A.idx()..H.idx() (seed C03-12a)", "expect": "C03-INIT/range",
     "edits": __import__("shared_mutants").edits_from_patch("seeded/C03-12a/patch.diff")},
    {"name": "take-back of castling moves the rook through the Game helpers after the key was restored (seed C03-7a)", "expect": "C03-PAIR/wholesale/Game::undo_move",
     "edits": [(G, "                self.board.remove_at(rook_to);\n                self.board\n                    .set_at(rook_from, Piece::new(player, PieceKind::Rook));", "                let rook = self.remove_at(rook_to);\n                self.set_at(rook_from, rook);")]},
    {"name": "benign: set_en_passant returns early when the target does not change", "benign": True,
     "edits": [("src/chess/zobrist.rs", "        self.0 ^= en_passant(previous_square);\n        self.0 ^= en_passant(square);", "        if previous_square == square {\n            return;\n        }\n        self.0 ^= en_passant(previous_square);\n        self.0 ^= en_passant(square);")]},
    {"name": "set_en_passant skips when both targets are present (seed C03-4a)", "expect": "C03-TOGGLE/set_en_passant",
     "edits": [("src/chess/zobrist.rs", "        self.0 ^= en_passant(previous_square);\n        self.0 ^= en_passant(square);", "        if previous_square.is_some() == square.is_some() {\n            return;\n        }\n        self.0 ^= en_passant(previous_square);\n        self.0 ^= en_passant(square);")]},
    {"name": "castling words addressed without a stride (seed C03-4b shape)", "expect": "C03-ACCESS/castle_rights",
     "edits": [("src/chess/zobrist.rs", "        components::CASTLING\n            .get_unchecked(player.array_idx())\n            .get_unchecked(side.array_idx())", "        components::CASTLING\n            .get_unchecked(side.array_idx())\n            .get_unchecked(side.array_idx())")]},
    {"name": "constructor drops an uncapturable en-passant target after hashing (seed C03-3)", "expect": "C03-PAIR/wholesale/Game::from_state",
     "edits": [("src/chess/game.rs", "        game.zobrist = zobrist::hash(&game);\n", "        game.zobrist = zobrist::hash(&game);\n\n        if let Some(target) = game.en_passant_target {\n            if !(target.bb().backward(player).west() & game.board.pawns(player)).any() {\n                game.en_passant_target = None;\n            }\n        }\n")]},
    {"name": "null move forgets side toggle", "expect": "C03-PAIR/side",
     "edits": [(G, "        self.player = self.player.other();\n        self.zobrist.toggle_side_to_play();\n    }\n\n    pub fn undo_move", "        self.player = self.player.other();\n    }\n\n    pub fn undo_move")]},
    {"name": "castle rights toggled even when already lost", "expect": "C03-PAIR/try_remove_castle_rights",
     "edits": [(G, "        if !castle_rights.can_castle_to_side(castle_rights_side) {\n            return;\n        }\n", "")]},
    {"name": "en passant target written without key update", "expect": "C03-PAIR/ep-write",
     "edits": [(G, "        self.zobrist.set_en_passant(self.en_passant_target, None);\n        self.en_passant_target = None;", "        self.en_passant_target = None;")]},
    {"name": "en passant key updated with stale new value", "expect": "C03-PAIR/ep-write",
     "edits": [(G, "            .set_en_passant(self.en_passant_target, new_en_passant_target);", "            .set_en_passant(self.en_passant_target, None);")]},
    {"name": "Game::set_at toggles wrong piece", "expect": "C03-PAIR/edit-toggle",
     "edits": [(G, "        self.zobrist.toggle_piece_on_square(sq, piece);\n        self.incremental_eval.set_at", "        self.zobrist.toggle_piece_on_square(sq, Piece::new(piece.player.other(), piece.kind));\n        self.incremental_eval.set_at")]},
    {"name": "make_move edits board directly for en passant victim", "expect": "C03-PAIR/board-writer",
     "edits": [(G, "            let capture_square = to.backward(player);\n            self.remove_at(capture_square);", "            let capture_square = to.backward(player);\n            let victim = self.board.piece_at(capture_square).unwrap();\n            self.board.remove_at(capture_square);\n            self.incremental_eval.remove_at(capture_square, victim);")]},
    {"name": "castling words of a loop-form hash taken from the side to move (seed C08-5b)", "expect": "C03-SCRATCH/right/loop-colour",
     "edits": [(Z, "    let [white_castle_rights, black_castle_rights] = game.castle_rights.inner();\n\n    // White\n    if white_castle_rights.king_side {\n        hash ^= castle_rights(Player::White, CastleRightsSide::Kingside);\n    }\n\n    if white_castle_rights.queen_side {\n        hash ^= castle_rights(Player::White, CastleRightsSide::Queenside);\n    }\n\n    // Black\n    if black_castle_rights.king_side {\n        hash ^= castle_rights(Player::Black, CastleRightsSide::Kingside);\n    }\n\n    if black_castle_rights.queen_side {\n        hash ^= castle_rights(Player::Black, CastleRightsSide::Queenside);\n    }\n",
                "    for player in [White, Black] {\n        let rights = game.castle_rights.for_player(player);\n        for side in [CastleRightsSide::Kingside, CastleRightsSide::Queenside] {\n            if rights.can_castle_to_side(side) {\n                hash ^= castle_rights(game.player, side);\n            }\n        }\n    }\n")]},
    {"name": "benign: castling words xored in a loop over (colour, side)", "benign": True,
     "edits": [(Z, "    let [white_castle_rights, black_castle_rights] = game.castle_rights.inner();\n\n    // White\n    if white_castle_rights.king_side {\n        hash ^= castle_rights(Player::White, CastleRightsSide::Kingside);\n    }\n\n    if white_castle_rights.queen_side {\n        hash ^= castle_rights(Player::White, CastleRightsSide::Queenside);\n    }\n\n    // Black\n    if black_castle_rights.king_side {\n        hash ^= castle_rights(Player::Black, CastleRightsSide::Kingside);\n    }\n\n    if black_castle_rights.queen_side {\n        hash ^= castle_rights(Player::Black, CastleRightsSide::Queenside);\n    }\n",
                "    for player in [White, Black] {\n        let rights = game.castle_rights.for_player(player);\n        for side in [CastleRightsSide::Kingside, CastleRightsSide::Queenside] {\n            if rights.can_castle_to_side(side) {\n                hash ^= castle_rights(player, side);\n            }\n        }\n    }\n")]},
    {"name": "hash skips black queens", "expect": "C03-SCRATCH",
     "edits": [(Z, "    for s in game.board.queens(Black) {\n        hash ^= piece_on_square(Player::Black, PieceKind::Queen, s);\n    }\n", "")]},
    {"name": "hash uses white rook set for black rooks", "expect": "C03-SCRATCH",
     "edits": [(Z, "    for s in game.board.rooks(Black) {", "    for s in game.board.rooks(White) {")]},
    {"name": "hash swaps castling flags", "expect": "C03-SCRATCH",
     "edits": [(Z, "    if black_castle_rights.king_side {", "    if black_castle_rights.queen_side {")]},
    {"name": "undo_null_move recomputes nothing for key", "expect": "C03-PAIR/wholesale",
     "edits": [(G, "        self.player = self.player.other();\n        self.zobrist = history.zobrist;\n        self.en_passant_target = history.en_passant_target;\n        self.halfmove_clock", "        self.player = self.player.other();\n        self.zobrist.toggle_side_to_play();\n        self.en_passant_target = history.en_passant_target;\n        self.halfmove_clock")]},
    {"name": "components re-seeded outside init", "expect": "C03-INIT",
     "edits": [(Z, "pub fn hash(game: &Game) -> ZobristHash {\n    use Player::*;\n", "pub fn hash(game: &Game) -> ZobristHash {\n    use Player::*;\n    if game.plies == 4_000_000 { unsafe { components::SIDE_TO_PLAY = 1; } }\n")]},
    {"name": "benign: reorder toggles in Game::set_at", "benign": True,
     "edits": [(G, "        self.board.set_at(sq, piece);\n        self.zobrist.toggle_piece_on_square(sq, piece);", "        self.zobrist.toggle_piece_on_square(sq, piece);\n        self.board.set_at(sq, piece);")]},
    {"name": "benign: local alias for new target", "benign": True,
     "edits": [(G, "        self.zobrist\n            .set_en_passant(self.en_passant_target, new_en_passant_target);\n        self.en_passant_target = new_en_passant_target;",
                "        let old_target = self.en_passant_target;\n        self.zobrist.set_en_passant(old_target, new_en_passant_target);\n        self.en_passant_target = new_en_passant_target;")]},
]
