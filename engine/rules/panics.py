"""P4 — panic-site cones: enumerate every panic-capable site in the call-graph cone of an entry point and
discharge each one automatically or by a named class rule (DESIGN.md §2.2)."""
import re

from facts import (norm, show, walk, strip_refs, deep_strip, callee_name, find_calls, guard_conditions, cmp_op,
                   option_guard)

NARROW = ("i8", "u8", "i16", "u16")

EXPLICIT = {
    # callee suffix -> family label
    "Option::unwrap": "unwrap", "Option::expect": "unwrap", "Result::unwrap": "unwrap", "Result::expect": "unwrap",
    "Result::unwrap_err": "unwrap", "Option::unwrap_unchecked": "unchecked",
    "panicking::panic": "panic", "panicking::panic_fmt": "panic", "panicking::panic_explicit": "panic",
    "panicking::assert_failed": "panic", "panicking::unreachable_display": "panic", "panicking::panic_display": "panic",
    "panicking::panic_nounwind": "panic", "rt::panic_fmt": "panic", "panicking::begin_panic": "panic",
    "ArrayString::push": "capacity", "ArrayString::push_str": "capacity", "ArrayString::from": "capacity",
    "ArrayVec::push": "capacity", "ArrayVec::insert": "capacity", "ArrayVec::extend_from_slice": "capacity",
    "Index>::index": "index", "IndexMut>::index_mut": "index", "Index<I>>::index": "index", "IndexMut<I>>::index_mut": "index",
    "slice::swap": "index", "ArrayVec::swap": "index", "copy_from_slice": "index", "split_at": "index", "Vec::remove": "index",
    "Vec::swap_remove": "index", "Vec::insert": "index", "str::split_at": "index",
    # range / index access of str and slices as the resolved library impls are named (`&s[..n]` panics off a char boundary or past the end)
    "str::traits::index": "index", "str::traits::index_mut": "index", "slice::index::index": "index", "slice::index::index_mut": "index",
    "String::remove": "index", "String::insert": "index", "String::insert_str": "index", "String::split_off": "index", "String::drain": "index",
    "String::replace_range": "index", "Vec::drain": "index", "Vec::split_off": "index", "slice::chunks": "index", "slice::chunks_exact": "index",
    "slice::chunks_mut": "index", "slice::chunks_exact_mut": "index", "slice::rchunks": "index", "slice::rchunks_mut": "index",
    "slice::windows": "index", "slice::rotate_left": "index", "slice::rotate_right": "index", "slice::split_at_mut": "index", "char::from_digit": "index",
    "char::to_digit": "index", "str::split_at_mut": "index",
    "Duration::mul_f32": "duration", "Duration::mul_f64": "duration", "Duration::div_f32": "duration",
    "Duration as std::ops::Add>::add": "duration", "Duration as std::ops::Sub>::sub": "duration", "Duration as std::ops::Div<u32>>::div": "duration",
    "Duration as std::ops::Mul<u32>>::mul": "duration", "Duration::from_secs_f32": "duration", "Duration::from_secs_f64": "duration",
    "Instant as std::ops::Sub>::sub": "duration", "Instant as std::ops::Add<std::time::Duration>>::add": "duration",
    "slice::get_unchecked": "unchecked", "slice::get_unchecked_mut": "unchecked", "NonZero::new_unchecked": "unchecked",
    "hint::unreachable_unchecked": "unchecked", "get_unchecked": "unchecked", "get_unchecked_mut": "unchecked",
    "RefCell::borrow": "borrow", "RefCell::borrow_mut": "borrow",
    # `clamp` asserts min <= max (also in optimised builds)
    "Ord::clamp": "clamp", "f32::clamp": "clamp", "f64::clamp": "clamp",
    "Mutex::lock": None,
}
ASSERT_FAMILY = {"Overflow": "arith", "OverflowNeg": "arith", "DivisionByZero": "divzero", "RemainderByZero": "divzero", "BoundsCheck": "bounds"}


class Site:
    __slots__ = ("body", "bb", "family", "what", "ty", "ops", "line", "exp", "term", "stmt")

    def __init__(self, body, bb, family, what, ty, ops, line, exp=None, term=None, stmt=None):
        self.body, self.bb, self.family, self.what, self.ty, self.ops, self.line, self.exp, self.term, self.stmt = body, bb, family, what, ty, ops, line, exp or [], term, stmt

    def key(self):
        return f"{norm(self.body.name)}/{self.family}/{self.what}"

    def describe(self):
        return f"{self.family}:{self.what}({', '.join(show(o)[:50] for o in self.ops)}) in {norm(self.body.name)}:{self.line}"


def sites_of(body, fx):
    out = []
    for bb in sorted(body.live_blocks()):
        blk = body.blocks[bb]
        if blk.get("cleanup"):
            continue
        t = blk["term"]
        if t["k"] == "assert":
            fam = ASSERT_FAMILY.get(t["msg"])
            if fam is None:
                continue
            ops = [body.expr(o, expand_named=True, at=bb) for o in t["ops"]]
            ty = ""
            for s in reversed(blk["stmts"]):
                rv = s.get("rv")
                if rv and rv["k"] == "binop":
                    ty = rv.get("aty", "")
                    break
                if rv and rv["k"] == "unop":
                    ty = rv.get("aty", "")
                    break
            what = t.get("binop") or t["msg"]
            out.append(Site(body, bb, fam, what, ty, ops, t.get("line"), t.get("exp"), term=t))
        elif t["k"] == "call":
            cn = norm(callee_name(t) or "")
            fam = None
            label = None
            for suf, f in EXPLICIT.items():
                if cn.endswith(suf):
                    fam, label = f, suf
                    break
            if fam is None:
                continue
            ops = [body.expr(a, expand_named=True, at=bb) for a in t["args"]]
            out.append(Site(body, bb, fam, label.split("::")[-1] if fam != "duration" else label, "", ops, t.get("line"), t.get("exp"), term=t))
        # transmute casts
        for s in blk["stmts"]:
            rv = s.get("rv")
            if rv and rv["k"] == "cast" and "Transmute" in rv.get("cast", "") and not is_ptr_check_cast(rv):
                out.append(Site(body, bb, "unchecked", "transmute", rv["to"], [body.expr(rv["op"], expand_named=True, at=bb)], s.get("line"), s.get("exp"), stmt=s))
    return out


def is_ptr_check_cast(rv):
    """compiler-inserted alignment / null checks transmute pointers to usize"""
    return rv.get("to") == "usize" and rv.get("from", "").startswith("*")


def enumerate_cone(fx, roots, stop=()):
    cone = fx.cone(roots, stop=stop)
    sites = []
    for nm in sorted(cone):
        b = fx.bodies[nm]
        if b.kind not in ("Fn", "AssocFn", "Closure"):
            continue
        sites.extend(sites_of(b, fx))
    return cone, sites


# ---- automatic dischargers -------------------------------------------------------------------


def const_val(e):
    e = deep_strip(e)
    if isinstance(e, tuple) and e[0] == "const" and isinstance(e[1], (int, float)) and not isinstance(e[1], bool):
        return e[1]
    return None


def is_widening(e):
    """value is an integer widening of a narrower type: From<u8> for i16 etc. or `as` cast upward"""
    e = deep_strip(e)
    if isinstance(e, tuple) and e[0] == "call" and re.search(r"From<(u8|i8|u16|i16|bool)>>::from$", e[1]):
        return True
    if isinstance(e, tuple) and e[0] == "cast":
        return True
    return False


def auto_discharge(site, fx):
    """Return a reason string when the site provably cannot panic by a generic argument, else None."""
    f = site.family
    if f == "arith":
        # wide counters: cannot be exhausted by any reachable input
        if site.ty and site.ty not in NARROW:
            if site.what in ("Shl", "Shr"):
                c = const_val(site.ops[1]) if len(site.ops) > 1 else None
                if c is not None:
                    return "shift by a constant smaller than the width"
                return None
            if site.ty in ("usize", "u64", "i64", "u128", "i128", "isize"):
                vals = [const_val(o) for o in site.ops]
                if site.what in ("Add", "Mul", "Sub") :
                    return None  # decided by class rules (wide arithmetic class) so that they are counted
            return None
        vals = [const_val(o) for o in site.ops]
        if all(v is not None for v in vals) and vals:
            return "constant operands"
        return None
    if f == "divzero":
        c = const_val(site.ops[0]) if site.ops else None
        # the assert's operand is the dividend; the divisor is in the preceding Eq test: find it
        blk = site.body.blocks[site.bb]
        for s in reversed(blk["stmts"]):
            rv = s.get("rv")
            if rv and rv["k"] == "binop" and rv["op"] == "Eq":
                d = const_val(site.body.expr(rv["a"], expand_named=True, at=site.bb))
                if d is not None and d != 0:
                    return "division by a non-zero constant"
                break
        return None
    if f == "bounds":
        # index < len where len is a constant and the index is provably smaller
        ln = const_val(site.ops[0]) if site.ops else None
        ix = site.ops[1] if len(site.ops) > 1 else None
        if ln is not None and ix is not None:
            c = const_val(ix)
            if c is not None and 0 <= c < ln:
                return "constant index within a constant length"
            why = index_bounded(site.body, ix, ln, fx)
            if why:
                return why
        return None
    return None


def index_bounded(body, ix, ln, fx):
    """index expression provably < ln (a constant array length)"""
    d = deep_strip(ix)
    # X::array_idx() of an enum / Square whose N == ln
    if isinstance(d, tuple) and d[0] == "call":
        m = re.match(r"^(.*)::array_idx$", d[1])
        if m:
            n = type_cardinality(fx, m.group(1))
            if n is not None and n <= ln:
                return f"{m.group(1).split('::')[-1]}::array_idx() < {n} <= {ln}"
        if d[1].endswith("Square::idx") and ln >= 64:
            return "Square::idx() < 64"
        if d[1].endswith("cmp::min") or d[1].endswith("Ord::min"):
            for a in d[2]:
                c = const_val(a)
                if c is not None and c < ln:
                    return f"min(_, {c}) < {ln}"
    # loop induction variable of 0..N with N <= ln
    if isinstance(d, tuple) and d[0] == "field" and d[2] == "0" and isinstance(d[1], tuple) and d[1][0] == "as":
        rng = [x for x in walk(d) if isinstance(x, tuple) and x and x[0] == "agg" and str(x[1]).endswith("Range::Range")]
        if rng:
            lo, hi = const_val(rng[0][2][0]), const_val(rng[0][2][1])
            if lo is not None and hi is not None and 0 <= lo and hi <= ln:
                return f"loop index in {lo}..{hi} <= {ln}"
    if isinstance(d, tuple) and d[0] == "cast":
        inner = deep_strip(d[1])
        # u8 as usize into an array of >= 256
        if ln >= 256 and isinstance(inner, tuple):
            return None
    if isinstance(d, tuple) and d[0] == "binop" and d[1] in ("Rem",):
        c = const_val(d[3])
        if c is not None and 0 < c <= ln:
            return f"_ % {c} < {ln}"
    if isinstance(d, tuple) and d[0] == "binop" and d[1] in ("Div",):
        pass
    return None


def type_cardinality(fx, tyname):
    t = tyname.split("::")[-1]
    for k, a in fx.adts.items():
        if norm(k).endswith("::" + t) or norm(k) == t:
            if a["kind"] == "enum":
                return len(a["variants"])
            if t == "Square":
                return 64
    return None
