"""C16 — evaluation is colour-symmetric, bounded and a proper blend: structural clauses C16-BLEND, C16-MIRROR,
C16-BOUND (DESIGN.md §3)."""
import struct

import re
from facts import (norm, show, walk, strip_refs, deep_strip, callee_name, find_calls, guard_conditions, cmp_op,
                   decision_paths, inline_expr, enum_name, static_accesses)

EXPLANATION = (
    "Decides structural and constant-level clauses of C16, not the equality of mirrored evaluations for all positions: "
    "(BLEND) in the tapered interpolation both weights derive from the game phase only through the clamp "
    "min(phase, MAX), are w and MAX - w of the same clamped w, the divisor is MAX, and the phase contributions are "
    "non-negative constants, so 0 <= w <= MAX and the result is a convex combination of the two i16 inputs; (MIRROR) "
    "the white and black piece-square and passed-pawn tables are built from the same definition constant and kind by "
    "white_pst = add_material(flatten(flip(D))) and black_pst = negate(add_material(flatten(D))), flip reverses ranks, "
    "negate negates every entry, every per-player term routine is invoked once per colour and combined by the "
    "matching sign; (BOUND) an interval bound computed from the evaluated parameter tables (material + piece-square, "
    "mobility, passed pawns, bishop pair, king attack) for at most 15 non-king men a side stays strictly inside the "
    "mate threshold and the packed accumulator halves inside i16; the set of parameter constants referenced by the "
    "evaluation must equal the modelled set."
)


def run(fx, rep, tier):
    rule_blend(fx, rep)
    rule_mirror(fx, rep)
    rule_pack(fx, rep)
    rule_bound(fx, rep)
    rule_cone(fx, rep)
    rule_evalop(fx, rep)


def rule_evalop(fx, rep):
    """C16-CONE/evalop. The score types' own operators are unchecked i16 / i32 arithmetic; inside the evaluation their call sites
    are sums of bounded terms (C16-BOUND). A call site in the evaluation that *scales* the blended value - `eval * k`, k not a
    constant in {-1, 0, 1} - is no such sum and leaves i16 long before the mate threshold: the C04-EVALOP classification of the
    evaluation's own call sites, re-reported here."""
    import core
    import pC04
    roots = [b.name for b in fx.fn_bodies() if norm(b.name) in ("engine::eval::eval", "engine::eval::absolute_eval_with_trace") or norm(b.name).startswith("engine::eval::absolute_eval_with_trace")]
    if not roots:
        rep.rule("C16-CONE/evalop", 0, 0, True, "evaluation entry not found: not decided")
        return
    sub = type(rep)(rep.prop, rep.tier)
    q = core.QUIET
    core.QUIET = True
    try:
        pC04.rule_evalop(fx, sub, fx.cone(roots))
    finally:
        core.QUIET = q
    vs = [v for v in sub.violations if v["key"].startswith("C04-EVALOP/engine::eval::")]
    for v in vs:
        rep.violation("C16-CONE", v["key"].replace("C04-EVALOP/", "C16-CONE/evalop/"), v["msg"] + " (the evaluation then does not complete, or wraps, for a legal position)", v["site"])
    rep.obligations += sub.obligations
    rep.discharged += sub.discharged
    # an arithmetic right shift of the signed blended value rounds towards minus infinity: x >> 1 of 887 is 443, of -887 it is
    # -444, so a position and its colour-mirrored twin no longer evaluate to exact negatives
    shifts = []
    for nm in sorted(fx.cone(roots)):
        eb = fx.bodies[nm]
        if not norm(eb.name).startswith("engine::eval::") or "phased_eval::" in norm(eb.name):
            continue  # the packed word's own decoders shift by design (C16-PACK)
        for bb, j, st in eb.stmts():
            rv = st.get("rv")
            if st["k"] == "assign" and rv and rv["k"] == "binop" and rv["op"].replace("WithOverflow", "").replace("Unchecked", "") == "Shr" and "pl" in rv["a"]:
                pl = rv["a"]["pl"]
                base_ty = eb.local_ty(pl["l"])
                e = deep_strip(eb.expr(rv["a"], expand_named=True, at=bb))
                signed_score = any(t in base_ty for t in ("WhiteEval", "player_eval::Eval")) or any(isinstance(x, tuple) and x and x[0] == "call" and "for_phase" in str(x[1]) for x in walk(e))
                if signed_score:
                    shifts.append((eb, st.get("line")))
    for eb, line in shifts:
        rep.obligation(False)
        rep.violation("C16-CONE", f"C16-CONE/evalop/shift/{norm(eb.name).split('::')[-1]}", f"`{eb.name}` (line {line}) scales a signed score with an arithmetic right shift: it rounds towards minus infinity, so "
                      "the evaluation of a position and of its colour-mirrored twin are no longer exact negatives (and the result can leave the interval between the two pure scores)", {"fn": eb.name, "file": eb.file, "line": line})
    rep.rule("C16-CONE/evalop", sub.obligations, 0, not vs and not shifts, "score arithmetic at the evaluation's own call sites (shared with C04-EVALOP); no right shift of a signed score")


def rule_cone(fx, rep):
    """'For every legal position ... evaluation completes': the panic sites (table indexing, arithmetic, unwraps) in the
    call-graph cone of eval::eval are discharged exactly as in C04-CONE - same interval arguments and class table; in
    particular a mobility / king-zone count indexes its table only if the popcount bound of the counted set (attack-set
    geometry, `&` = min, `|` = sum) is below the table's length (seed C16-5b: king zone widened by the king's own square)."""
    import core
    import pC04
    roots = [b.name for b in fx.fn_bodies() if norm(b.name) in ("engine::eval::eval", "engine::eval::eval_components") or norm(b.name).startswith("engine::eval::eval::<")]
    if not roots:
        roots = [fx.one("eval::eval").name]
    sub = type(rep)(rep.prop, rep.tier)
    q = core.QUIET
    core.QUIET = True
    try:
        pC04.run_cone(fx, sub, "C16-CONE", roots, pC04.exempt_roots(fx), 20)
    finally:
        core.QUIET = q
    for v in sub.violations:
        rep.violation("C16-CONE", v["key"], v["msg"], v["site"])
    rep.obligations += sub.obligations
    rep.discharged += sub.discharged
    rep.analysed["C16-CONE_cone_bodies"] = sub.analysed.get("C16-CONE_cone_bodies")
    r = sub.rules[-1]
    rep.rule("C16-CONE", r["instances"], 20, not sub.violations, "panic sites in the evaluation's cone (shared with C04-CONE)")


# ---- C16-BLEND -----------------------------------------------------------------------------


def rule_blend(fx, rep):
    ok = True
    n = 0
    fp = fx.one("PhasedEval::for_phase")

    def bad(key, msg, b=None):
        nonlocal ok
        ok = False
        b = b or fp
        rep.violation("C16-BLEND", f"C16-BLEND/{key}", msg, {"fn": b.name, "file": b.file, "line": b.line})

    pmax = fx.const("phased_eval::PHASE_COUNT_MAX").get("int")
    ret = fp.expr({"l": 0, "p": []}, expand_named=True)
    div = [x for x in walk(ret) if isinstance(x, tuple) and x and x[0] == "binop" and x[1] == "Div"]
    n += 1
    good = len(div) == 1
    rep.obligation(good)
    if not good:
        bad("shape", f"for_phase does not compute a single quotient: `{show(ret)[:200]}`")
        rep.rule("C16-BLEND", n, 6, False)
        return
    num, den = div[0][2], div[0][3]

    def unwrap0(e):
        e = deep_strip(e)
        if isinstance(e, tuple) and e[0] == "field" and e[2] == "0" and isinstance(e[1], tuple) and e[1][0] == "binop":
            return e[1]
        return e
    s = unwrap0(num)
    prods = []
    if isinstance(s, tuple) and s[0] == "binop" and s[1].startswith("Add"):
        for p in (unwrap0(s[2]), unwrap0(s[3])):
            if isinstance(p, tuple) and p[0] == "binop" and p[1].startswith("Mul"):
                prods.append((deep_strip(p[2]), deep_strip(p[3])))
    n += 1
    good = len(prods) == 2
    rep.obligation(good)
    if not good:
        bad("shape", f"the numerator is not a sum of two products: `{show(num)[:160]}`")
        rep.rule("C16-BLEND", n, 6, False)
        return

    def is_clamped(e):
        e = deep_strip(e)
        if isinstance(e, tuple) and e[0] == "call" and (e[1].endswith("Ord::min") or e[1].endswith("cmp::min")):
            a = [deep_strip(x) for x in e[2]]
            has_phase = any(isinstance(x, tuple) and x[0] == "call" and x[1].endswith("from") and deep_strip(x[2][0]) == ("arg", 2, fp.local_name(2)) for x in a)
            has_max = any(x == ("const", pmax) or (isinstance(x, tuple) and x[0] == "constpath" and x[1].endswith("PHASE_COUNT_MAX")) for x in a)
            return has_phase and has_max
        return False

    def component(e):
        e = deep_strip(e)
        if isinstance(e, tuple) and e[0] == "call" and e[1].endswith("from") and e[2]:
            c = find_calls(e[2][0], "PhasedEval::midgame", "PhasedEval::endgame")
            if c:
                return c[0][1].split("::")[-1]
        return None

    weights = {}
    for a, b in prods:
        comp = component(a) or component(b)
        w = b if component(a) else a
        weights[comp] = w
    n += 1
    good = set(weights) == {"midgame", "endgame"}
    rep.obligation(good)
    if not good:
        bad("components", f"the two products do not weight the midgame and the endgame value: {list(weights)}")
    else:
        wm, we = weights["midgame"], weights["endgame"]
        n += 1
        good = is_clamped(wm)
        rep.obligation(good)
        if not good:
            bad("midgame-weight", f"the midgame weight `{show(wm)[:100]}` is not min(phase, PHASE_COUNT_MAX)")
        n += 1
        we2 = unwrap0(we)
        good = isinstance(we2, tuple) and we2[0] == "binop" and we2[1].startswith("Sub") and \
            (deep_strip(we2[2]) == ("const", pmax) or (isinstance(deep_strip(we2[2]), tuple) and deep_strip(we2[2])[0] == "constpath")) and deep_strip(we2[3]) == deep_strip(wm)
        rep.obligation(good)
        if not good:
            bad("endgame-weight", f"the endgame weight `{show(we)[:100]}` is not PHASE_COUNT_MAX minus the clamped midgame weight: with promoted pieces the phase exceeds its maximum and the weight turns negative")
    n += 1
    d = deep_strip(den)
    good = d == ("const", pmax) or (isinstance(d, tuple) and d[0] == "constpath" and d[1].endswith("PHASE_COUNT_MAX"))
    rep.obligation(good)
    if not good:
        bad("divisor", f"the divisor `{show(den)}` is not PHASE_COUNT_MAX ({pmax}): the weights do not sum to the divisor")
    # contributions are non-negative constants
    pc = fx.one("phased_eval::piece_phase_value_contribution")
    vals = []
    for conds, r, bb in decision_paths(pc):
        if r is not None:
            rr = deep_strip(r)
            if isinstance(rr, tuple) and rr[0] == "index" and isinstance(deep_strip(rr[1]), tuple) and deep_strip(rr[1])[0] == "constpath":
                # lookup in a constant table indexed by the kind: every entry is a possible contribution
                tab = [v for k, v in fx.consts.items() if norm(k) == deep_strip(rr[1])[1]]
                import re as _re
                m = _re.match(r"\[(i8|i16|i32|i64|u8|u16|u32|u64); ", tab[0].get("ty", "")) if tab and "bytes" in tab[0] else None
                if m:
                    w = {"8": 1, "16": 2, "32": 4, "64": 8}[m.group(1)[1:]]
                    raw = bytes.fromhex(tab[0]["bytes"])
                    vals += [int.from_bytes(raw[i:i + w], "little", signed=m.group(1)[0] == "i") for i in range(0, len(raw), w)]
                    continue
            vals.append(rr[1] if isinstance(rr, tuple) and rr[0] == "const" else None)
    n += 1
    good = bool(vals) and all(isinstance(v, int) and v >= 0 for v in vals)
    rep.obligation(good)
    rep.sample({"rule": "C16-BLEND", "phase_contributions": vals, "PHASE_COUNT_MAX": pmax})
    if not good:
        bad("contributions", f"piece_phase_value_contribution returns {vals}; a negative contribution makes the midgame weight negative", pc)
    # the evaluation is ONE blend of the summed terms: `for_phase` truncates (`/ MAX`), so a sum of separately blended terms is a
    # sum of several truncations and can leave [min(midgame, endgame), max(..)] of the position's totals by up to terms-1 units
    tops = [b0 for b0 in fx.fn_bodies() if norm(b0.name).startswith("engine::eval::absolute_eval_with_trace") and b0.kind == "Fn"]
    if len(tops) == 1:
        tpaths = [p0 for p0 in decision_paths(tops[0], 200) if p0[1] is not None]
        if tpaths and len(tpaths) < 200:
            n += 1
            worst = max(len([c0 for c0 in walk(ret0) if isinstance(c0, tuple) and c0 and c0[0] == "call" and isinstance(c0[1], str) and c0[1].endswith("PhasedEval::for_phase")]) for _c, ret0, _l in tpaths)
            good = worst <= 1
            rep.obligation(good)
            if not good:
                bad("once", f"`{tops[0].name}` returns a value built from {worst} separate `for_phase` blends: each one truncates, so their sum can fall outside the interval between the position's "
                    "pure middlegame and pure endgame totals (by up to one unit per extra blend) whenever the two totals are close", tops[0])
    rep.rule("C16-BLEND", n, 7, ok, "blend weights w and MAX - w of the same clamped w; one blend of the summed terms")


# ---- C16-MIRROR ----------------------------------------------------------------------------


def table_stores(fx, body, static_suffix):
    """[(idx_exprs, value_expr, line)] for stores into a static table"""
    out = []
    ptrs = set()
    for bb, j, s in body.stmts(live_only=False):
        if s["k"] == "assign" and s["rv"]["k"] == "use" and s["rv"]["op"].get("k") == "const" and norm(s["rv"]["op"].get("static", "")).endswith(static_suffix):
            ptrs.add(s["lhs"]["l"])
    for bb, j, s in body.stmts():
        if s["k"] == "assign" and s["lhs"]["l"] in ptrs and s["lhs"].get("p") and s["lhs"]["p"][0] == "*":
            idx = [body.expr({"l": p["idx"], "p": []}, expand_named=True, at=bb) for p in s["lhs"]["p"] if isinstance(p, dict) and "idx" in p]
            val = body.expr(s["rv"].get("op"), expand_named=True, at=bb) if s["rv"]["k"] == "use" else None
            out.append((idx, val, s.get("line")))
    return out


def term_loops(fx):
    """[(body, next_block, loop_blocks, carried_locals)] for every iterator loop in the evaluation's term functions: carried =
    locals initialised before the loop and written again inside it (assignment, call result, or `&mut` taken), iterators
    excluded."""
    roots = [b.name for b in fx.fn_bodies() if norm(b.name) == "engine::eval::eval" or norm(b.name).startswith("engine::eval::eval::<")]
    if not roots:
        roots = [fx.one("eval::eval").name]
    out = []
    for nm in sorted(fx.cone(roots)):
        b = fx.bodies[nm]
        if not norm(nm).startswith("engine::eval::") or "::tests::" in nm or b.kind == "Closure":
            continue
        live = b.live_blocks()
        nexts = [(nb, t) for nb, t in b.calls() if norm(callee_name(t) or "").endswith("Iterator>::next") or norm(callee_name(t) or "").endswith("Iterator::next")]
        for nb, t in nexts:
            loop = {x for x in b.reachable(nb) if nb in b.reachable(x)} & live
            if len(loop) < 2:
                continue
            # the iterators themselves - of this loop and of loops nested in it (followed through the reborrows handed to next())
            iters = set()
            dq = [a["pl"]["l"] for (_nb2, t2) in nexts for a in t2["args"] if "pl" in a]
            while dq:
                l = dq.pop()
                if l in iters:
                    continue
                iters.add(l)
                for rec in b.defs().get(l, []):
                    if rec[0] == "stmt" and rec[3]["k"] == "assign" and rec[3]["rv"]["k"] in ("ref", "use") and "pl" in (rec[3]["rv"].get("pl") and rec[3]["rv"] or rec[3]["rv"].get("op") or {}):
                        src = rec[3]["rv"].get("pl") or rec[3]["rv"]["op"]["pl"]
                        dq.append(src["l"])
            written_in, written_out = set(), set()
            for bb, j, st in b.stmts():
                if st["k"] != "assign":
                    continue
                tgt = None
                if not (st["lhs"].get("p") and st["lhs"]["p"][0] == "*"):
                    tgt = st["lhs"]["l"]
                    (written_in if bb in loop else written_out).add(tgt)
                rv = st["rv"]
                if rv["k"] == "ref" and rv.get("mut") and not (rv["pl"].get("p") and rv["pl"]["p"][0] == "*") and bb in loop:
                    written_in.add(rv["pl"]["l"])
            for bb, ct in b.calls():
                (written_in if bb in loop else written_out).add(ct["dest"]["l"])
            carried = {l for l in written_in if (l in written_out or l <= b.arg_count) and l not in iters and l > b.arg_count}
            out.append((b, nb, loop, carried))
    return out


def rule_mirror(fx, rep):
    ok = True
    n = 0

    def bad(key, msg, b, line=None):
        nonlocal ok
        ok = False
        rep.violation("C16-MIRROR", f"C16-MIRROR/{key}", msg, {"fn": b.name, "file": b.file, "line": line or b.line})

    ini = fx.one("piece_square_tables::init")
    stores = table_stores(fx, ini, "piece_square_tables::TABLES")
    tab = {}
    for idx, val, line in stores:
        if len(idx) != 2 or val is None:
            continue
        p = enum_name(idx[0][2][0]) if isinstance(idx[0], tuple) and idx[0][0] == "call" and idx[0][1].endswith("array_idx") else None
        k = enum_name(idx[1][2][0]) if isinstance(idx[1], tuple) and idx[1][0] == "call" and idx[1][1].endswith("array_idx") else None
        v = deep_strip(val)
        if p and k and isinstance(v, tuple) and v[0] == "call":
            fn = v[1].split("::")[-1]
            d = v[2][0][1] if isinstance(v[2][0], tuple) and v[2][0][0] == "constpath" else show(v[2][0])
            kk = enum_name(v[2][1]) if len(v[2]) > 1 else None
            tab[(p, k)] = (fn, d, kk, line)
    kinds = [v["name"] for v in fx.adt("piece::PieceKind")["variants"]]
    rep.sample({"rule": "C16-MIRROR", "tables": {f"{p} {k}": list(v[:3]) for (p, k), v in sorted(tab.items())}})
    if not tab:
        # loop form: `for (piece, def) in DEFINITIONS { TABLES[White][piece.array_idx()] = white_pst(def, piece) }` (and the same
        # for Black): decided per colour on the element of the iterated constant - the table slot, the definition and the kind all
        # come from the same element, and both colours iterate the same constant. Which kinds the constant lists is not decided.
        loop = {}
        for idx, val, line in stores:
            if len(idx) != 2 or val is None:
                continue
            p = enum_name(idx[0][2][0]) if isinstance(idx[0], tuple) and idx[0][0] == "call" and idx[0][1].endswith("array_idx") else None
            v = deep_strip(val)
            kx = deep_strip(idx[1][2][0]) if isinstance(idx[1], tuple) and idx[1][0] == "call" and idx[1][1].endswith("array_idx") else None
            if not (p and isinstance(v, tuple) and v[0] == "call" and len(v[2]) == 2 and isinstance(kx, tuple) and kx[0] == "field"):
                continue
            elem = kx[1]
            d_, k_ = deep_strip(v[2][0]), deep_strip(v[2][1])
            consts_ = sorted({x[1] for x in walk(elem) if isinstance(x, tuple) and x and x[0] == "constpath"})
            loop[p] = (v[1].split("::")[-1], k_ == kx, isinstance(d_, tuple) and d_[0] == "field" and d_[1] == elem and d_[2] != kx[2], tuple(consts_))
        if set(loop) == {"White", "Black"}:
            n += 1
            w, b = loop["White"], loop["Black"]
            good = w[0] == "white_pst" and b[0] == "black_pst" and w[1] and b[1] and w[2] and b[2] and w[3] == b[3] and len(w[3]) == 1
            rep.obligation(good)
            rep.notes.append("C16-MIRROR: the piece-square tables are filled in a loop over a constant list of (kind, definition) pairs; which kinds the list contains is not decided")
            if not good:
                bad("pst/loop", f"piece-square tables filled in a loop: white {w}, black {b}; both colours must store builder(def, kind) of the same element of the same constant into that kind's slot", ini)
            kinds = []
    for k in kinds:
        n += 1
        w, b = tab.get(("White", k)), tab.get(("Black", k))
        good = w is not None and b is not None and w[0] == "white_pst" and b[0] == "black_pst" and w[1] == b[1] and w[2] == b[2] == k
        rep.obligation(good)
        if not good:
            bad(f"pst/{k}", f"piece-square tables of {k}: white built by {w[:3] if w else None}, black by {b[:3] if b else None}; both must come from the same definition and the kind {k}", ini, (w or b or (0, 0, 0, None))[3])
    # the two builders
    wp = [b for b in fx.fn_bodies() if norm(b.name).endswith("piece_square_tables::init::white_pst")]
    bp = [b for b in fx.fn_bodies() if norm(b.name).endswith("piece_square_tables::init::black_pst")]
    n += 1
    good = len(wp) == 1 and len(bp) == 1
    if good:
        we = deep_strip(wp[0].expr({"l": 0, "p": []}, expand_named=True))
        be = deep_strip(bp[0].expr({"l": 0, "p": []}, expand_named=True))

        def chain(e):
            names = []
            while isinstance(e, tuple) and e[0] == "call":
                names.append(e[1].split("::")[-1])
                e = deep_strip(e[2][0])
            return names, e
        wc, wl = chain(we)
        bc, bl = chain(be)
        good = wc == ["add_material", "flatten", "flip"] and bc == ["negate", "add_material", "flatten"] and wl == bl == ("arg", 1, wp[0].local_name(1))
        rep.sample({"rule": "C16-MIRROR", "white_pst": wc, "black_pst": bc})
    rep.obligation(good)
    if not good:
        bad("builders", "white_pst / black_pst are not add_material(flatten(flip(def))) / negate(add_material(flatten(def)))", ini)
    # flip reverses ranks (evaluated for every loop index), negate negates, flatten reads [i / 8][i % 8]
    flip = fx.one("piece_square_tables::flip")
    n += 1
    rank_n = fx.const("square::Rank::N").get("int")
    good = False
    for bb, j, s in flip.stmts():
        if s["k"] == "assign" and s["lhs"].get("p") and any(isinstance(p, dict) and "idx" in p for p in s["lhs"]["p"]) and s["rv"]["k"] == "use":
            dst_i = flip.expr({"l": [p["idx"] for p in s["lhs"]["p"] if isinstance(p, dict) and "idx" in p][0], "p": []}, expand_named=True, at=bb)
            val = deep_strip(flip.expr(s["rv"]["op"], expand_named=True, at=bb))
            if isinstance(val, tuple) and val[0] == "index":
                src_i = val[2]
                good = all(num_eval(src_i, i) == rank_n - 1 - i and num_eval(dst_i, i) == i for i in range(rank_n))
    rep.obligation(good)
    if not good:
        bad("flip", "flip does not copy rank N - 1 - i into rank i for every i", flip)
    flat = fx.one("piece_square_tables::flatten")
    n += 1
    good = False
    for bb, j, s in flat.stmts():
        if s["k"] == "assign" and s["lhs"].get("p") and any(isinstance(p, dict) and "idx" in p for p in s["lhs"]["p"]) and s["rv"]["k"] == "use":
            dst_i = flat.expr({"l": [p["idx"] for p in s["lhs"]["p"] if isinstance(p, dict) and "idx" in p][0], "p": []}, expand_named=True, at=bb)
            val = deep_strip(flat.expr(s["rv"]["op"], expand_named=True, at=bb))
            if isinstance(val, tuple) and val[0] == "index" and isinstance(val[1], tuple) and val[1][0] == "index":
                r_i, f_i = val[1][2], val[2]
                good = all(num_eval(r_i, i) == i // 8 and num_eval(f_i, i) == i % 8 and num_eval(dst_i, i) == i for i in range(64))
    rep.obligation(good)
    if not good:
        bad("flatten", "flatten does not read definition[i / 8][i % 8] into entry i", flat)
    neg = fx.one("piece_square_tables::negate")
    n += 1
    # in the function itself or in a closure it maps over the table
    nbodies = [neg] + [fx.bodies[k] for k in fx.bodies if k.startswith(neg.name + "::{closure")]
    good = bool([1 for nb0 in nbodies for bb, t in nb0.calls() if norm(callee_name(t) or "").endswith("Neg>::neg")])
    rep.obligation(good)
    if not good:
        bad("negate", "negate does not negate the table entries", neg)
    # passed pawns
    pin = fx.one("pawn_structure::init")
    ps = table_stores(fx, pin, "pawn_structure::PASSED_PAWN_PST")
    ptab = {}
    for idx, val, line in ps:
        v = deep_strip(val) if val else None
        p = None
        for i in idx:
            if isinstance(i, tuple) and i[0] == "call" and i[1].endswith("Player::array_idx"):
                p = enum_name(i[2][0])
        if p and isinstance(v, tuple) and v[0] == "call":
            ptab[p] = (v[1].split("::")[-1], v[2][0][1] if isinstance(v[2][0], tuple) and v[2][0][0] == "constpath" else show(v[2][0]))
    if not ptab:
        # per-player loop form: `let pst = match player { White => white_pst(D), Black => black_pst(D) }; TABLE[player.array_idx()] = pst`
        pvars = {v["discr"]: v["name"] for v in fx.adt("player::Player")["variants"]}
        ptrs = {s0["lhs"]["l"] for bb0, j0, s0 in pin.stmts(live_only=False) if s0["k"] == "assign" and s0["rv"]["k"] == "use" and s0["rv"]["op"].get("k") == "const" and
                norm(s0["rv"]["op"].get("static", "")).endswith("pawn_structure::PASSED_PAWN_PST")}
        for bb0, j0, s0 in pin.stmts():
            if not (s0["k"] == "assign" and s0["lhs"]["l"] in ptrs and s0["lhs"].get("p") and s0["lhs"]["p"][0] == "*" and s0["rv"]["k"] == "use" and "pl" in s0["rv"]["op"]):
                continue
            idxs = [pin.expr({"l": p0["idx"], "p": []}, expand_named=True, at=bb0) for p0 in s0["lhs"]["p"] if isinstance(p0, dict) and "idx" in p0]
            who = [deep_strip(i[2][0]) for i in idxs if isinstance(i, tuple) and i[0] == "call" and i[1].endswith("Player::array_idx")]
            if len(who) != 1:
                continue
            vl = s0["rv"]["op"]["pl"]["l"]
            for _ in range(4):  # follow plain copies back to the local the `match` assigns
                ds = pin.defs().get(vl, [])
                if len(ds) == 1 and ds[0][0] == "stmt" and ds[0][3]["rv"]["k"] == "use" and "pl" in ds[0][3]["rv"]["op"] and not ds[0][3]["rv"]["op"]["pl"].get("p"):
                    vl = ds[0][3]["rv"]["op"]["pl"]["l"]
                else:
                    break
            for d in pin.defs().get(vl, []):
                if d[0] != "call":
                    continue
                for (ge, pol, w) in guard_conditions(pin, d[1], expand_named=True):
                    g = deep_strip(ge)
                    if isinstance(g, tuple) and g[0] == "discr" and deep_strip(g[1]) == who[0] and isinstance(pol, int) and pvars.get(pol):
                        a0 = pin.expr(d[2]["args"][0], expand_named=True, at=d[1]) if d[2]["args"] else None
                        a0 = deep_strip(a0) if a0 is not None else None
                        ptab[pvars[pol]] = (norm(callee_name(d[2]) or "").split("::")[-1], a0[1] if isinstance(a0, tuple) and a0 and a0[0] == "constpath" else show(a0))
    n += 1
    good = ptab.get("White", (None,))[0] == "white_pst" and ptab.get("Black", (None,))[0] == "black_pst" and ptab["White"][1] == ptab["Black"][1]
    rep.obligation(good)
    rep.sample({"rule": "C16-MIRROR", "passed_pawn_tables": {k: list(v) for k, v in ptab.items()}})
    if not good:
        bad("passed-pst", f"passed-pawn tables: {ptab}; expected white_pst(D) / black_pst(D) of the same definition", pin)
    for nm, want in (("pawn_structure::white_pst", ["flatten", "flip"]), ("pawn_structure::black_pst", ["negate", "flatten"])):
        b = fx.one(nm)
        e = deep_strip(b.expr({"l": 0, "p": []}, expand_named=True))
        names = []
        while isinstance(e, tuple) and e[0] == "call":
            names.append(e[1].split("::")[-1])
            e = deep_strip(e[2][0])
        n += 1
        good = names == want
        rep.obligation(good)
        if not good:
            bad(f"builder/{nm}", f"`{nm}` is {names}, expected {want}", b)
    # per-player routines: once per colour, combined with the matching sign
    checks = [
        ("mobility_and_king_safety::eval", "mobility_and_opp_king_safety_for", "Sub>::sub", 1),
        ("pawn_structure::eval_passed_pawns", "calculate_passed_pawn_bonus", "Add>::add", 1),
    ]
    for fn, callee, comb, player_arg in checks:
        b = fx.one(fn)
        n += 1
        e = deep_strip(b.expr({"l": 0, "p": []}, expand_named=True))
        good = isinstance(e, tuple) and e[0] == "call" and e[1].endswith(comb)
        if good:
            parts = [deep_strip(x) for x in e[2]]
            cols = []
            for p in parts:
                if isinstance(p, tuple) and p[0] == "call" and p[1].endswith(callee):
                    cols.append(enum_name(p[2][player_arg]))
                else:
                    cols.append(None)
            good = cols == ["White", "Black"] and parts[0][2][:player_arg] == parts[1][2][:player_arg]
        rep.obligation(good)
        if not good:
            bad(f"combine/{fn}", f"`{fn}` is `{show(e)[:120]}`, expected {callee}(.., White, ..) {'-' if 'Sub' in comb else '+'} {callee}(.., Black, ..)", b)
    # the routine itself must treat `player` symmetrically: every colour-dependent call takes `player` or `player.other()`
    mob = fx.one("mobility_and_king_safety::mobility_and_opp_king_safety_for")
    n += 1
    good = True
    for bb, t in mob.calls():
        for a in t["args"]:
            e = deep_strip(mob.expr(a, expand_named=True, at=bb))
            if enum_name(e) in ("White", "Black"):
                good = False
    rep.obligation(good)
    if not good:
        bad("mobility-colour-constant", "the per-player mobility routine uses a fixed colour constant", mob)
    # a per-player routine may step vertically only relative to the player: a fixed `north()` / `south()` in a function of the
    # evaluation that takes the player as a parameter means "ahead" for one colour and "behind" for the other (seed C16-12a: the
    # blockade square of a passed pawn taken as `occupancy().south()` for both colours) - unless the call sits under a test of
    # that player, where each colour gets its own direction
    for eb in fx.fn_bodies():
        if not norm(eb.name).startswith("engine::eval::") or "::tests::" in eb.name or eb.kind not in ("Fn", "AssocFn"):
            continue
        pparams = [i for i in range(1, eb.arg_count + 1) if eb.local_ty(i).endswith("player::Player")]
        if not pparams:
            continue
        for ebb, et in eb.calls():
            ecn = norm(callee_name(et) or "")
            if not (ecn.endswith("Bitboard::north") or ecn.endswith("Bitboard::south")):
                continue
            n += 1
            under_player = False
            for (ge, gpol, gw) in guard_conditions(eb, ebb, expand_named=True):
                gd = deep_strip(ge)
                if any(isinstance(x, tuple) and len(x) >= 2 and x[0] == "arg" and x[1] in pparams for x in walk(gd)):
                    under_player = True
            rep.obligation(under_player)
            if not under_player:
                bad(f"fixed-direction/{norm(eb.name).split('::')[-1]}", f"`{eb.name}` (line {et.get('line')}) steps `{ecn.split('::')[-1]}` for both colours although it is parameterised on the player: "
                    "what is in front of a White piece is behind a Black one, so the term is not the mirror image of itself", eb)
    # bishop pair: same bonus added for White, subtracted for Black under the same predicate
    bpb = fx.one("material::bishop_pair_eval")
    n += 1
    found = {}

    def abstract_colour(e, seen):
        """replace Player::White / Player::Black constants by a placeholder, recording which were seen"""
        if not isinstance(e, tuple) or not e:
            return e
        if e[0] == "agg" and isinstance(e[1], str) and e[1].endswith("Player::White") and not e[2]:
            seen.add("White")
            return ("COLOUR",)
        if e[0] == "agg" and isinstance(e[1], str) and e[1].endswith("Player::Black") and not e[2]:
            seen.add("Black")
            return ("COLOUR",)
        return tuple(abstract_colour(x, seen) if isinstance(x, tuple) else x for x in e)

    for bb, t in bpb.calls():
        cn = norm(callee_name(t) or "")
        if cn.endswith("AddAssign>::add_assign") or cn.endswith("SubAssign>::sub_assign"):
            val = deep_strip(bpb.expr(t["args"][1], expand_named=True, at=bb))
            colours = set()
            pred = set()
            loop_colour = None
            for (e, pol, w) in guard_conditions(bpb, bb, expand_named=True):
                cs = set()
                d0 = deep_strip(e)
                a = abstract_colour(d0, cs)
                if cs == {"White", "Black"} and isinstance(d0, tuple) and d0 and d0[0] == "discr" and isinstance(w, tuple) and len(w) == 2 and "Iterator>::next" in show(d0) and "Some" in show(d0):
                    # loop form `for player in [White, Black] { .. match player { White => +=, Black => -= } }`: the arm's colour is
                    # the discriminant value of the loop variable; the remaining conditions are shared by construction
                    pl = {v["discr"]: v["name"] for v in fx.adt("player::Player")["variants"]}
                    if isinstance(w[1], int) and w[1] in pl:
                        loop_colour = pl[w[1]]
                    elif w[1] == "otherwise":
                        listed = [v for (v, _t) in bpb.blocks[w[0]]["term"]["targets"]]
                        rest = [nm for dv, nm in pl.items() if dv not in listed]
                        loop_colour = rest[0] if len(rest) == 1 else None
                    continue
                if cs:
                    colours |= cs
                    pred.add((show(a), str(pol)))
            if loop_colour is not None:
                colours = {loop_colour}
                pred = {(x, y) for (x, y) in pred if "Iterator>::next" in x} or {("loop", "True")}
            found["add" if "add_assign" in cn else "sub"] = (sorted(colours), sorted(pred), val)
    # the same predicate modulo the colour constant: White's adds, Black's subtracts the same bonus
    good = set(found) == {"add", "sub"} and found["add"][2] == found["sub"][2] and found["add"][0] == ["White"] and found["sub"][0] == ["Black"] and \
        found["add"][1] == found["sub"][1] and bool(found["add"][1])
    rep.obligation(good)
    if not good:
        bad("bishop-pair", f"bishop pair bonus is not applied symmetrically: {found}", bpb)
    # per-colour arms: a `match player` selecting a rank / a rank-index quantity must select mirror images
    # (White's value for rank r equals Black's value for rank 7-r, as a count, or is its reflection 7-x, as a position)
    decided = 0
    for b2 in fx.fn_bodies():
        nb = norm(b2.name)
        if not nb.startswith("engine::eval::") or "::tests::" in nb or " as std::fmt::" in b2.name or "trace" in nb.lower() or "tuner" in nb.lower():
            continue
        for (line, ty, ew, ek) in colour_arm_pairs(fx, b2):
            vals = [(rank_eval(fx, ew, r), rank_eval(fx, ek, 7 - r)) for r in range(8)]
            if any(a is None or c is None for a, c in vals):
                continue  # not a rank-index quantity: not decided here
            decided += 1
            n += 1
            as_count = all(a == c for a, c in vals)
            as_position = all(a == 7 - c for a, c in vals)
            good = as_count or as_position
            rep.obligation(good)
            rep.sample({"rule": "C16-MIRROR", "colour_arms": nb, "line": line, "white": show(ew)[:60], "black": show(ek)[:60], "mirror": "count" if as_count else ("position" if as_position else None)})
            if not good:
                bad(f"colour-arms/{nb.split('::')[-1]}", f"`{b2.name}` line {line} selects `{show(ew)[:60]}` for White and `{show(ek)[:60]}` for Black; for rank r vs 7-r these give {vals[:4]}.., neither equal (a count) nor reflected (a position): the two colours are not treated as mirror images", b2)
    # per-colour bit helpers (forward / backward / rank masks / pawn attack sets): reflection and colour swap commute
    for (b3, good, detail) in colour_equivariance(fx):
        n += 1
        rep.obligation(good)
        rep.sample({"rule": "C16-MIRROR", "equivariant_helper": norm(b3.name), "ok": good})
        if not good:
            x, w, k = detail
            bad(f"equivariant/{norm(b3.name).split('::')[-1]}", f"`{b3.name}` does not treat the colours as mirror images: for the board {x:#018x} White gives {w:#018x}, whose reflection is {flip_v(w):#018x}, "
                f"but Black on the reflected board gives {k:#018x}", b3)
    # from_white_eval: White as is, Black negated
    fw = fx.one("Eval::from_white_eval")
    n += 1
    players = {v["discr"]: v["name"] for v in fx.adt("player::Player")["variants"]}
    res = {}
    for conds, r, bb in decision_paths(fw):
        if r is None:
            continue
        col = [players.get(v) for (e, v) in conds if isinstance(v, int)]
        res[col[-1] if col else None] = bool(find_calls(r, "Neg>::neg"))
    good = res == {"White": False, "Black": True}
    rep.obligation(good)
    if not good:
        bad("from_white_eval", f"from_white_eval negates for {res}; expected only for Black", fw)
    # the top-level evaluation returns the blend of the *same* terms on every path: a return that leaves terms out (a lazy-evaluation
    # shortcut) is taken under a condition on the White-relative score, which the colour mirror negates - unless the test is written
    # symmetrically, which this rule does not try to recognise, the position and its twin are scored by different term sets (seed
    # C16-7a: `if lazy_eval > MARGIN { return lazy_eval }`)
    tops = [b0 for b0 in fx.fn_bodies() if norm(b0.name).startswith("engine::eval::absolute_eval_with_trace") and b0.kind == "Fn"]
    if len(tops) == 1:
        tb = tops[0]
        tpaths = [p0 for p0 in decision_paths(tb, 200) if p0[1] is not None]
        if tpaths and len(tpaths) < 200:
            def terms_of(e0):
                return {c0[1].split("::")[-2] + "::" + c0[1].split("::")[-1] for c0 in walk(e0) if isinstance(c0, tuple) and c0 and c0[0] == "call" and isinstance(c0[1], str) and
                        norm(c0[1]).startswith("engine::eval::") and c0[1].split("::")[-1] in ("eval", "eval_by_player") and "absolute_eval" not in c0[1]}
            allt = set()
            for cnd0, ret0, _l0 in tpaths:
                allt |= terms_of(ret0)
            n += 1
            short = [(sorted(allt - terms_of(ret0)), cnd0) for cnd0, ret0, _l0 in tpaths if allt - terms_of(ret0)]
            good = not short
            rep.obligation(good)
            rep.sample({"rule": "C16-MIRROR", "top_level_terms": sorted(allt), "return_paths": len(tpaths)})
            if not good:
                cshow = show(short[0][1][-1][0])[:80] if short[0][1] else "?"
                bad("top/terms", f"`{tb.name}` has a return that leaves out {short[0][0]} (taken under `{cshow}`): a position and its colour-mirrored twin can be scored from different sets of terms", tb)
    # order independence: a term is a sum over the pieces of a set, and the set is scanned a1 -> h8 - an order the colour
    # mirror does not preserve (it reverses the ranks). A branch inside such a loop that depends on a variable carried from
    # one iteration to the next ("a passer was already counted on this file") makes the term depend on the scan order, hence
    # differ between a position and its mirrored twin (seed C16-5a). Accumulators that are only added to are fine.
    loops = 0
    for b, nb, loop, carried in term_loops(fx):
        loops += 1
        n += 1
        dep = None
        for x in sorted(loop):
            t = b.blocks[x]["term"]
            if t["k"] != "switch" or "pl" not in t["discr"]:
                continue
            seen, _recs = b.slice_back([t["discr"]["pl"]["l"]])
            hit = carried & seen
            if hit:
                dep = (x, sorted(b.local_name(l) or f"_{l}" for l in hit))
                break
        good = dep is None
        rep.obligation(good)
        if not good:
            bad(f"order/{norm(b.name).split('::')[-1]}", f"`{b.name}`: a branch inside the loop over a piece set depends on `{dep[1][0]}`, which is carried from one iteration to the next: the term depends on the scan order (a1 upwards), which the colour mirror reverses, so a position and its mirrored twin are scored differently", b, b.line_of(dep[0]))
    rep.sample({"rule": "C16-MIRROR", "piece_set_loops_checked_for_order_independence": loops})
    rep.rule("C16-MIRROR", n, 15, ok, "mirrored table construction and per-colour term combination")


M64 = (1 << 64) - 1


def flip_v(x):
    """vertical reflection of a 64-bit board (rank r <-> 7 - r)"""
    return int.from_bytes((x & M64).to_bytes(8, "little"), "big")


def bits_eval(fx, e, env, depth=5):
    """Numeric value of a closed-form (loop-free) expression over 64-bit boards and the Player enum, with calls to small
    in-crate functions evaluated through their own extracted return expressions. env: {param index: int}. None when the
    expression is outside this fragment."""
    if not isinstance(e, tuple) or not e:
        return None
    k = e[0]
    if k in ("ref", "deref"):
        return bits_eval(fx, e[1], env, depth)
    if k == "arg":
        return env.get(e[1])
    if k == "const":
        return (e[1] & M64) if isinstance(e[1], int) and not isinstance(e[1], bool) else (int(e[1]) if isinstance(e[1], bool) else None)
    if k == "constpath":
        cv = [v for kk, v in fx.consts.items() if norm(kk) == e[1]]
        if cv and "bits" in cv[0]:
            return cv[0]["bits"] & M64
        if cv and "int" in cv[0]:
            return cv[0]["int"] & M64
        return None
    if k == "agg":
        tag = str(e[1])
        if not e[2] and "::Player::" in tag:
            return {v["name"]: v["discr"] for v in fx.adt("player::Player")["variants"]}.get(tag.split("::")[-1])
        if not e[2] and tag.count("::") >= 2 and not tag.startswith(("closure:", "std::", "core::")):
            # a variant of a field-less in-crate enum evaluates to its discriminant
            try:
                ad = fx.adt(tag.rsplit("::", 1)[0])
            except Exception:
                ad = None
            if ad and ad.get("variants") and all(not v.get("fields") for v in ad["variants"]):
                return {v["name"]: v["discr"] for v in ad["variants"]}.get(tag.split("::")[-1])
            return None
        if len(e[2]) == 1 and tag.endswith("Bitboard::Bitboard"):
            return bits_eval(fx, e[2][0], env, depth)
        segs = tag.split("::")
        if len(e[2]) == 1 and len(segs) >= 2 and segs[-1] == segs[-2] and "chess::" in tag:
            return bits_eval(fx, e[2][0], env, depth)  # a one-field wrapper struct (Square(u8)) is its field
        return None
    if k == "field":
        v = bits_eval(fx, e[1], env, depth)
        if isinstance(v, tuple):
            return v[int(e[2])] if str(e[2]).isdigit() and int(e[2]) < len(v) else None
        if isinstance(v, Opt):
            return v.val if e[2] == "0" and v.some else None
        if e[2] == "0":
            return v
        return None
    if k == "cast":
        v = bits_eval(fx, e[1], env, depth)
        return v if isinstance(v, int) else None
    if k == "discr":
        v = bits_eval(fx, e[1], env, depth)
        if isinstance(v, Opt):
            return int(v.some)
        return v if isinstance(v, int) else None
    if k == "call" and isinstance(e[1], str) and e[1].endswith(("Option::is_none", "Option::is_some")) and len(e[2]) == 1:
        v = bits_eval(fx, e[2][0], env, depth)
        if not isinstance(v, Opt):
            return None
        return int(v.some == e[1].endswith("is_some"))
    if k == "unop":
        a = bits_eval(fx, e[2], env, depth)
        if not isinstance(a, int):
            return None
        return (~a) & M64 if e[1] == "Not" else None
    if k == "binop":
        a, b = bits_eval(fx, e[2], env, depth), bits_eval(fx, e[3], env, depth)
        if not isinstance(a, int) or not isinstance(b, int):
            return None
        op = e[1].replace("WithOverflow", "")
        if op == "Shl":
            return (a << b) & M64 if b < 64 else None
        if op == "Shr":
            return (a >> b) if b < 64 else None
        if op in ("Rem", "Div"):
            return None if b == 0 else (a % b if op == "Rem" else a // b)
        return {"BitAnd": a & b, "BitOr": a | b, "BitXor": a ^ b, "Add": (a + b) & M64, "Sub": (a - b) & M64, "Mul": (a * b) & M64,
                "Eq": int(a == b), "Ne": int(a != b), "Lt": int(a < b), "Le": int(a <= b), "Gt": int(a > b), "Ge": int(a >= b)}.get(op)
    if k == "call" and isinstance(e[1], str) and (e[1].endswith("NonZero::get") or e[1].endswith("NonZero::new_unchecked")) and len(e[2]) == 1:
        return bits_eval(fx, e[2][0], env, depth)  # the integer inside a NonZero wrapper
    if k == "call" and isinstance(e[1], str) and depth > 0:
        cb = fx.body(e[1])
        if cb is None or cb.kind not in ("Fn", "AssocFn") or cb.n > 150:
            return None
        args = [bits_eval(fx, a, env, depth) for a in e[2]]
        if any(a is None for a in args):
            return None
        return eval_body(fx, cb, {i + 1: a for i, a in enumerate(args)}, depth)
    return None


def _is_arg(e, args):
    while isinstance(e, tuple) and e and e[0] in ("ref", "deref"):
        e = e[1]
    return isinstance(e, tuple) and len(e) >= 2 and e[0] == "arg" and e[1] in args


class Opt:
    """an Option value handed to bits_eval through its environment"""
    def __init__(self, some, val=None):
        self.some, self.val = some, val


def eval_body(fx, cb, cenv, depth=5):
    """value returned by the loop-free body `cb` on the argument values `cenv` ({param index: value}); None when outside
    the fragment bits_eval evaluates"""
    cache = fx.__dict__.setdefault("_eval_paths", {})
    if cb.name not in cache:
        cache[cb.name] = decision_paths(cb, 64, track_op_assign=True)
    if True:
        for conds, ret, last in cache[cb.name]:
            if ret is None:
                continue
            feasible = True
            for (ce, val) in conds:
                v = bits_eval(fx, ce, cenv, depth - 1)
                if v is None:
                    feasible = None
                    break
                if isinstance(val, int):
                    if v != val:
                        feasible = False
                        break
                elif isinstance(val, tuple) and val[0] == "otherwise":
                    if v in val[1]:
                        feasible = False
                        break
            if feasible is None:
                return None
            if feasible:
                return bits_eval(fx, ret, cenv, depth - 1)
        return None
    return None


BOARD_SAMPLES = [1 << i for i in range(64)] + [0x00FF00000000FF00, 0x8142241818244281, 0x0102040810204080, 0xFFFFFFFFFFFFFFFF, 0x00000000000000FF, 0x8100000000000081]


def typed_eval(fx, e, env):
    """integer value of a closed-form expression with Rust cast semantics (`as i16` truncates and re-signs), shifts and + - *"""
    if not isinstance(e, tuple) or not e:
        return None
    k = e[0]
    if k in ("ref", "deref"):
        return typed_eval(fx, e[1], env)
    if k == "arg":
        return env.get(e[1])
    if k == "const":
        return int(e[1]) if isinstance(e[1], (int, bool)) else None
    if k == "agg" and len(e[2]) == 1:
        return typed_eval(fx, e[2][0], env)
    if k == "field" and e[2] == "0":
        return typed_eval(fx, e[1], env)
    if k == "cast":
        v = typed_eval(fx, e[1], env)
        if v is None:
            return None
        m = re.match(r"^([iu])(8|16|32|64|128|size)$", str(e[2]))
        if not m:
            return v
        bits = 64 if m.group(2) == "size" else int(m.group(2))
        v &= (1 << bits) - 1
        if m.group(1) == "i" and v >= 1 << (bits - 1):
            v -= 1 << bits
        return v
    if k == "binop":
        a, b = typed_eval(fx, e[2], env), typed_eval(fx, e[3], env)
        if a is None or b is None:
            return None
        op = e[1].replace("WithOverflow", "")
        return {"Add": a + b, "Sub": a - b, "Mul": a * b, "Shl": a << b if 0 <= b < 64 else None, "Shr": a >> b if 0 <= b < 64 else None,
                "BitAnd": a & b, "BitOr": a | b}.get(op)
    if k == "call" and isinstance(e[1], str) and (e[1].endswith("::from") or e[1].endswith("::into")) and len(e[2]) == 1:
        return typed_eval(fx, e[2][0], env)
    return None


def packed_fn(fx, name, args):
    b = fx.one(name)
    ps = [p for p in decision_paths(b, 8) if p[1] is not None]
    if len(ps) != 1 or ps[0][0]:
        return None
    return typed_eval(fx, ps[0][1], {i + 1: a for i, a in enumerate(args)})


def rule_pack(fx, rep):
    """The two halves of the packed accumulator decode to what was packed, also after packed words have been added (a negative
    midgame half borrows from the endgame half; the decoder's rounding term undoes it): midgame(new(m, e) [+ new(m', e')]) and
    endgame(..) are evaluated on sample values against m [+ m'] and e [+ e']."""
    samples = [(0, 0), (1, 1), (-1, -1), (-5, -5), (150, -150), (-150, 150), (2999, -3000), (-3000, 2999), (-1, 0), (0, -1), (-32000, 31000), (1234, 567)]
    ok = True
    n = 0
    bad_ex = None
    for (m1, e1) in samples:
        for (m2, e2) in [(0, 0), (-7, 3), (25, -40)]:
            w1, w2 = packed_fn(fx, "PhasedEval::new", [m1, e1]), packed_fn(fx, "PhasedEval::new", [m2, e2])
            if w1 is None or w2 is None:
                rep.notes.append("C16-PACK: PhasedEval::new is not a closed formula this rule evaluates; not decided")
                rep.rule("C16-PACK", 0, 0, True, "not decided")
                return
            w = w1 + w2
            if not (-2 ** 31 <= w < 2 ** 31) or not (-32768 <= m1 + m2 <= 32767) or not (-32768 <= e1 + e2 <= 32767):
                continue
            gm, ge = packed_fn(fx, "PhasedEval::midgame", [w]), packed_fn(fx, "PhasedEval::endgame", [w])
            if gm is None or ge is None:
                rep.notes.append("C16-PACK: PhasedEval::midgame / endgame are not closed formulas this rule evaluates; not decided")
                rep.rule("C16-PACK", 0, 0, True, "not decided")
                return
            n += 1
            good = gm == m1 + m2 and ge == e1 + e2
            rep.obligation(good)
            if not good and bad_ex is None:
                bad_ex = ((m1, e1), (m2, e2), (gm, ge))
    if bad_ex is not None:
        ok = False
        b = fx.one("PhasedEval::endgame")
        rep.violation("C16-PACK", "C16-PACK/decode", f"packed evaluation: new{bad_ex[0]} + new{bad_ex[1]} decodes to (midgame, endgame) = {bad_ex[2]}, expected {(bad_ex[0][0] + bad_ex[1][0], bad_ex[0][1] + bad_ex[1][1])}: "
                      "the blend then uses wrong halves (off by one whenever the midgame half is negative), which also breaks colour symmetry", {"fn": b.name, "file": b.file, "line": b.line})
    # the packed word is a sum m + (e << 16): + - and scaling by an integer act on both halves at once, a division, remainder or
    # shift of the whole word does not (an odd endgame half leaks half a unit = 32768 into the midgame half)
    for b in fx.bodies.values():
        if b.kind not in ("Fn", "AssocFn") or not b.locals[0]["ty"].endswith("phased_eval::PhasedEval") or b.n > 60:
            continue
        pe_args = [i for i in range(1, b.arg_count + 1) if b.locals[i]["ty"].lstrip("&mut ").endswith("phased_eval::PhasedEval")]
        if not pe_args:
            continue
        for conds, ret, last in decision_paths(b, 16):
            if ret is None:
                continue
            for node in walk(ret):
                if isinstance(node, tuple) and node and node[0] == "binop" and node[1].replace("WithOverflow", "") in ("Div", "Rem", "Shr") \
                        and any(isinstance(x, tuple) and x and x[0] == "field" and x[2] == "0" and _is_arg(x[1], pe_args) for x in walk(node[2])) \
                        and node[3] != ("const", 1):
                    n += 1
                    rep.obligation(False)
                    ok = False
                    rep.violation("C16-PACK", f"C16-PACK/word-op/{norm(b.name).split('::')[-1]}", f"`{b.name}` builds a packed two-phase value by applying `{node[1]}` to the whole packed word of its argument: "
                                  "the word is midgame + (endgame << 16), so only + - and integer scaling act on the halves separately; a division or shift of the word moves part of the endgame half into the "
                                  "midgame half (an odd endgame half leaks 32768), the blended evaluation is wrong and no longer colour-symmetric", {"fn": b.name, "file": b.file, "line": b.line})
                    break
            else:
                continue
            break
    rep.rule("C16-PACK", n, 20, ok, "pack / unpack of the two-phase word agree on sample values, also after addition; no division / shift of the whole packed word")


def colour_equivariance(fx):
    """[(body, ok, detail)] for every loop-free helper of chess::bitboard that takes a Player and returns a Bitboard:
    reflecting the board and swapping the colour must commute with it, f(flip(x), Black) == flip(f(x, White))."""
    out = []
    pv = {v["name"]: v["discr"] for v in fx.adt("player::Player")["variants"]}
    for b in fx.fn_bodies():
        nb = norm(b.name)
        if not nb.startswith("chess::bitboard::") or "::tests::" in nb or b.kind not in ("Fn", "AssocFn") or b.name.startswith("<"):
            continue
        tys = [b.local_ty(i) for i in range(1, b.arg_count + 1)]
        if b.local_ty(0) != "chess::bitboard::Bitboard" or "chess::player::Player" not in tys or any(t not in ("chess::bitboard::Bitboard", "chess::player::Player") for t in tys):
            continue
        pidx = tys.index("chess::player::Player") + 1
        bidx = [i + 1 for i, t in enumerate(tys) if t == "chess::bitboard::Bitboard"]
        if len(bidx) > 1:
            continue
        call = lambda x, pl: bits_eval(fx, ("call", b.name, tuple(("const", x) if (i + 1) in bidx else ("agg", "chess::player::Player::" + pl, ()) for i in range(b.arg_count))), {})
        bad = None
        undecided = False
        for x in (BOARD_SAMPLES if bidx else [0]):
            w, k = call(x, "White"), call(flip_v(x), "Black")
            if w is None or k is None:
                undecided = True
                break
            if flip_v(w) != k:
                bad = (x, w, k)
                break
        if undecided:
            continue
        out.append((b, bad is None, bad))
    return out


def colour_arm_pairs(fx, b):
    """[(line, local_ty, expr_white, expr_black)] for every `match player { White => X, Black => Y }` in body b whose two arms
    assign the same local (straight-line arms that meet again)."""
    out = []
    pv = {v["name"]: v["discr"] for v in fx.adt("player::Player")["variants"]}
    for i in sorted(b.live_blocks()):
        t = b.blocks[i]["term"]
        if t["k"] != "switch" or t["dty"] == "bool" or len(t["targets"]) != 2:
            continue
        dst = [st for st in b.blocks[i]["stmts"] if st["k"] == "assign" and st["rv"]["k"] == "discr" and st["rv"].get("of", "").endswith("player::Player")]
        if not dst or "pl" not in t["discr"] or t["discr"]["pl"]["l"] != dst[-1]["lhs"]["l"]:
            continue
        arms = {}
        for v, tg in t["targets"]:
            asg = {}
            cur, steps = tg, 0
            while cur is not None and steps < 4:
                steps += 1
                for st in b.blocks[cur]["stmts"]:
                    if st["k"] == "assign" and not st["lhs"].get("p"):
                        asg[st["lhs"]["l"]] = (cur, st)
                tt = b.blocks[cur]["term"]
                if tt["k"] == "call" and not tt["dest"].get("p"):
                    asg[tt["dest"]["l"]] = (cur, tt)
                nx = b.succ(cur)
                cur = nx[0] if len(nx) == 1 and tt["k"] in ("goto", "call", "assert") and len(b.preds()[nx[0]]) == 1 else None
            arms[v] = asg
        w, k = arms.get(pv["White"], {}), arms.get(pv["Black"], {})
        for l in sorted(set(w) & set(k)):
            def val(rec):
                bb, st = rec
                if st["k"] == "assign":
                    rv = st["rv"]
                    if rv["k"] == "use":
                        return b.expr(rv["op"], expand_named=True, at=bb)
                    if rv["k"] == "agg" and rv.get("agg") == "adt" and not rv["ops"]:
                        return ("agg", norm(rv["adt"]) + "::" + rv["variant"], ())
                    if rv["k"] == "binop":
                        return ("binop", rv["op"], b.expr(rv["a"], expand_named=True, at=bb), b.expr(rv["b"], expand_named=True, at=bb))
                    if rv["k"] == "cast":
                        return ("cast", b.expr(rv["op"], expand_named=True, at=bb), rv.get("to"))
                    return None
                return ("call", norm(callee_name(st) or "?"), tuple(b.expr(a, expand_named=True, at=bb) for a in st["args"]))
            ew, ek = val(w[l]), val(k[l])
            if ew is not None and ek is not None:
                out.append((t.get("line"), b.local_ty(l), ew, ek))
    return out


def rank_eval(fx, e, r):
    """numeric value of an expression over one free variable, the rank index of some square (value r); None if anything else occurs"""
    e = deep_strip(e)
    if not isinstance(e, tuple) or not e:
        return None
    if e[0] == "const" and isinstance(e[1], int):
        return e[1]
    if e[0] == "agg" and isinstance(e[1], str) and not e[2] and "::Rank::" in e[1]:
        d = {v["name"]: v["discr"] for v in fx.adt("square::Rank")["variants"]}
        return d.get(e[1].split("::")[-1])
    if e[0] == "constpath":
        cv = [v for k2, v in fx.consts.items() if norm(k2) == e[1]]
        return cv[0].get("int") if cv and "int" in cv[0] else None
    if e[0] == "field" and e[2] == "0" and isinstance(e[1], tuple) and e[1] and e[1][0] == "binop":
        return rank_eval(fx, e[1], r)
    if e[0] == "cast":
        return rank_eval(fx, e[1], r)
    if e[0] == "binop":
        a, b2 = rank_eval(fx, e[2], r), rank_eval(fx, e[3], r)
        if a is None or b2 is None:
            return None
        return {"Add": a + b2, "Sub": a - b2, "Mul": a * b2}.get(e[1].replace("WithOverflow", ""))
    if e[0] == "call" and isinstance(e[1], str):
        if e[1].endswith("Rank::array_idx") or e[1].endswith("Rank::idx"):
            inner = deep_strip(e[2][0])
            c = rank_eval(fx, inner, r) if isinstance(inner, tuple) and inner and inner[0] == "agg" else None
            if c is not None:
                return c
            # the rank of some square: the free variable
            return r if find_calls(inner, "Square::rank") else None
        if e[1].endswith("abs_diff") and len(e[2]) == 2:
            a, b2 = rank_eval(fx, e[2][0], r), rank_eval(fx, e[2][1], r)
            return abs(a - b2) if a is not None and b2 is not None else None
    return None


def num_eval(e, i):
    """Evaluate an index expression numerically with the loop variable (the value produced by a range's next()) set to i."""
    e = deep_strip(e)
    if not isinstance(e, tuple) or not e:
        return None
    if e[0] == "const" and isinstance(e[1], int):
        return e[1]
    if e[0] == "constpath":
        return {"File::N": 8, "Rank::N": 8, "Square::N": 64}.get("::".join(e[1].split("::")[-2:]))
    if e[0] == "field" and e[2] == "0":
        if isinstance(e[1], tuple) and e[1][0] == "binop":
            return num_eval(e[1], i)
        if isinstance(e[1], tuple) and e[1][0] == "as" and find_calls(e[1], "next"):
            return i
    if e[0] == "binop":
        a, b = num_eval(e[2], i), num_eval(e[3], i)
        if a is None or b is None:
            return None
        op = e[1].replace("WithOverflow", "")
        try:
            return {"Add": a + b, "Sub": a - b, "Mul": a * b, "Div": a // b if b else None, "Rem": a % b if b else None}.get(op)
        except Exception:
            return None
    if e[0] == "cast":
        return num_eval(e[1], i)
    return None


# ---- C16-BOUND -----------------------------------------------------------------------------


def decode_phased(hexbytes):
    b = bytes.fromhex(hexbytes)
    out = []
    for i in range(0, len(b), 4):
        v = struct.unpack("<i", b[i:i + 4])[0]
        mg = ((v & 0xFFFF) ^ 0x8000) - 0x8000
        eg = (v + 0x8000) >> 16
        out.append((mg, eg))
    return out


MODELLED = {"PIECE_VALUES", "PAWNS", "KNIGHTS", "BISHOPS", "ROOKS", "QUEENS", "KING", "PASSED_PAWNS", "KNIGHT_MOBILITY", "BISHOP_MOBILITY", "ROOK_MOBILITY",
            "QUEEN_MOBILITY", "ATTACKED_KING_SQUARES", "BISHOP_PAIR_BONUS"}


def rule_bound(fx, rep):
    ok = True
    n = 0
    ev = fx.one("engine::eval::eval")

    def bad(key, msg):
        nonlocal ok
        ok = False
        rep.violation("C16-BOUND", f"C16-BOUND/{key}", msg, {"fn": ev.name, "file": ev.file, "line": ev.line})

    P = {}
    for k, v in fx.consts.items():
        nk = norm(k)
        if nk.startswith("engine::eval::params::"):
            name = nk.split("::")[-1]
            if "bytes" in v:
                P[name] = decode_phased(v["bytes"])
            elif "bits" in v:
                P[name] = decode_phased(struct.pack("<I", v["bits"] & 0xFFFFFFFF).hex())
    # fail closed on unknown terms: constants referenced from the eval cone and the two init functions
    referenced = set()
    roots = [ev.name, fx.one("piece_square_tables::init").name, fx.one("pawn_structure::init").name]
    for nm in fx.cone(roots):
        b = fx.bodies[nm]
        for blk in b.blocks:
            for s in blk["stmts"]:
                for o in b.rvalue_operands(s.get("rv", {})) if s.get("rv") else []:
                    if o.get("k") == "const" and "uneval" in o and norm(o["uneval"]).startswith("engine::eval::params::") and "promoted" not in o:
                        referenced.add(norm(o["uneval"]).split("::")[-1])
            t = blk["term"]
            if t["k"] == "call":
                for o in t["args"]:
                    if o.get("k") == "const" and "uneval" in o and norm(o["uneval"]).startswith("engine::eval::params::") and "promoted" not in o:
                        referenced.add(norm(o["uneval"]).split("::")[-1])
    # ... including parameter constants reached through another constant (a table of `(kind, definition)` pairs built from them)
    via = set()
    for nm in fx.cone(roots):
        b = fx.bodies[nm]
        for blk in b.blocks:
            ops = [o for s0 in blk["stmts"] if s0.get("rv") for o in b.rvalue_operands(s0["rv"])] + (blk["term"]["args"] if blk["term"]["k"] == "call" else [])
            for o in ops:
                if o.get("k") == "const" and "uneval" in o and "promoted" not in o and not norm(o["uneval"]).startswith("engine::eval::params::") and norm(o["uneval"]).startswith("engine::eval::"):
                    via.add(o["uneval"])
    seen_c = set()
    while via:
        cn = via.pop()
        if cn in seen_c:
            continue
        seen_c.add(cn)
        cbody = fx.body(cn)
        if cbody is None:
            continue
        for blk in cbody.blocks:
            ops = [o for s0 in blk["stmts"] if s0.get("rv") for o in cbody.rvalue_operands(s0["rv"])] + (blk["term"]["args"] if blk["term"]["k"] == "call" else [])
            for o in ops:
                if o.get("k") == "const" and "uneval" in o and "promoted" not in o:
                    if norm(o["uneval"]).startswith("engine::eval::params::"):
                        referenced.add(norm(o["uneval"]).split("::")[-1])
                    elif norm(o["uneval"]).startswith("engine::eval::"):
                        via.add(o["uneval"])
    n += 1
    # a term the bound does not model invalidates it; a modelled table the scan does not see referenced (handed to a generic
    # helper as a promoted `&TABLE`, or removed) only makes the bound looser
    good = referenced <= MODELLED and MODELLED <= set(P)
    if good and referenced != MODELLED:
        rep.notes.append(f"C16-BOUND: modelled parameter tables not seen referenced by name: {sorted(MODELLED - referenced)} (the bound stays an upper bound)")
    rep.obligation(good)
    rep.sample({"rule": "C16-BOUND", "referenced_params": sorted(referenced)})
    if not good:
        bad("terms", f"the evaluation references parameter constants {sorted(referenced)}; the bound models {sorted(MODELLED)} (new or removed term: bound not valid)")
        rep.rule("C16-BOUND", n, 3, False)
        return
    kinds = ["PAWNS", "KNIGHTS", "BISHOPS", "ROOKS", "QUEENS", "KING"]
    res = {}
    for phase in (0, 1):
        def vals(name):
            return [x[phase] for x in P[name]]
        per_piece_hi, per_piece_lo = 0, 0
        for i, kn in enumerate(kinds[:5]):
            mat = P["PIECE_VALUES"][i][phase]
            mob = {"KNIGHTS": "KNIGHT_MOBILITY", "BISHOPS": "BISHOP_MOBILITY", "ROOKS": "ROOK_MOBILITY", "QUEENS": "QUEEN_MOBILITY"}.get(kn)
            mhi = max(vals(mob)) if mob else 0
            mlo = min(vals(mob)) if mob else 0
            extra_hi = max(0, max(vals("PASSED_PAWNS"))) if kn == "PAWNS" else 0
            extra_lo = min(0, min(vals("PASSED_PAWNS"))) if kn == "PAWNS" else 0
            hi = mat + max(vals(kn)) + mhi + extra_hi
            lo = mat + min(vals(kn)) + mlo + extra_lo
            per_piece_hi = max(per_piece_hi, hi)
            per_piece_lo = min(per_piece_lo, lo)
        king_hi = P["PIECE_VALUES"][5][phase] + max(vals("KING"))
        king_lo = P["PIECE_VALUES"][5][phase] + min(vals("KING"))
        aks = vals("ATTACKED_KING_SQUARES")
        bp = P["BISHOP_PAIR_BONUS"][0][phase]
        side_hi = king_hi + 15 * max(0, per_piece_hi) + max(0, bp) + max(0, -min(aks))
        side_lo = king_lo + 15 * min(0, per_piece_lo) + min(0, bp) - max(0, max(aks))
        total_hi = side_hi - side_lo
        res["midgame" if phase == 0 else "endgame"] = {"side_max": side_hi, "side_min": side_lo, "abs_eval_bound": total_hi}
    mate_thr = fx.const("Eval::MATE_THRESHOLD").get("int")
    rep.sample({"rule": "C16-BOUND", **res, "mate_threshold": mate_thr})
    for ph, r in res.items():
        n += 1
        good = r["abs_eval_bound"] < mate_thr
        rep.obligation(good)
        if not good:
            bad(f"threshold/{ph}", f"{ph} evaluation can reach +-{r['abs_eval_bound']} (15 non-king men a side), not strictly inside the mate threshold {mate_thr}")
        n += 1
        good = max(abs(r["side_max"]), abs(r["side_min"]), r["abs_eval_bound"]) <= 32767
        rep.obligation(good)
        if not good:
            bad(f"packed/{ph}", f"{ph} half of the packed accumulator can exceed i16 ({r})")
    rep.rule("C16-BOUND", n, 5, ok, "constant interval bound of the evaluation")


PH = "src/engine/eval/phased_eval.rs"
PS = "src/engine/eval/piece_square_tables.rs"
PA = "src/engine/eval/params.rs"
MUTANTS = [
    {"name": "pawnless positions halved with a signed right shift (seed C16-13a)", "expect": "C16-CONE/evalop/shift",
     "edits": __import__("shared_mutants").edits_from_patch("seeded/C16-13a/patch.diff")},
    {"name": "blockade square of a passed pawn as occupancy().south() for both colours (seed C16-12a)", "expect": "C16-MIRROR/fixed-direction",
     "edits": __import__("shared_mutants").edits_from_patch("seeded/C16-12a/patch.diff")},
    {"name": "blended score faded towards zero by plain i16 multiplication (seed C16-11a)", "expect": "C16-CONE/evalop",
     "edits": __import__("shared_mutants").edits_from_patch("seeded/C16-11a/patch.diff")},
    {"name": "every term blended on its own and the blends added (seed C16-8a)", "expect": "C16-BLEND/once",
     "edits": [("src/engine/eval/mod.rs", "    let eval = game.incremental_eval.piece_square_tables\n        + material::eval::<TRACE>(game, trace)\n        + mobility_and_king_safety::eval::<TRACE>(game, trace)\n        + pawn_structure::eval::<TRACE>(game, trace);\n\n    eval.for_phase(game.incremental_eval.phase_value)",
                "    let phase_value = game.incremental_eval.phase_value;\n\n    game.incremental_eval.piece_square_tables.for_phase(phase_value)\n        + material::eval::<TRACE>(game, trace).for_phase(phase_value)\n        + mobility_and_king_safety::eval::<TRACE>(game, trace).for_phase(phase_value)\n        + pawn_structure::eval::<TRACE>(game, trace).for_phase(phase_value)")]},
    {"name": "evaluation halved when few pieces are left through a Div<i32> on the packed word (shape of seed C16-7b)", "expect": "C16-PACK/word-op/div",
     "edits": [("src/engine/eval/phased_eval.rs", "impl std::ops::Neg for PhasedEval {", "impl std::ops::Div<i32> for PhasedEval {\n    type Output = Self;\n\n    fn div(self, rhs: i32) -> Self::Output {\n        Self(self.0 / rhs)\n    }\n}\n\nimpl std::ops::Neg for PhasedEval {"),
               ("src/engine/eval/mod.rs", "    eval.for_phase(game.incremental_eval.phase_value)\n}", "    let eval = if game.incremental_eval.phase_value == 2 { eval / 2 } else { eval };\n\n    eval.for_phase(game.incremental_eval.phase_value)\n}")]},
    {"name": "lazy evaluation when White is far ahead (seed C16-7a)", "expect": "C16-MIRROR/top/terms",
     "edits": [("src/engine/eval/mod.rs", "    let eval = game.incremental_eval.piece_square_tables\n        + material::eval::<TRACE>(game, trace)\n", "    let material_eval = game.incremental_eval.piece_square_tables + material::eval::<TRACE>(game, trace);\n    if !TRACE {\n        let lazy_eval = material_eval.for_phase(game.incremental_eval.phase_value);\n        if lazy_eval > WhiteEval(1800) {\n            return lazy_eval;\n        }\n    }\n    let eval = material_eval\n")]},
    {"name": "passed-pawn bonus once per file, first pawn in scan order (seed C16-5a)", "expect": "C16-MIRROR/order",
     "edits": [("src/engine/eval/pawn_structure.rs", "    for pawn in our_pawns {\n        if is_passed(pawn, player, their_pawns) {\n            bonus += pst_value(player, pawn);",
                "    let mut files_with_passer = Bitboard::EMPTY;\n\n    for pawn in our_pawns {\n        let file = pawn.file().bitboard();\n        if (files_with_passer & file).any() {\n            continue;\n        }\n        if is_passed(pawn, player, their_pawns) {\n            files_with_passer |= file;\n            bonus += pst_value(player, pawn);")]},
    {"name": "king zone includes the king's own square: count up to 9 indexes a 9-entry table (seed C16-5b)", "expect": "C16-CONE",
     "edits": [("src/engine/eval/mobility_and_king_safety.rs", "    let enemy_king = game.board.king(player.other()).single();\n    let enemy_king_surrounding_squares = tables::king_attacks(enemy_king);\n",
                "    let enemy_king_bb = game.board.king(player.other());\n    let enemy_king_surrounding_squares = tables::king_attacks(enemy_king_bb.single()) | enemy_king_bb;\n")]},
    {"name": "endgame half decoded without the rounding term (seed C16-4b)", "expect": "C16-PACK",
     "edits": [("src/engine/eval/phased_eval.rs", "        WhiteEval(((self.0 + 0x8000) >> 16) as i16)", "        WhiteEval((self.0 >> 16) as i16)")]},
    {"name": "Bitboard::backward shifts Black's squares the wrong way", "expect": "C16-MIRROR/equivariant",
     "edits": [("src/chess/bitboard.rs", "    pub fn backward(self, player: Player) -> Self {\n        match player {\n            Player::White => self.south(),\n            Player::Black => self.north(),", "    pub fn backward(self, player: Player) -> Self {\n        match player {\n            Player::White => self.south(),\n            Player::Black => self.south(),")]},
    {"name": "passed-pawn mask keeps the pawn's own rank for Black (seed C16-2)", "expect": "C16-MIRROR/colour-arms",
     "edits": [("src/engine/eval/pawn_structure.rs", "    let rank = square.rank();\n    let mut relevant_ranks = Bitboard::FULL;\n\n    let back_rank_idx = match player {\n        Player::White => Rank::R1,\n        Player::Black => Rank::R8,\n    };\n\n    let distance_from_back_rank = back_rank_idx.array_idx().abs_diff(rank.array_idx());\n\n    for _ in 0..=distance_from_back_rank {",
                "    let rank_idx = square.rank().array_idx();\n    let ranks_to_drop = match player {\n        Player::White => rank_idx + 1,\n        Player::Black => Rank::R8.array_idx() - rank_idx,\n    };\n\n    let mut relevant_ranks = Bitboard::FULL;\n    for _ in 0..ranks_to_drop {")]},
    {"name": "passed-pawn mask measured from rank 7 for Black", "expect": "C16-MIRROR/colour-arms",
     "edits": [("src/engine/eval/pawn_structure.rs", "        Player::Black => Rank::R8,\n    };\n\n    let distance_from_back_rank", "        Player::Black => Rank::R7,\n    };\n\n    let distance_from_back_rank")]},
    {"name": "endgame weight from the unclamped phase (original defect)", "expect": "C16-BLEND/endgame-weight",
     "edits": [(PH, "        let endgame_phase_value = PHASE_COUNT_MAX - midgame_phase_value;", "        let endgame_phase_value = PHASE_COUNT_MAX - phase_value;")]},
    {"name": "divisor does not match the weights", "expect": "C16-BLEND/divisor",
     "edits": [(PH, "endgame_eval * endgame_phase_value) / 24;", "endgame_eval * endgame_phase_value) / 32;")]},
    {"name": "black knight table built from the bishop definition", "expect": "C16-MIRROR/pst/Knight",
     "edits": [(PS, "        TABLES[Player::Black.array_idx()][PieceKind::Knight.array_idx()] = black_pst(KNIGHTS, PieceKind::Knight);", "        TABLES[Player::Black.array_idx()][PieceKind::Knight.array_idx()] = black_pst(BISHOPS, PieceKind::Knight);")]},
    {"name": "black tables not negated", "expect": "C16-MIRROR/builders",
     "edits": [(PS, "        negate(add_material(flatten(def), piece))", "        add_material(flatten(def), piece)")]},
    {"name": "white rook table with queen material", "expect": "C16-MIRROR/pst/Rook",
     "edits": [(PS, "= white_pst(ROOKS, PieceKind::Rook);", "= white_pst(ROOKS, PieceKind::Queen);")]},
    {"name": "mobility combined by addition", "expect": "C16-MIRROR/combine",
     "edits": [("src/engine/eval/mobility_and_king_safety.rs", "    mobility_and_opp_king_safety_for::<TRACE>(game, Player::White, trace)\n        - mobility_and_opp_king_safety_for", "    mobility_and_opp_king_safety_for::<TRACE>(game, Player::White, trace)\n        + mobility_and_opp_king_safety_for")]},
    {"name": "queen piece value scaled x4", "expect": "C16-BOUND",
     "edits": [(PA, "    s(  771,  1148),", "    s( 3084,  4592),")]},
    {"name": "bishop pair only for white", "expect": "C16-MIRROR/bishop-pair",
     "edits": [("src/engine/eval/material.rs", "    if game.board.bishops(Player::Black).count() > 1 {", "    if game.board.bishops(Player::Black).count() > 2 {")]},
    {"name": "benign: weights in locals with different names", "benign": True,
     "edits": [(PH, "        let eval = (midgame_eval * midgame_phase_value + endgame_eval * endgame_phase_value) / 24;", "        let weighted = midgame_eval * midgame_phase_value + endgame_eval * endgame_phase_value;\n        let eval = weighted / 24;")]},
]
