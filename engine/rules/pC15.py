"""C15 — incrementally maintained evaluation state equals recomputation: structural clauses C15-PAIR,
C15-INV, C15-SAME, C15-WRITERS (DESIGN.md §3)."""
from facts import deep_strip, norm, show, walk, strip_refs, is_call_to, callee_name, find_calls, guard_conditions, option_guard
import gh
import pC02

EXPLANATION = (
    "Decides the structural clauses of C15, not value equality as such: (PAIR) every board edit through "
    "Game::set_at/remove_at updates the evaluation accumulator with the same (square, piece) operands, "
    "unconditionally, and the two undo functions restore the accumulator from History; (INV) the accumulator's "
    "set_at and remove_at apply the same term functions to the same operands with opposite sign on the same "
    "fields; (SAME) the from-scratch initialisation sums exactly those term functions over piece_at of all 64 "
    "squares; (WRITERS) nothing else writes the accumulator."
)

IEF = "engine::eval::IncrementalEvalFields"


def run(fx, rep, tier):
    rule_pair(fx, rep)
    terms = rule_inv(fx, rep)
    rule_same(fx, rep, terms)
    rule_writers(fx, rep)
    rule_init(fx, rep)


def rule_init(fx, rep):
    """The accumulator is seeded from scratch when a position is built (IncrementalEvalFields::init) and then only moved by
    differences, so the tables those functions read (piece-square values, phase weights) must already hold their final
    values when the first position can be built - otherwise the base value is computed from all-zero tables and every later
    difference carries the error along (seed C15-5a). Every writer of a `static mut` read in the cone of the accumulator's
    functions must lie in the cone of a call that `main` makes before run() (shared with C12-STATICS)."""
    import pC12
    from facts import static_accesses
    su = pC12.startup_cone(fx)
    roots = [b.name for b in fx.fn_bodies() if "IncrementalEvalFields" in norm(b.name) and "::tests::" not in b.name and b.kind != "Closure" and "as std::" not in b.name and "as core::" not in b.name]
    if su is None or not roots:
        rep.notes.append("C15-INIT: main / run() or the accumulator's functions not identified; clause not decided")
        rep.rule("C15-INIT", 0, 0, True, "not decided")
        return
    cone = fx.cone(roots)
    muts = {norm(k) for k, v in fx.statics.items() if v.get("mutable")}
    read = set()
    for nm in cone:
        for (s_, kind, bb, idx) in static_accesses(fx.bodies[nm]):
            if s_ in muts and kind not in ("write",):
                read.add(s_)
    writers = {}
    for b in fx.fn_bodies():
        if "::tests::" in b.name:
            continue
        for (s_, kind, bb, idx) in static_accesses(b):
            if s_ in read and kind in ("write", "mutaddr"):
                writers.setdefault(s_, set()).add(b.name)
    ok = True
    n = 0
    for s_ in sorted(read):
        w = writers.get(s_, set())
        if not w:
            continue
        n += 1
        late = sorted(norm(x) for x in w if x not in su)
        good = not late
        rep.obligation(good)
        rep.sample({"rule": "C15-INIT", "static": s_, "writers": sorted(norm(x) for x in w), "before_run": good})
        if not good:
            ok = False
            wb = fx.bodies[sorted(x for x in w if x not in su)[0]]
            rep.violation("C15-INIT", f"C15-INIT/{s_}", f"`{s_}` is read when the accumulator is seeded or updated, but its writer {late[:2]} is not reached from a call that `main` makes before run(): a position built before that writer runs gets its base value from an all-zero table, and the incremental updates keep that error",
                          {"fn": wb.name, "file": wb.file, "line": wb.line})
    rep.rule("C15-INIT", n, 1, ok, "tables read by the accumulator are initialised before the command loop starts")



def uncond(body, bb):
    return body.must_pass(0, [bb], body.return_blocks())


def is_field(e, fld):
    e = strip_refs(e)
    return isinstance(e, tuple) and e[0] == "field" and e[2] == fld


def rule_pair(fx, rep):
    ok = True
    n = 0

    def bad(key, msg, body, line=None):
        nonlocal ok
        ok = False
        rep.violation("C15-PAIR", f"C15-PAIR/{key}", msg, {"fn": body.name, "file": body.file, "line": line or body.line})

    for gname, editor, acc in (("Game::set_at", "Board::set_at", "IncrementalEvalFields::set_at"),
                               ("Game::remove_at", "Board::remove_at", "IncrementalEvalFields::remove_at")):
        gb = fx.one(gname)
        edits = [(bb, t) for bb, t in gb.calls_to(editor) if is_field(gb.expr(t["args"][0], expand_named=True), "board")]
        accs = [(bb, t) for bb, t in gb.calls_to(acc) if is_field(gb.expr(t["args"][0], expand_named=True), "incremental_eval")]
        n += 1
        good, why = True, ""
        if len(edits) != 1 or len(accs) != 1:
            good, why = False, f"expected one board edit and one accumulator update, found {len(edits)} / {len(accs)}"
        else:
            (eb, et), (ab, at) = edits[0], accs[0]
            if not (uncond(gb, eb) and uncond(gb, ab)):
                good, why = False, "board edit and accumulator update are not both unconditional"
            sq_e, sq_a = gb.expr(et["args"][1], expand_named=True), gb.expr(at["args"][1], expand_named=True)
            if good and sq_e != sq_a:
                good, why = False, f"square operands differ: board `{show(sq_e)}` vs accumulator `{show(sq_a)}`"
            p_a = gb.expr(at["args"][2], expand_named=True)
            if good and editor == "Board::set_at":
                p_e = gb.expr(et["args"][2], expand_named=True)
                if p_e != p_a:
                    good, why = False, f"piece operands differ: board `{show(p_e)}` vs accumulator `{show(p_a)}`"
            elif good:
                src = find_calls(p_a, "Board::piece_at")
                e = strip_refs(p_a)
                direct = isinstance(e, tuple) and e[0] == "call" and e[1].endswith("Option::unwrap") and \
                    isinstance(strip_refs(e[2][0]), tuple) and strip_refs(e[2][0])[0] == "call" and strip_refs(e[2][0])[1].endswith("Board::piece_at")
                if not src or src[0][2][1] != sq_e or not direct:
                    good, why = False, f"accumulator is told `{show(p_a)}` was removed, which is not the piece read from the edited square"
                else:
                    reads = [bb for bb, t in gb.calls_to("Board::piece_at")]
                    if not any(gb.block_dominates(r, eb) and r != eb for r in reads):
                        good, why = False, "the removed piece is read after the removal"
        rep.obligation(good)
        rep.sample({"rule": "C15-PAIR", "fn": gname, "ok": good})
        if not good:
            bad(f"{gname}", f"`{gb.name}`: {why}", gb)
        # only Game::set_at / remove_at drive the accumulator
        for (b, bb, t) in fx.callers_of(lambda nme, acc=acc: nme.endswith(acc)):
            n += 1
            good = b.name == gb.name
            rep.obligation(good)
            if not good:
                bad(f"caller/{norm(b.name)}", f"`{b.name}` updates the evaluation accumulator outside {gname} (no matching board edit)", b, t.get("line"))
    # who edits Game.board at all: only the two pairing functions, and undo_move (which restores the accumulator wholesale)
    allowed_board = {fx.one(x).name for x in ("Game::set_at", "Game::remove_at", "Game::undo_move")}
    for b in fx.fn_bodies():
        sites = [(bb, idx) for (bb, idx, adt, fld, kind, place) in b.field_writes() if gh.self_game_field(place) == "board"]
        if not sites:
            continue
        n += 1
        good = b.name in allowed_board
        rep.obligation(good)
        if not good:
            bad(f"board-writer/{norm(b.name)}", f"`{b.name}` edits Game.board directly, bypassing the accumulator update in Game::set_at/remove_at", b, b.line_of(*sites[0]))
    for un in ("Game::undo_move", "Game::undo_null_move"):
        bu = fx.one(un)
        n += 1
        good, why = pC02.restored_from_history(bu, "incremental_eval", pC02.popped_history_local(bu))
        rep.obligation(good)
        if not good:
            bad(f"restore/{un}", f"`{bu.name}` does not restore the accumulator from History: {why}", bu)
        # ... and the restored value is final: nothing that runs after the restore (on any path) updates the accumulator again.
        # The take-back edits the board directly; routing one of those edits through Game::set_at / remove_at after the snapshot
        # was put back applies that piece's terms a second time (seed C15-5b)
        rsites = [(bb, idx) for (bb, idx, adt, fld, kind, place) in bu.field_writes() if gh.self_game_field(place) == "incremental_eval"]
        for cb_, t in bu.calls():
            tb = fx.body(callee_name(t)) if callee_name(t) else None
            if tb is None or tb is bu:
                continue
            touches = "incremental_eval" in gh.game_fields_written(fx, tb) and any("pl" in a and "Game" in (bu.local_ty(a["pl"]["l"]) or "") for a in t["args"])
            direct = IEF in norm(tb.name) and tb.kind != "Closure" and any((bb2, i2) for (bb2, i2, adt2, f2, k2, pl2) in tb.field_writes() if norm(adt2) == IEF)
            if not (touches or direct):
                continue
            n += 1
            after = any(cb_ in bu.reachable(rb) and (cb_ != rb or True) for (rb, ri) in rsites)
            good = not after
            rep.obligation(good)
            if not good:
                bad(f"restore-final/{un}", f"`{bu.name}` calls `{norm(tb.name)}` (which updates the accumulator) after the accumulator has been restored from History: the piece's terms are applied on top of the restored value", bu, t.get("line"))
    # make_move / make_null_move save it (pre-move)
    for mk in ("Game::make_move", "Game::make_null_move"):
        bm = fx.one(mk)
        hs = pC02.history_save(fx, bm)
        n += 1
        good = False
        if hs is not None and "incremental_eval" in hs["fields"]:
            hb, op, hbb = hs["fields"]["incremental_eval"]
            good = pC02.first_game_field_read(hb, hb.expr(op, expand_named=True, at=hbb)) == "incremental_eval"
        rep.obligation(good)
        if not good:
            bad(f"save/{mk}", f"`{bm.name}` does not save the accumulator into History", bm)
    # ... and what is saved is the value *before* the move's own updates (C02-HIST's "the read precedes every write", re-reported
    # for the accumulator: seed C15-6a moved the castling rook's relocation in front of the snapshot)
    import core
    sub = type(rep)(rep.prop, rep.tier)
    q = core.QUIET
    core.QUIET = True
    try:
        pC02.rule_hist(fx, sub)
    finally:
        core.QUIET = q
    stale = [v for v in sub.violations if v["key"].endswith("/save/incremental_eval")]
    n += 1
    rep.obligation(not stale)
    for v in stale:
        ok = False
        rep.violation("C15-PAIR", v["key"].replace("C02-HIST", "C15-PAIR/save-stale"), v["msg"] + ": the take-back then restores an accumulator that already contains part of the move", v["site"])
    rep.rule("C15-PAIR", n, 11, ok, "board edit <-> accumulator update pairing; save/restore")


def through_tuple_helper(fx, e):
    """`helper(args).k` where the in-crate helper returns one tuple literal on its only path: the k-th component with the
    helper's parameters replaced by the arguments (set_at / remove_at sharing a `contributions(sq, piece)` helper)."""
    from facts import decision_paths, substitute_args
    d = deep_strip(e)
    if isinstance(d, tuple) and d and d[0] == "field" and str(d[2]).isdigit():
        c = deep_strip(d[1])
        hb = fx.body(c[1]) if isinstance(c, tuple) and c and c[0] == "call" and isinstance(c[1], str) else None
        if hb is not None and hb.kind in ("Fn", "AssocFn"):
            ps = [p for p in decision_paths(hb, 8) if p[1] is not None]
            if len(ps) == 1 and not ps[0][0]:
                r = deep_strip(ps[0][1])
                if isinstance(r, tuple) and r[0] == "agg" and r[1] == "tuple" and int(d[2]) < len(r[2]):
                    return substitute_args(r[2][int(d[2])], c[2])
    return e


def updates(fx, body):
    """[(field, sign, term_expr)] — accumulator field updates in an IEF method."""
    return [(f, sg, through_tuple_helper(fx, t) if sg in "+-" else t, bb) for (f, sg, t, bb) in _updates(fx, body)]


def _updates(fx, body):
    out = []
    # scalar: (*self).f = (Add|Sub)WithOverflow((*self).f, term).0
    for bb, j, s in body.stmts():
        if s["k"] == "assign" and s["lhs"]["l"] == 1:
            flds = [p["n"] for p in s["lhs"].get("p", []) if isinstance(p, dict) and "n" in p and norm(p.get("adt", "")) == IEF]
            if not flds:
                continue
            e = body.expr(s["rv"].get("op"), expand_named=True) if s["rv"]["k"] == "use" else None
            found = False
            # the stored value must be exactly `field (+|-) term` (the `.0` of a checked op), not something computed from it
            v = deep_strip(e) if e else None
            if isinstance(v, tuple) and v and v[0] == "field" and v[2] == "0" and isinstance(deep_strip(v[1]), tuple) and deep_strip(v[1])[0] == "binop":
                v = deep_strip(v[1])
            if isinstance(v, tuple) and v and v[0] == "binop" and v[1] in ("AddWithOverflow", "SubWithOverflow", "Add", "Sub"):
                a, b = v[2], v[3]
                if is_field(a, flds[0]):
                    out.append((flds[0], "+" if v[1].startswith("Add") else "-", b, bb))
                    found = True
                elif v[1].startswith("Add") and is_field(b, flds[0]):
                    out.append((flds[0], "+", a, bb))
                    found = True
            if not found:
                out.append((flds[0], "=", e, bb))
    for bb, t in body.calls():
        for sign, tr in (("+", "AddAssign>::add_assign"), ("-", "SubAssign>::sub_assign")):
            if is_call_to(t, tr) or (callee_name(t) and norm(callee_name(t)).endswith(tr)):
                recv = strip_refs(body.expr(t["args"][0], expand_named=True))
                if isinstance(recv, tuple) and recv[0] == "field":
                    out.append((recv[2], sign, body.expr(t["args"][1], expand_named=True), bb))
    return out


def rule_inv(fx, rep):
    ok = True
    sa, ra = fx.one("IncrementalEvalFields::set_at"), fx.one("IncrementalEvalFields::remove_at")
    us, ur = updates(fx, sa), updates(fx, ra)
    n = len(us) + len(ur)

    def bad(key, msg, body):
        nonlocal ok
        ok = False
        rep.violation("C15-INV", f"C15-INV/{key}", msg, {"fn": body.name, "file": body.file, "line": body.line})

    rep.sample({"rule": "C15-INV", "set_at": [(f, s, show(t)) for f, s, t, _ in us], "remove_at": [(f, s, show(t)) for f, s, t, _ in ur]})
    fields = {f["name"] for f in fx.adt(IEF)["variants"][0]["fields"]}
    for body, ups, sign in ((sa, us, "+"), (ra, ur, "-")):
        for (f, s, t, bb) in ups:
            good = s == sign and uncond(body, bb)
            rep.obligation(good)
            if not good:
                bad(f"{norm(body.name)}/{f}/sign", f"`{body.name}` updates {f} with `{s}` (expected `{sign}`, unconditionally)", body)
        seen = {f for f, _, _, _ in ups}
        for f in sorted(fields - seen):
            rep.obligation(False)
            bad(f"{norm(body.name)}/{f}/missing", f"`{body.name}` does not update accumulator field {f}", body)
    ms = sorted((f, t) for f, s, t, _ in us)
    mr = sorted((f, t) for f, s, t, _ in ur)
    good = ms == mr
    rep.obligation(good)
    if not good:
        bad("terms", f"set_at and remove_at are not inverse: set_at applies {[(f, show(t)) for f, t in ms]} but remove_at applies {[(f, show(t)) for f, t in mr]}", ra)
    # PhasedEval += / -= are component-wise add / sub of the packed word
    for tr, op in (("AddAssign>::add_assign", "Add"), ("SubAssign>::sub_assign", "Sub")):
        cands = [b for b in fx.fn_bodies() if norm(b.name).endswith(tr) and "PhasedEval" in b.name]
        n += 1
        good = len(cands) == 1
        if good:
            ops = [s["rv"]["op"] for bb, j, s in cands[0].stmts() if s["k"] == "assign" and s["rv"]["k"] == "binop"]
            good = len(ops) == 1 and ops[0].startswith(op)
        rep.obligation(good)
        if not good:
            bad(f"phased/{op}", f"PhasedEval `{tr}` is not a plain {op} of the packed word", cands[0] if cands else sa)
    rep.rule("C15-INV", n, 6, ok, "set_at / remove_at inverse term lists")
    return {f: t for f, s, t, _ in us}


def term_fn(e):
    """Callee name of the outermost in-crate term function in a term expression."""
    e = strip_refs(e)
    if isinstance(e, tuple) and e[0] == "call":
        return e[1]
    return None


def rule_same(fx, rep, terms):
    ok = True
    n = 0
    ini = fx.one("IncrementalEvalFields::init")

    def bad(key, msg, body):
        nonlocal ok
        ok = False
        rep.violation("C15-SAME", f"C15-SAME/{key}", msg, {"fn": body.name, "file": body.file, "line": body.line})

    aggs = [(bb, j, s) for bb, j, s in ini.stmts() if s["k"] == "assign" and s["rv"]["k"] == "agg" and s["rv"].get("agg") == "adt" and norm(s["rv"]["adt"]) == IEF]
    if len(aggs) != 1:
        bad("init", f"expected one IncrementalEvalFields literal in init, found {len(aggs)}", ini)
        rep.rule("C15-SAME", 0, 2, False)
        return
    rv = aggs[0][2]["rv"]
    for fname, op in zip(rv["fields"], rv["ops"]):
        n += 1
        want = term_fn(terms.get(fname)) if terms.get(fname) is not None else None
        e = ini.expr(op, expand_named=True)
        src = term_fn(e)
        sb = fx.body(src) if src else None
        good, why = True, ""
        if want is None:
            good, why = False, f"no incremental term known for field {fname}"
        elif sb is None:
            good, why = False, f"field {fname} is initialised by `{show(e)}`, not by an in-crate summing function"
        else:
            # the summing function must call the same term function, over piece_at of all 64 squares
            tcalls = [(bb, t) for bb, t in sb.calls() if callee_name(t) and norm(callee_name(t)) == want]
            others = set()
            for nm in fx.cone([sb.name]):
                for f2, t2 in terms.items():
                    tf = term_fn(t2)
                    if tf and tf != want and fx.body(tf) and fx.body(tf).name == nm:
                        others.add(tf)
            in_closures = []
            if not tcalls:
                # iterator-chain form: the term is evaluated inside a closure of the summing function
                for nm in fx.cone([sb.name]):
                    cb = fx.bodies[nm]
                    if cb is not sb and nm.startswith(sb.name + "::{closure"):
                        in_closures += [(cb, bb, t) for bb, t in cb.calls() if callee_name(t) and norm(callee_name(t)) == want]
            if not tcalls and len(in_closures) == 1 and not others:
                cbody, cbb, ct = in_closures[0]
                cargs = [cbody.expr(a, expand_named=True) for a in ct["args"]]
                inc_args = strip_refs(terms[fname])[2]
                shape_inc = ["kind" if is_field(a, "kind") else "whole" for a in inc_args]
                shape_ini = ["kind" if is_field(a, "kind") else "whole" for a in cargs]
                if shape_inc != shape_ini:
                    good, why = False, f"argument shapes differ: incremental {shape_inc} vs from-scratch {shape_ini}"
                else:
                    # per-kind form: the squares come from the board's piece sets; then every kind's set has to be visited
                    kinds_m = ("pawns", "knights", "bishops", "rooks", "queens", "king")
                    called = set()
                    generic = False
                    for nm in [sb.name] + [k for k in fx.bodies if k.startswith(sb.name + "::{closure")]:
                        for bb2, t2 in fx.bodies[nm].calls():
                            cn2 = norm(callee_name(t2) or "")
                            if cn2.startswith("chess::board::Board::"):
                                m2 = cn2.split("::")[-1]
                                if m2 in kinds_m:
                                    called.add(m2)
                                elif m2 in ("piece_at", "pieces_of_kind", "occupancy", "occupancy_for", "pieces"):
                                    generic = True
                    if called and not generic and called != set(kinds_m) and "phase" in str(want):
                        rep.notes.append(f"C15-SAME: `{sb.name}` visits {sorted(called)} only; kinds that contribute nothing to the phase may be skipped - not decided")
                    elif called and not generic and called != set(kinds_m):
                        good, why = False, f"the from-scratch sum visits the sets {sorted(called)} only: the {sorted(set(kinds_m) - called)} of both players are left out, so an accumulator seeded from a position lacks their terms while the incremental updates add and remove them"
                    else:
                        rep.notes.append(f"C15-SAME: `{sb.name}` sums `{want}` through an iterator chain; the visited squares and the guard are not decided for this shape")
            elif len(tcalls) != 1:
                good, why = False, f"`{sb.name}` calls the term function `{want}` {len(tcalls)} time(s) (expected once, in its loop)"
            elif others:
                good, why = False, f"`{sb.name}` also reaches other accumulator term functions {sorted(others)}"
            else:
                tb, tt = tcalls[0]
                targs = [sb.expr(a, expand_named=True) for a in tt["args"]]
                pa = [find_calls(a, "Board::piece_at") for a in targs]
                pa = [x for xs in pa for x in xs]
                if not pa:
                    good, why = False, "the summed term does not use the piece found by piece_at"
                else:
                    sq = pa[0][2][1]
                    rng = [x for x in walk(sq) if isinstance(x, tuple) and x[0] == "agg" and isinstance(x[1], str) and x[1].endswith("Range::Range")]
                    fai = find_calls(sq, "Square::from_array_index")
                    nsq = fx.const("Square::N").get("int")
                    if not rng or not fai:
                        good, why = False, f"the visited square `{show(sq)[:100]}` is not Square::from_array_index(i) for i in a range"
                    else:
                        lo, hi = rng[0][2][0], rng[0][2][1]
                        if not (lo == ("const", 0) and (hi == ("const", nsq) or (isinstance(hi, tuple) and hi[0] == "constpath" and hi[1].endswith("Square::N")))):
                            good, why = False, f"the loop covers {show(lo)}..{show(hi)}, not 0..Square::N"
                    # for the two-argument term (square, piece): the square must be the visited one
                    if good and len(targs) == 2 and targs[0] != sq:
                        good, why = False, f"term evaluated for square `{show(targs[0])[:80]}` but piece read from `{show(sq)[:80]}`"
                    # compare argument shape with the incremental term: piece.kind vs piece
                    inc_args = strip_refs(terms[fname])[2]
                    shape_inc = ["kind" if is_field(a, "kind") else "whole" for a in inc_args]
                    shape_ini = ["kind" if is_field(a, "kind") else "whole" for a in targs]
                    if good and shape_inc != shape_ini:
                        good, why = False, f"argument shapes differ: incremental {shape_inc} vs from-scratch {shape_ini}"
                    # guarded only by 'a piece is there'
                    if good:
                        for (ge, pol, where) in guard_conditions(sb, tb):
                            og = option_guard(ge, pol)
                            if og is None:
                                continue
                            inner, p = og
                            if find_calls(inner, "Board::piece_at") and p is not True:
                                good, why = False, "term is added when no piece is on the square"
                            elif not find_calls(inner, "Board::piece_at") and not find_calls(inner, "Iterator>::next", "range::next"):
                                good, why = False, f"term is added only under an extra condition `{show(inner)[:80]}`"
                    # accumulates by addition into the returned value
                    if good:
                        dst = tt["dest"]["l"]
                        uses_add = False
                        for bb, j, s in sb.stmts():
                            if s["k"] == "assign" and s["rv"]["k"] == "binop" and s["rv"]["op"].startswith("Add"):
                                if dst in [x for o in sb.rvalue_operands(s["rv"]) for x in sb.operand_locals(o)]:
                                    uses_add = True
                        for bb, t in sb.calls():
                            if callee_name(t) and norm(callee_name(t)).endswith("AddAssign>::add_assign") and dst in sb.operand_locals(t["args"][1]):
                                uses_add = True
                        if not uses_add:
                            good, why = False, "the term is not accumulated by addition"
        rep.obligation(good)
        rep.sample({"rule": "C15-SAME", "field": fname, "init": show(e)[:120], "term": want, "ok": good})
        if not good:
            bad(f"{fname}", f"from-scratch value of {fname}: {why}", sb or ini)
    # from_state uses init on the board it installs
    fs = fx.one("Game::from_state")
    n += 1
    ic = fs.calls_to("IncrementalEvalFields::init")
    good = len(ic) == 1
    if good:
        a = strip_refs(fs.expr(ic[0][1]["args"][0], expand_named=True))
        good = isinstance(a, tuple) and a[0] == "arg"
        barg = a[1] if good else None
        aggs = [s for bb, j, s in fs.stmts() if s["k"] == "assign" and s["rv"]["k"] == "agg" and s["rv"].get("agg") == "adt" and norm(s["rv"]["adt"]) == gh.GAME]
        if good and len(aggs) == 1:
            rvg = aggs[0]["rv"]
            m = dict(zip(rvg["fields"], rvg["ops"]))
            be = strip_refs(fs.expr(m["board"], expand_named=True))
            ie = fs.expr(m["incremental_eval"], expand_named=True)
            good = isinstance(be, tuple) and be[0] == "arg" and be[1] == barg and bool(find_calls(ie, "IncrementalEvalFields::init"))
        else:
            good = False
    rep.obligation(good)
    if not good:
        bad("from_state", "Game::from_state does not initialise the accumulator by IncrementalEvalFields::init(&board) of the board it installs", fs)
    rep.rule("C15-SAME", n, 3, ok, "from-scratch init sums the same term functions over all squares")


def rule_writers(fx, rep):
    ok = True
    n = 0
    allowed = {fx.one("IncrementalEvalFields::set_at").name, fx.one("IncrementalEvalFields::remove_at").name}
    w = {}
    for b in fx.fn_bodies():
        for (bb, idx, adt, fld, kind, place) in b.field_writes():
            if adt == IEF:
                w.setdefault(b.name, set()).add(fld)
    for name, flds in sorted(w.items()):
        n += 1
        good = name in allowed
        rep.obligation(good)
        if not good:
            ok = False
            b = fx.bodies[name]
            rep.violation("C15-WRITERS", f"C15-WRITERS/{norm(name)}", f"`{name}` writes accumulator field(s) {sorted(flds)} directly", {"fn": name, "file": b.file, "line": b.line})
    allowed_g = {fx.one(x).name for x in ("Game::set_at", "Game::remove_at", "Game::undo_move", "Game::undo_null_move")}
    gw = set()
    for b in fx.fn_bodies():
        for (bb, idx, adt, fld, kind, place) in b.field_writes():
            if gh.self_game_field(place) == "incremental_eval":
                gw.add(b.name)
    for name in sorted(gw):
        n += 1
        good = name in allowed_g
        rep.obligation(good)
        if not good:
            ok = False
            b = fx.bodies[name]
            rep.violation("C15-WRITERS", f"C15-WRITERS/game/{norm(name)}", f"`{name}` modifies Game.incremental_eval (only Game::set_at/remove_at and the undo functions may)", {"fn": name, "file": b.file, "line": b.line})
    rep.sample({"rule": "C15-WRITERS", "field_writers": {k: sorted(v) for k, v in w.items()}, "game_field_writers": sorted(gw)})
    rep.rule("C15-WRITERS", n, 5, ok, "writers of the accumulator")


G = "src/chess/game.rs"
E = "src/engine/eval/mod.rs"
MUTANTS = [
    {"name": "from-scratch piece-square sum by per-kind loops without the kings (seed C15-9a)", "expect": "C15-SAME/piece_square_tables",
     "edits": __import__("shared_mutants").edits_from_patch("seeded/C15-9a/patch.diff")},
    {"name": "castling rook relocated before the History snapshot is taken (seed C15-6a)", "expect": "C15-PAIR/save-stale",
     "edits": [("src/chess/game.rs", "        let maybe_captured_piece = self.board.piece_at(to);\n\n        // Capture the irreversible aspects", "        if mv.is_castling() {\n            if let Some((rook_from, rook_to)) = squares::castle_squares(player, to) {\n                let rook = self.remove_at(rook_from);\n                self.set_at(rook_to, rook);\n            }\n        }\n\n        let maybe_captured_piece = self.board.piece_at(to);\n\n        // Capture the irreversible aspects"),
               ("src/chess/game.rs", "        self.en_passant_target = new_en_passant_target;\n\n        if mv.is_castling() {\n            if let Some((rook_from, rook_to)) = squares::castle_squares(player, to) {\n                let rook = self.remove_at(rook_from);\n                self.set_at(rook_to, rook);\n            }\n        }\n", "        self.en_passant_target = new_en_passant_target;\n")]},
    {"name": "take-back of an en-passant capture re-adds the victim through Game::set_at (seed C15-5b)", "expect": "C15-PAIR/restore-final",
     "edits": [("src/chess/game.rs", "            self.board\n                .set_at(capture_square, Piece::new(other_player, PieceKind::Pawn));", "            self.set_at(capture_square, Piece::new(other_player, PieceKind::Pawn));"),
               ("src/chess/game.rs", "        self.player = player;\n        self.zobrist = history.zobrist;\n", "        self.player = player;\n"),
               ("src/chess/game.rs", "        } else {\n            self.board.set_at(from, moved_piece);\n        }\n    }\n\n    pub fn undo_null_move", "        } else {\n            self.board.set_at(from, moved_piece);\n        }\n        self.zobrist = history.zobrist;\n    }\n\n    pub fn undo_null_move")]},
    {"name": "evaluation tables initialised lazily, not before the command loop (seed C15-5a)", "expect": "C15-INIT",
     "edits": [("src/main.rs", "    init();\n    run()", "    chess::init();\n    run()"),
               ("src/engine/uci/mod.rs", "            UciCommand::IsReady => send_response(&UciResponse::ReadyOk),", "            UciCommand::IsReady => {\n                crate::engine::init();\n                send_response(&UciResponse::ReadyOk);\n            }")]},
    {"name": "benign: main calls the two initialisers itself", "benign": True,
     "edits": [("src/main.rs", "    init();\n    run()", "    chess::init();\n    engine::init();\n    run()")]},
    {"name": "set_at clamps the phase counter (seed C15-1)", "expect": "C15-INV",
     "edits": [("src/engine/eval/mod.rs", "        self.phase_value += phased_eval::piece_phase_value_contribution(piece.kind);\n        self.piece_square_tables += piece_square_tables::piece_contributions(sq, piece);",
                "        self.phase_value = (self.phase_value + phased_eval::piece_phase_value_contribution(piece.kind)).min(24);\n        self.piece_square_tables += piece_square_tables::piece_contributions(sq, piece);")]},
    {"name": "accumulator told a pawn was placed on promotion", "expect": "C15-PAIR/Game::set_at",
     "edits": [(G, "        self.incremental_eval.set_at(sq, piece);", "        self.incremental_eval.set_at(sq, Piece::new(piece.player, PieceKind::Pawn));")]},
    {"name": "phase only updated in set_at", "expect": "C15-INV",
     "edits": [(E, "        self.phase_value -= phased_eval::piece_phase_value_contribution(piece.kind);\n", "")]},
    {"name": "remove_at adds instead of subtracting PST", "expect": "C15-INV",
     "edits": [(E, "        self.piece_square_tables -= piece_square_tables::piece_contributions(sq, piece);", "        self.piece_square_tables += piece_square_tables::piece_contributions(sq, piece);")]},
    {"name": "init skips the last square", "expect": "C15-SAME",
     "edits": [("src/engine/eval/piece_square_tables.rs", "pub fn eval(board: &Board) -> PhasedEval {\n    let mut eval = PhasedEval::ZERO;\n\n    for idx in 0..Square::N {", "pub fn eval(board: &Board) -> PhasedEval {\n    let mut eval = PhasedEval::ZERO;\n\n    for idx in 0..Square::N - 1 {")]},
    {"name": "undo_null_move keeps accumulator", "expect": "C15-PAIR/restore",
     "edits": [(G, "        self.halfmove_clock = history.halfmove_clock;\n        self.incremental_eval = history.incremental_eval;\n    }", "        self.halfmove_clock = history.halfmove_clock;\n    }")]},
    {"name": "castling rook moved without accumulator (direct call)", "expect": "C15-",
     "edits": [(G, "                let rook = self.remove_at(rook_from);\n                self.set_at(rook_to, rook);", "                let rook = self.remove_at(rook_from);\n                self.board.set_at(rook_to, rook);\n                self.zobrist.toggle_piece_on_square(rook_to, rook);")]},
    {"name": "search tweaks phase directly", "expect": "C15-WRITERS",
     "edits": [(G, "        self.plies += 1;\n\n        self.player = self.player.other();", "        self.plies += 1;\n        self.incremental_eval.phase_value += 0;\n\n        self.player = self.player.other();")]},
    {"name": "benign: reorder accumulator updates", "benign": True,
     "edits": [(E, "        self.phase_value += phased_eval::piece_phase_value_contribution(piece.kind);\n        self.piece_square_tables += piece_square_tables::piece_contributions(sq, piece);",
                "        self.piece_square_tables += piece_square_tables::piece_contributions(sq, piece);\n        self.phase_value += phased_eval::piece_phase_value_contribution(piece.kind);")]},
]
