"""Fact base over the simplified MIR emitted by factgen, plus the shared static-analysis primitives
(P1..P7 of DESIGN.md): CFG, edge dominance, must-pass-through, data-dependence slices, expression
reconstruction, call graph / cones, who-writes / who-calls.

Nothing in here executes repository code: everything is computed from the JSON fact file that the
rustc_private driver wrote for /repo's current working tree.
"""
import json
import re
from collections import defaultdict, deque
from functools import lru_cache

_GENERIC_RE = re.compile(r"::<[^<>]*(?:<[^<>]*(?:<[^<>]*>[^<>]*)*>[^<>]*)*>")


def norm(name):
    """Strip generic argument lists: `ByPlayer::<T>::for_player` -> `ByPlayer::for_player`."""
    if name is None:
        return None
    prev = None
    while prev != name:
        prev = name
        name = _GENERIC_RE.sub("", name)
    return name


def short(name):
    """Last two path segments, generics stripped (for messages)."""
    n = norm(name)
    parts = n.split("::")
    return "::".join(parts[-2:])


INLINE_ROOT = "engine::uci::Uci::execute"


def _renumber(x, lo, bo):
    """deep copy of a MIR fact fragment with local indices shifted by `lo` and block indices by `bo`"""
    if isinstance(x, list):
        return [_renumber(y, lo, bo) for y in x]
    if not isinstance(x, dict):
        return x
    out = {}
    for k, v in x.items():
        if k == "l" and isinstance(v, int):
            out[k] = v + lo
        elif k == "idx" and isinstance(v, int):
            out[k] = v + lo
        elif k in ("target", "otherwise", "unwind") and isinstance(v, int):
            out[k] = v + bo
        elif k == "targets" and isinstance(v, list):
            out[k] = [[a, b + bo] for a, b in v]
        elif k == "t" and isinstance(v, str):
            out[k] = v  # printed form of a place: informational only
        else:
            out[k] = _renumber(v, lo, bo)
    return out


def inline_private_helpers(bodies, rounds=2):
    """Behaviour-preserving normalisation of the fact base: in `Uci::execute` and in the closures defined in it, a call to a
    *private* function or method of the same file (`engine::uci`) is replaced by a copy of the callee's blocks - parameters
    become ordinary locals assigned from the call's arguments, `return` becomes an assignment of the callee's `_0` to the
    call's destination and a jump to the call's target. The callee itself stays in the fact base. This undoes "moved the
    arm / the thread body / a shared loop into a private helper" refactors for every rule that reads those bodies, instead
    of teaching each rule to look one call further."""
    notes = []
    for root_name, prefix in INLINE_ROOTS:
        notes += _inline_root(bodies, root_name, prefix, rounds)
    return notes


INLINE_ROOTS = (("engine::uci::Uci::execute", "engine::uci::"),
                ("engine::search::negamax::negamax", "engine::search::negamax::"),
                ("engine::search::quiescence::quiescence", "engine::search::quiescence::"),
                ("engine::search::time_control::TimeStrategy::new", "engine::search::time_control::"))


def _inline_root(bodies, INLINE_ROOT, prefix, rounds):
    notes = []
    root = bodies.get(INLINE_ROOT)
    if root is None:
        return notes
    for _round in range(rounds):
        changed = False
        callers = [k for k in bodies if k == INLINE_ROOT or k.startswith(INLINE_ROOT + "::{closure")]
        for ck in callers:
            cb = bodies[ck]
            bi = 0
            while bi < len(cb["blocks"]):
                t = cb["blocks"][bi]["term"]
                bi += 1
                if t.get("k") != "call" or not isinstance(t.get("func"), dict) or t["func"].get("k") != "const":
                    continue
                cn = t["func"].get("res") or t["func"].get("fn")
                callee = bodies.get(cn) if cn else None
                if callee is None:
                    # generic-insensitive match
                    cands = [k for k in bodies if norm(k) == norm(cn or "")]
                    callee = bodies[cands[0]] if len(cands) == 1 else None
                    cn = cands[0] if len(cands) == 1 else cn
                if callee is None or callee is cb or cn == INLINE_ROOT or callee.get("vis_pub") or callee.get("kind") not in ("Fn", "AssocFn"):
                    continue
                if callee.get("file") != root.get("file") or not norm(cn).startswith(prefix) or len(callee["blocks"]) > 400:
                    continue
                if len(t["args"]) != callee["arg_count"] or "unwind" not in t and "unwind_k" not in t:
                    continue
                if callee["locals"][0]["ty"] == "bool":
                    continue  # predicates stay calls: the rules treat a bool-valued wrapper of a test as that test (wrappers_of)
                # recursion guard: the callee must not call itself or the root
                if any(b2["term"].get("k") == "call" and isinstance(b2["term"].get("func"), dict) and (b2["term"]["func"].get("res") or b2["term"]["func"].get("fn")) in (cn, INLINE_ROOT)
                       for b2 in callee["blocks"]):
                    continue
                lo, bo = len(cb["locals"]), len(cb["blocks"])
                cb["locals"].extend(_renumber(callee["locals"], 0, 0))
                new_blocks = _renumber(callee["blocks"], lo, bo)
                dest, target = t["dest"], t.get("target")
                for nb in new_blocks:
                    nt = nb["term"]
                    if nt.get("k") == "return":
                        nb["stmts"] = list(nb["stmts"]) + [{"k": "assign", "lhs": dest, "rv": {"k": "use", "ty": callee["locals"][0]["ty"], "op": {"k": "move", "pl": {"l": lo, "p": [], "t": f"_{lo}"}}},
                                                            "line": nt.get("line"), "inlined": True}]
                        nb["term"] = {"k": "goto", "target": target, "line": nt.get("line")} if target is not None else {"k": "unreachable", "line": nt.get("line")}
                cb["blocks"].extend(new_blocks)
                blk = cb["blocks"][bi - 1]
                blk["stmts"] = list(blk["stmts"]) + [{"k": "assign", "lhs": {"l": lo + 1 + i, "p": [], "t": f"_{lo + 1 + i}"}, "rv": {"k": "use", "ty": callee["locals"][1 + i]["ty"], "op": a},
                                                     "line": t.get("line"), "inlined": True} for i, a in enumerate(t["args"])]
                blk["term"] = {"k": "goto", "target": bo, "line": t.get("line")}
                notes.append(f"inlined `{norm(cn)}` into `{norm(ck)}` (line {t.get('line')})")
                changed = True
        if not changed:
            break
    return notes


class Facts:
    def __init__(self, path):
        import vocab
        with open(path) as f:
            text = f.read()
        # rewrite behaviour-preserving renames / moves of anchored items into the rules' frozen vocabulary (see vocab.py)
        self.raw, self.vocab_notes = vocab.normalise(text)
        self.config = self.raw.get("config")
        self.nonce = self.raw.get("nonce")
        self.adts = self.raw["adts"]
        self.consts = self.raw["consts"]
        self.statics = self.raw["statics"]
        self.impls = self.raw["impls"]
        # splice private helpers of the UCI command handler back into it (see inline_private_helpers): the rules over
        # `Uci::execute` and the search-thread closure then see one body whether or not an arm was moved into a method
        self.inline_notes = inline_private_helpers(self.raw["bodies"])
        self.bodies = {}
        for k, v in self.raw["bodies"].items():
            self.bodies[k] = Body(self, k, v)
        self._by_norm = defaultdict(list)
        for k in self.bodies:
            self._by_norm[norm(k)].append(k)
        self._callgraph = None

    # ---- lookup -------------------------------------------------------------------------
    def body(self, name):
        """Exact def-path lookup, generics-insensitive. Returns None when absent."""
        if name in self.bodies:
            return self.bodies[name]
        ks = self._by_norm.get(norm(name))
        if ks:
            return self.bodies[ks[0]]
        return None

    def find(self, suffix):
        """All bodies whose normalised path ends with `suffix` (on a `::` boundary)."""
        out = []
        for k, b in self.bodies.items():
            n = norm(k)
            if n == suffix or n.endswith("::" + suffix):
                out.append(b)
        return out

    def one(self, suffix):
        r = self.find(suffix)
        if len(r) != 1:
            raise MissingAnchor(f"expected exactly one body matching `{suffix}`, found {len(r)}: {[b.name for b in r][:5]}")
        return r[0]

    def fn_bodies(self):
        return [b for b in self.bodies.values() if b.kind in ("Fn", "AssocFn", "Closure")]

    def const(self, suffix):
        r = [(k, v) for k, v in self.consts.items() if norm(k) == suffix or norm(k).endswith("::" + suffix)]
        if len(r) != 1:
            raise MissingAnchor(f"expected exactly one const matching `{suffix}`, found {[k for k, _ in r][:5]}")
        return r[0][1]

    def adt(self, suffix):
        r = [(k, v) for k, v in self.adts.items() if norm(k) == suffix or norm(k).endswith("::" + suffix)]
        if len(r) != 1:
            raise MissingAnchor(f"expected exactly one ADT matching `{suffix}`, found {[k for k, _ in r][:5]}")
        return r[0][1]

    # ---- call graph ---------------------------------------------------------------------
    def callgraph(self):
        """name -> set of in-crate body names it may transfer control to / hand out as values:
        direct calls (resolved), fn items and closures mentioned as values, and for unresolved
        trait-method calls every in-crate impl of that method."""
        if self._callgraph is not None:
            return self._callgraph
        trait_impls = defaultdict(list)  # trait method path (norm) -> impl bodies
        for k, b in self.bodies.items():
            m = re.match(r"^<(.+) as (.+)>::(\w+)$", norm(k))
            if m:
                trait_impls[(norm(m.group(2)).split("::")[-1], m.group(3))].append(k)
        g = defaultdict(set)
        for k, b in self.bodies.items():
            for ref in b.fn_refs():
                tgt = ref.get("res") or ref.get("fn")
                if ref.get("closure"):
                    tgt = ref["closure"]
                if tgt is None:
                    continue
                tb = self.body(tgt)
                if tb is not None:
                    g[k].add(tb.name)
                # blanket conversions: T::try_into() / T::into() call <U as TryFrom<T>>::try_from / <U as From<T>>::from
                fnn = norm(ref.get("fn") or "")
                ga = ref.get("gargs") or []
                if len(ga) >= 2 and (fnn.endswith("TryInto::try_into") or fnn.endswith("Into::into")):
                    want = "TryFrom<" if fnn.endswith("try_into") else "From<"
                    meth = "try_from" if fnn.endswith("try_into") else "from"
                    for cand in self.bodies:
                        if cand.startswith("<" + ga[1] + " as std::convert::" + want) and cand.endswith(">::" + meth):
                            g[k].add(cand)
                if ref.get("unresolved") and ref.get("trait"):
                    meth = norm(ref["fn"]).split("::")[-1]
                    tr = norm(ref["trait"]).split("::")[-1]
                    for impl in trait_impls.get((tr, meth), []):
                        g[k].add(impl)
        self._callgraph = g
        return g

    def cone(self, roots, stop=()):
        """Transitive closure of the call graph from `roots` (body names). `stop`: names not entered."""
        g = self.callgraph()
        seen = set()
        dq = deque(roots)
        while dq:
            n = dq.popleft()
            if n in seen or n in stop:
                continue
            seen.add(n)
            for m in g.get(n, ()):
                if m not in seen:
                    dq.append(m)
        return seen

    def callers_of(self, pred):
        """[(body, bb, term)] for every call whose resolved callee name satisfies pred(norm_name)."""
        out = []
        for b in self.bodies.values():
            for bb, t in b.calls():
                cn = callee_name(t)
                if cn is not None and pred(norm(cn)):
                    out.append((b, bb, t))
        return out


class MissingAnchor(Exception):
    pass


def callee_name(term):
    f = term.get("func", {})
    return f.get("res") or f.get("fn")


def callee_decl(term):
    return term.get("func", {}).get("fn")


def is_call_to(term, *suffixes):
    if term.get("k") != "call":
        return False
    names = {norm(x) for x in (term["func"].get("res"), term["func"].get("fn")) if x}
    for n in names:
        for s in suffixes:
            if n == s or n.endswith("::" + s):
                return True
    return False


# -------------------------------------------------------------------------------------------


class Body:
    def __init__(self, facts, name, raw):
        self.facts = facts
        self.name = name
        self.raw = raw
        self.kind = raw["kind"]
        self.file = raw.get("file")
        self.line = raw.get("line")
        self.blocks = raw["blocks"]
        self.locals = raw["locals"]
        self.arg_count = raw["arg_count"]
        self.parent = raw.get("parent")
        self.n = len(self.blocks)
        self._succ = None
        self._pred = None
        self._defs = None

    def __repr__(self):
        return f"<Body {self.name}>"

    # ---- CFG ----------------------------------------------------------------------------
    def succ(self, bb, unwind=False):
        t = self.blocks[bb]["term"]
        k = t["k"]
        out = []
        if k == "goto":
            out.append(t["target"])
        elif k == "switch":
            out.extend(x[1] for x in t["targets"])
            out.append(t["otherwise"])
        elif k in ("call", "drop", "assert"):
            if "target" in t:
                out.append(t["target"])
        if unwind and "unwind" in t:
            out.append(t["unwind"])
        return out

    def succs(self):
        if self._succ is None:
            self._succ = [list(dict.fromkeys(self.succ(i))) for i in range(self.n)]
        return self._succ

    def preds(self):
        if self._pred is None:
            p = [[] for _ in range(self.n)]
            for i, ss in enumerate(self.succs()):
                for s in ss:
                    p[s].append(i)
            self._pred = p
        return self._pred

    def reachable(self, start=0, removed_edges=(), removed_blocks=()):
        """Blocks reachable from `start` over normal edges, not using removed edges / entering removed blocks."""
        removed_edges = set(removed_edges)
        removed_blocks = set(removed_blocks)
        if start in removed_blocks:
            return set()
        seen = {start}
        dq = deque([start])
        sc = self.succs()
        while dq:
            b = dq.popleft()
            for s in sc[b]:
                if (b, s) in removed_edges or s in removed_blocks or s in seen:
                    continue
                seen.add(s)
                dq.append(s)
        return seen

    def live_blocks(self):
        return self.reachable(0)

    def return_blocks(self):
        return [i for i in range(self.n) if self.blocks[i]["term"]["k"] == "return"]

    def edge_dominates(self, a, s, site):
        """True iff every path entry -> `site` uses the edge a->s."""
        if site not in self.reachable(0):
            return False
        return site not in self.reachable(0, removed_edges=[(a, s)])

    def block_dominates(self, d, site):
        if site == d:
            return True
        return site in self.reachable(0) and site not in self.reachable(0, removed_blocks=[d])

    def must_pass(self, frm, blocks, to_blocks):
        """True iff every path frm -> any of to_blocks passes through one of `blocks`."""
        r = self.reachable(frm, removed_blocks=blocks)
        return not any(t in r for t in to_blocks)

    def switch_edges(self):
        """[(bb, value_or_'otherwise', target)] for all SwitchInt terminators in live code."""
        out = []
        live = self.live_blocks()
        for i in live:
            t = self.blocks[i]["term"]
            if t["k"] == "switch":
                for v, tg in t["targets"]:
                    out.append((i, v, tg))
                out.append((i, "otherwise", t["otherwise"]))
        return out

    def guards_of(self, site):
        """Switch edges (bb, value, target) that dominate `site` (every path to site takes them)."""
        out = []
        for (a, v, s) in self.switch_edges():
            # an edge whose target is shared with another value of the same switch does not dominate by itself
            t = self.blocks[a]["term"]
            same = [x for x in t["targets"] if x[1] == s]
            n_same = len(same) + (1 if t["otherwise"] == s else 0)
            if n_same > 1:
                continue
            if self.edge_dominates(a, s, site):
                out.append((a, v, s))
        return out

    # ---- statements / calls -------------------------------------------------------------
    def calls(self, live_only=True):
        live = self.live_blocks() if live_only else range(self.n)
        for i in sorted(live):
            t = self.blocks[i]["term"]
            if t["k"] == "call":
                yield i, t

    def calls_to(self, *suffixes):
        return [(i, t) for i, t in self.calls() if is_call_to(t, *suffixes)]

    def stmts(self, live_only=True):
        live = self.live_blocks() if live_only else range(self.n)
        for i in sorted(live):
            for j, s in enumerate(self.blocks[i]["stmts"]):
                yield i, j, s

    def fn_refs(self):
        """Every FnDef/closure constant mentioned anywhere in the body (call targets and values)."""
        out = []

        def op(o):
            if not isinstance(o, dict):
                return
            if o.get("k") == "const":
                if "fn" in o or "closure" in o:
                    out.append(o)

        for blk in self.blocks:
            for s in blk["stmts"]:
                rv = s.get("rv")
                if rv:
                    for key in ("op", "a", "b"):
                        if isinstance(rv.get(key), dict):
                            op(rv[key])
                    for o in rv.get("ops", []):
                        op(o)
                    if rv.get("k") == "agg" and rv.get("agg") == "closure":
                        out.append({"closure": rv["closure"]})
            t = blk["term"]
            if t["k"] in ("call", "tailcall"):
                op(t["func"])
                for a in t["args"]:
                    op(a)
        # closures also appear only through their type in locals (zero-capture closures are ZST consts)
        for l in self.locals:
            m = re.findall(r"\{closure@([^}]*)\}", l["ty"])
            # resolved below through parent relation instead (type text has file:line, not def path)
        return out

    # ---- definitions / data dependence --------------------------------------------------
    def defs(self):
        """local -> list of definition records:
           ('stmt', bb, idx, stmt) | ('call', bb, term) | ('arg', i) | ('mutref', bb, idx|None, via)"""
        if self._defs is not None:
            return self._defs
        d = defaultdict(list)
        for i in range(1, self.arg_count + 1):
            d[i].append(("arg", i))
        for i in range(self.n):
            blk = self.blocks[i]
            for j, s in enumerate(blk["stmts"]):
                if s["k"] in ("assign", "setdiscr"):
                    # a store through a pointer/reference local (`(*_5) = ..`) does not define the local itself
                    if s["lhs"].get("p") and s["lhs"]["p"][0] == "*":
                        continue
                    d[s["lhs"]["l"]].append(("stmt", i, j, s))
            t = blk["term"]
            if t["k"] == "call":
                d[t["dest"]["l"]].append(("call", i, t))
        self._defs = d
        return d

    def local_name(self, l):
        return self.locals[l].get("name")

    def local_ty(self, l):
        return self.locals[l]["ty"]

    def operand_locals(self, o):
        """Locals read by an operand / place (base local and index locals)."""
        out = []
        if o is None:
            return out
        if "pl" in o:
            o = o["pl"]
        if "l" in o:
            out.append(o["l"])
            for p in o.get("p", []):
                if isinstance(p, dict) and "idx" in p:
                    out.append(p["idx"])
        return out

    def rvalue_operands(self, rv):
        ops = []
        for key in ("op", "a", "b"):
            if isinstance(rv.get(key), dict):
                ops.append(rv[key])
        ops.extend(rv.get("ops", []))
        if "pl" in rv:
            ops.append({"k": "copy", "pl": rv["pl"]})
        return ops

    def slice_back(self, start_locals, through_calls=True, stop_at=None):
        """Flow-insensitive backward data slice. Returns (locals, def_records) that may influence
        the given locals. `stop_at(defrec)` -> True to not look through a definition."""
        defs = self.defs()
        seen = set()
        recs = []
        dq = deque(start_locals)
        while dq:
            l = dq.popleft()
            if l in seen:
                continue
            seen.add(l)
            for rec in defs.get(l, []):
                recs.append((l, rec))
                if stop_at and stop_at(rec):
                    continue
                if rec[0] == "stmt":
                    s = rec[3]
                    if s["k"] == "assign":
                        for o in self.rvalue_operands(s["rv"]):
                            for x in self.operand_locals(o):
                                dq.append(x)
                        # writes through a projection also depend on the index local
                        for x in self.operand_locals(s["lhs"])[1:]:
                            dq.append(x)
                elif rec[0] == "call" and through_calls:
                    t = rec[2]
                    for a in t["args"]:
                        for x in self.operand_locals(a):
                            dq.append(x)
        return seen, recs

    def slice_calls(self, start_locals, **kw):
        """Names (normalised) of callees whose results flow into the given locals."""
        _, recs = self.slice_back(start_locals, **kw)
        return {norm(callee_name(r[1][2])) for r in recs if r[1][0] == "call" and callee_name(r[1][2])}

    # ---- expression reconstruction ------------------------------------------------------
    def expr(self, o, depth=40, _seen=None, expand_named=False, at=None):
        """Reconstruct an expression tree for an operand (or place dict). Temporaries with a single
        definition are expanded; named user variables are kept as ('var', name, idx) unless expand_named.
        Result: nested tuples, hashable, comparable."""
        if _seen is None:
            _seen = frozenset()
        if o is None:
            return ("none",)
        if o.get("k") == "const":
            return self._const_expr(o)
        pl = o["pl"] if "pl" in o else o
        l = pl["l"]
        base = self._local_expr(l, depth, _seen, expand_named, at)
        for p in pl.get("p", []):
            if p == "*":
                base = ("deref", base)
            elif isinstance(p, dict) and "n" in p:
                if isinstance(base, tuple) and base and base[0] == "agg" and p["n"].isdigit() and int(p["n"]) < len(base[2]) and \
                        not str(base[1]).startswith("closure:") and (base[1] == "tuple" or "tuple" in p):
                    base = base[2][int(p["n"])]
                else:
                    base = ("field", base, p["n"])
            elif isinstance(p, dict) and "idx" in p:
                base = ("index", base, self._local_expr(p["idx"], depth - 1, _seen, expand_named, at))
            elif isinstance(p, dict) and "cidx" in p:
                base = ("index", base, ("const", p["cidx"]))
            elif isinstance(p, dict) and "variant" in p:
                base = ("as", base, p["variant"])
            else:
                base = ("proj", base, json.dumps(p, sort_keys=True))
        return simplify(base)

    def _const_expr(self, o):
        if "fn" in o:
            return ("fn", norm(o.get("res") or o["fn"]))
        if "closure" in o:
            return ("closure", o["closure"])
        if "int" in o:
            return ("const", o["int"])
        if "float" in o:
            return ("const", o["float"])
        if "str" in o:
            return ("const", o["str"])
        if o.get("ty") == "&str" and isinstance(o.get("tyconst"), str) and o["tyconst"].startswith('"'):
            return ("const", const_str(o))
        if "enum_variant" in o:
            # promoted `&Enum::Variant`
            return ("ref", ("agg", norm(o["enum_adt"]) + "::" + o["enum_variant"], ()))
        if "uneval" in o and "promoted" not in o:
            return ("constpath", norm(o["uneval"]))
        if "zst" in o:
            return ("const", "()" if o["ty"] == "()" else o["ty"])
        if "bytes" in o:
            return ("constbytes", o["ty"], o["bytes"][:64])
        return ("const?", o.get("ty"))

    def reaching_defs(self, l, at):
        """Definitions of local l that may reach the entry of / a use inside block `at` (flow-sensitive)."""
        ds = self.defs().get(l, [])
        if len(ds) <= 1:
            return ds
        # last definition per block
        byblk = {}
        for d in ds:
            if d[0] == "arg":
                byblk.setdefault(-1, []).append(d)
            else:
                byblk.setdefault(d[1], []).append(d)
        def_blocks = {b for b in byblk if b >= 0}
        out = []
        for b, lst in byblk.items():
            d = lst[-1]
            if b == -1:
                if at in self.reachable(0, removed_blocks=def_blocks) or at == 0:
                    out.append(d)
                continue
            if b == at:
                if d[0] == "stmt":
                    out.append(d)  # defined earlier in the same block (uses follow their defs in MIR temporaries)
                    return [d]
                continue
            start = [x for x in self.succ(b)] if d[0] == "stmt" else ([d[2]["target"]] if "target" in d[2] else [])
            others = def_blocks - {b}
            for s0 in start:
                if s0 == at or at in self.reachable(s0, removed_blocks=others - {at}):
                    # if `at` itself redefines l before the use we cannot tell: be conservative, keep d
                    out.append(d)
                    break
        return out

    def _local_expr(self, l, depth, seen, expand_named, at=None):
        name = self.local_name(l)
        if 1 <= l <= self.arg_count:
            return ("arg", l, name)
        if name is not None and (not expand_named or (callable(expand_named) and not expand_named(l))):
            return ("var", name, l)
        if depth <= 0:
            return ("tmp", l)
        ds = self.defs().get(l, [])
        if len(ds) != 1 and at is not None:
            ds = self.reaching_defs(l, at)
        if len(ds) != 1:
            return ("var", name, l) if name else ("tmp", l)
        rec = ds[0]
        key = (l, rec[1] if rec[0] in ("stmt", "call") else -1, rec[2] if rec[0] == "stmt" else None)
        if key in seen:
            return ("tmp", l)
        seen = seen | {key}
        nat = None
        if at is not None and rec[0] in ("stmt", "call"):
            nat = rec[1]
        if rec[0] == "call":
            t = rec[2]
            f = t["func"]
            if f.get("k") == "const" and ("fn" in f):
                fname = norm(f.get("res") or f["fn"])
            else:
                fname = ("indirect", self.expr(f, depth - 1, seen, expand_named, at=nat))
            return ("call", fname, tuple(self.expr(a, depth - 1, seen, expand_named, at=nat) for a in t["args"]))
        if rec[0] == "stmt":
            s = rec[3]
            if s["k"] != "assign" or s["lhs"].get("p"):
                return ("tmp", l)
            rv = s["rv"]
            k = rv["k"]
            if k == "use":
                return self.expr(rv["op"], depth - 1, seen, expand_named, at=nat)
            if k == "ref":
                return ("ref", self.expr(rv["pl"], depth - 1, seen, expand_named, at=nat))
            if k == "rawptr":
                return ("rawptr", self.expr(rv["pl"], depth - 1, seen, expand_named, at=nat))
            if k == "cast":
                return ("cast", self.expr(rv["op"], depth - 1, seen, expand_named, at=nat), rv["to"])
            if k == "binop":
                return ("binop", rv["op"], self.expr(rv["a"], depth - 1, seen, expand_named, at=nat),
                        self.expr(rv["b"], depth - 1, seen, expand_named, at=nat))
            if k == "unop":
                return ("unop", rv["op"], self.expr(rv["a"], depth - 1, seen, expand_named, at=nat))
            if k == "discr":
                return ("discr", self.expr(rv["pl"], depth - 1, seen, expand_named, at=nat))
            if k == "agg":
                tag = rv.get("adt") or rv.get("agg")
                if rv.get("agg") == "adt":
                    tag = norm(rv["adt"]) + "::" + rv["variant"]
                if rv.get("agg") == "closure":
                    tag = "closure:" + rv["closure"]
                return ("agg", tag, tuple(self.expr(x, depth - 1, seen, expand_named, at=nat) for x in rv["ops"]))
            if k == "repeat":
                return ("repeat", self.expr(rv["op"], depth - 1, seen, expand_named, at=nat), rv["n"])
            return ("rv", k)
        return ("tmp", l)

    # ---- field writes --------------------------------------------------------------------
    def field_writes(self):
        """Yield (bb, idx|None, adt, field, kind, place) for every direct write / mutable borrow of a
        field place: kind in {'assign','mutref','calldest','rawmut'}."""
        for i, j, s in self.stmts():
            if s["k"] in ("assign", "setdiscr"):
                for adt, fld in place_fields(s["lhs"]):
                    pass
                fs = place_fields(s["lhs"])
                if fs:
                    # a write to a.b.c writes field c of its adt, and (partially) b of a
                    for (adt, fld) in fs:
                        yield (i, j, adt, fld, "assign", s["lhs"])
                rv = s.get("rv")
                if rv and rv["k"] in ("ref", "rawptr") and rv.get("mut"):
                    for (adt, fld) in place_fields(rv["pl"]):
                        yield (i, j, adt, fld, "mutref" if rv["k"] == "ref" else "rawmut", rv["pl"])
        for i, t in self.calls():
            for (adt, fld) in place_fields(t["dest"]):
                yield (i, None, adt, fld, "calldest", t["dest"])

    def line_of(self, bb, idx=None):
        blk = self.blocks[bb]
        if idx is None:
            return blk["term"].get("line")
        return blk["stmts"][idx].get("line")


def place_fields(pl):
    """[(adt, field)] for every named ADT field projection in a place."""
    out = []
    for p in pl.get("p", []):
        if isinstance(p, dict) and "n" in p and "adt" in p:
            out.append((norm(p["adt"]), p["n"]))
    return out


def simplify(e):
    """Light normalisation: &*x == x for display/compare; deref(ref(x)) -> x."""
    if not isinstance(e, tuple) or not e:
        return e
    if e[0] == "deref" and isinstance(e[1], tuple) and e[1] and e[1][0] == "ref":
        return simplify(e[1][1])
    if e[0] == "ref" and isinstance(e[1], tuple) and e[1] and e[1][0] == "deref":
        return simplify(e[1][1])
    return tuple(simplify(x) if isinstance(x, tuple) else x for x in e)


def show(e):
    """Human-readable rendering of an expression tree."""
    if not isinstance(e, tuple):
        return str(e)
    k = e[0]
    if k == "arg":
        return e[2] or f"arg{e[1]}"
    if k == "var":
        return e[1] or f"_{e[2]}"
    if k == "tmp":
        return f"_{e[1]}"
    if k == "const":
        return repr(e[1]) if isinstance(e[1], str) else str(e[1])
    if k == "constpath":
        return short(e[1])
    if k == "fn":
        return short(e[1])
    if k == "closure":
        return "{closure}"
    if k == "field":
        return f"{show(e[1])}.{e[2]}"
    if k == "deref":
        return f"*{show(e[1])}"
    if k == "ref":
        return f"&{show(e[1])}"
    if k == "index":
        return f"{show(e[1])}[{show(e[2])}]"
    if k == "as":
        return f"({show(e[1])} as {e[2]})"
    if k == "call":
        fn = e[1] if isinstance(e[1], str) else show(e[1])
        return f"{short(fn) if isinstance(e[1], str) else fn}({', '.join(show(a) for a in e[2])})"
    if k == "binop":
        return f"({show(e[2])} {e[1]} {show(e[3])})"
    if k == "unop":
        return f"{e[1]}({show(e[2])})"
    if k == "cast":
        return f"({show(e[1])} as {e[2]})"
    if k == "agg":
        return f"{short(e[1]) if isinstance(e[1], str) else e[1]}{{{', '.join(show(a) for a in e[2])}}}"
    if k == "discr":
        return f"discr({show(e[1])})"
    return "(" + " ".join(show(x) for x in e) + ")"


def walk(e):
    """All sub-expressions (pre-order)."""
    if isinstance(e, tuple) and not e:
        return
    yield e
    if isinstance(e, tuple) and e:
        start = 0 if isinstance(e[0], tuple) else 1
        for x in e[start:]:
            if isinstance(x, tuple):
                yield from walk(x)


def find_calls(e, *suffixes):
    """All ('call', name, args) sub-expressions whose callee name ends with one of the suffixes."""
    out = []
    for x in walk(e):
        if isinstance(x, tuple) and x and x[0] == "call" and isinstance(x[1], str):
            for s in suffixes:
                if x[1] == s or x[1].endswith("::" + s) or x[1].endswith(s):
                    out.append(x)
                    break
    return out


def mentions_call(e, *suffixes):
    for x in walk(e):
        if isinstance(x, tuple) and x and x[0] == "call" and isinstance(x[1], str):
            for s in suffixes:
                if x[1] == s or x[1].endswith("::" + s):
                    return True
    return False


def mentions(e, pred):
    return any(pred(x) for x in walk(e))


def deep_strip(e):
    """Remove every ref/deref wrapper anywhere in the tree (compare values irrespective of borrow form)."""
    if not isinstance(e, tuple) or not e:
        return e
    if e[0] in ("ref", "deref") and len(e) == 2:
        return deep_strip(e[1])
    return tuple(deep_strip(x) if isinstance(x, tuple) else x for x in e)


def strip_refs(e):
    """Remove ref/deref/Copy-clone wrappers to compare values irrespective of borrow form."""
    while isinstance(e, tuple) and e and e[0] in ("ref", "deref"):
        e = e[1]
    if isinstance(e, tuple) and e and e[0] == "call" and isinstance(e[1], str) and (
            e[1].endswith("Clone>::clone") or e[1].endswith("::clone")) and len(e[2]) == 1:
        return strip_refs(e[2][0])
    return e


# -------------------------------------------------------------------------------------------
# Guard (branch-condition) extraction


def guard_conditions(body, site_bb, expand_named=True):
    """For every switch edge dominating `site_bb`, return (cond_expr, polarity, (bb, value)).
    cond_expr is the (expanded) expression of the switch discriminant with is_some / is_none /
    discriminant / Not wrappers peeled; polarity is True when the site lies on the side where the
    peeled expression is `true` / `Some` / the tested variant, False otherwise; for integer or
    multi-variant enum switches polarity is the matched value (or ('not', [values]) for otherwise)."""
    out = []
    for (a, v, s) in body.guards_of(site_bb):
        t = body.blocks[a]["term"]
        e = body.expr(t["discr"], expand_named=expand_named)
        dty = t["dty"]
        vals = [x[0] for x in t["targets"]]
        if dty == "bool":
            pol = (v == "otherwise") if vals == [0] else (v != 0 if v != "otherwise" else None)
            if vals == [0]:
                pol = (v == "otherwise")
            elif vals == [1]:
                pol = (v == 1)
            e, pol = peel_bool(e, pol)
            out.append((e, pol, (a, v)))
        else:
            # discriminant switch
            inner = e[1] if isinstance(e, tuple) and e[0] == "discr" else e
            if v == "otherwise":
                pol = ("not", tuple(vals))
            else:
                pol = v
            out.append((("discr", inner) if isinstance(e, tuple) and e[0] == "discr" else e, pol, (a, v)))
    return out


def switch_edge_conds(body, a, expand_named=True):
    """For the SwitchInt ending block a: [(target, cond_expr, polarity, value)] with the same normalisation
    as guard_conditions (one entry per outgoing edge)."""
    t = body.blocks[a]["term"]
    if t["k"] != "switch":
        return []
    e0 = body.expr(t["discr"], expand_named=expand_named)
    vals = [x[0] for x in t["targets"]]
    out = []
    for v, s in [(x[0], x[1]) for x in t["targets"]] + [("otherwise", t["otherwise"])]:
        if t["dty"] == "bool":
            if vals == [0]:
                pol = (v == "otherwise")
            elif vals == [1]:
                pol = (v == 1)
            else:
                pol = (v != 0) if v != "otherwise" else None
            e, pol = peel_bool(e0, pol)
            out.append((s, e, pol, v))
        else:
            pol = ("not", tuple(vals)) if v == "otherwise" else v
            out.append((s, e0, pol, v))
    return out


def peel_bool(e, pol):
    """Peel Not / is_some / is_none / is_empty-style wrappers, adjusting polarity where the wrapper negates."""
    changed = True
    while changed and isinstance(e, tuple):
        changed = False
        if e[0] == "unop" and e[1] == "Not":
            e, pol, changed = e[2], (not pol if pol is not None else None), True
        elif e[0] == "call" and isinstance(e[1], str) and e[1].endswith("Option::is_none") and len(e[2]) == 1:
            e, pol, changed = ("is_some", strip_refs(e[2][0])), (not pol if pol is not None else None), True
        elif e[0] == "call" and isinstance(e[1], str) and e[1].endswith("Option::is_some") and len(e[2]) == 1:
            e, changed = ("is_some", strip_refs(e[2][0])), False
    return e, pol


def option_guard(e, pol):
    """Normalise Option tests: returns (inner_expr, is_some_polarity) or None."""
    if isinstance(e, tuple) and e[0] == "is_some":
        return e[1], pol
    if isinstance(e, tuple) and e[0] == "discr":
        if pol == 1:
            return strip_refs(e[1]), True
        if pol == 0 or pol == ("not", (1,)):
            return strip_refs(e[1]), False
    return None


# -------------------------------------------------------------------------------------------
# statics


def static_accesses(body):
    """[(static_path, 'read'|'write'|'addr', bb, idx|None)] — accesses of statics through the pointer
    constants MIR uses for them. A local initialised from a static pointer constant is tracked; a store
    through it (lhs place based on deref of that local) is a write, a load a read; passing the pointer
    or a reference derived from it to a call is 'addr' (mutable if the derived reference is &mut)."""
    ptr_locals = {}
    for bb, j, s in body.stmts(live_only=False):
        if s["k"] == "assign" and s["rv"]["k"] == "use":
            o = s["rv"]["op"]
            if o.get("k") == "const" and "static" in o and not s["lhs"].get("p"):
                ptr_locals[s["lhs"]["l"]] = (norm(o["static"]), "*mut" in o["ty"])
    # propagate through simple copies / casts
    changed = True
    while changed:
        changed = False
        for bb, j, s in body.stmts(live_only=False):
            if s["k"] == "assign" and not s["lhs"].get("p") and s["lhs"]["l"] not in ptr_locals:
                rv = s["rv"]
                src = None
                if rv["k"] in ("use", "cast") and "pl" in rv["op"] and not rv["op"]["pl"].get("p"):
                    src = rv["op"]["pl"]["l"]
                if src in ptr_locals and rv["ty"].startswith("*"):
                    ptr_locals[s["lhs"]["l"]] = ptr_locals[src]
                    changed = True
    out = []
    for bb, j, s in body.stmts():
        if s["k"] != "assign":
            continue
        lhs = s["lhs"]
        if lhs["l"] in ptr_locals and lhs.get("p") and lhs["p"][0] == "*":
            out.append((ptr_locals[lhs["l"]][0], "write", bb, j))
        rv = s["rv"]
        for o in body.rvalue_operands(rv):
            if "pl" in o and o["pl"]["l"] in ptr_locals and o["pl"].get("p") and o["pl"]["p"][0] == "*":
                if rv["k"] in ("ref", "rawptr"):
                    out.append((ptr_locals[o["pl"]["l"]][0], "mutaddr" if rv.get("mut") else "addr", bb, j))
                else:
                    out.append((ptr_locals[o["pl"]["l"]][0], "read", bb, j))
    for bb, t in body.calls():
        for a in t["args"]:
            if "pl" in a and a["pl"]["l"] in ptr_locals and not a["pl"].get("p"):
                out.append((ptr_locals[a["pl"]["l"]][0], "mutaddr" if ptr_locals[a["pl"]["l"]][1] else "addr", bb, None))
    return out


def cmp_op(e):
    """Recognise a comparison: returns (op, a, b) with op in Eq/Ne/Lt/Le/Gt/Ge for MIR binops and for
    calls of PartialEq::{eq,ne} / PartialOrd::{lt,le,gt,ge} in either `<T as Trait>::m` or `Trait::m` form."""
    if isinstance(e, tuple) and e and e[0] == "binop" and e[1] in ("Eq", "Ne", "Lt", "Le", "Gt", "Ge"):
        return e[1], e[2], e[3]
    if isinstance(e, tuple) and e and e[0] == "call" and isinstance(e[1], str) and len(e[2]) == 2:
        m = re.search(r"(PartialEq|PartialOrd)(<[^>]*>)?>?::(eq|ne|lt|le|gt|ge)$", e[1])
        if m:
            return m.group(3).capitalize(), e[2][0], e[2][1]
    return None


def const_str(o):
    """String value of a &str constant operand (either an evaluated slice or a type-level valtree literal)."""
    if "str" in o:
        return o["str"]
    tc = o.get("tyconst")
    if o.get("ty") == "&str" and isinstance(tc, str) and len(tc) >= 2 and tc[0] == '"' and tc[-1] == '"':
        body = tc[1:-1]
        return body.replace('\\"', '"').replace("\\n", "\n").replace("\\t", "\t").replace("\\\\", "\\")
    return None


# -------------------------------------------------------------------------------------------
# decision tables and symbolic inlining


def decision_paths(body, max_paths=4000, start=0, stop=None, trace=False, track_op_assign=False):
    """Path-sensitive symbolic walk: enumerate acyclic paths entry -> return, executing assignments symbolically.
    Each result: (conds, ret_expr, last_bb) where conds is a list of (discr_expr, value) for every SwitchInt taken
    (value = matched int or ('otherwise', (v1, v2, ..))) and ret_expr the value of _0 on that path. Paths ending in
    a diverging block (panic / unreachable) are returned with ret_expr None."""
    out = []

    def read_place(env, pl):
        l = pl["l"]
        base = env.get(l)
        if base is None:
            base = body._local_expr(l, 0, frozenset(), False) if (1 <= l <= body.arg_count or body.local_name(l)) else ("tmp", l)
        for p in pl.get("p", []):
            if p == "*":
                base = base[1] if isinstance(base, tuple) and base and base[0] == "ref" else ("deref", base)
            elif isinstance(p, dict) and "n" in p:
                if isinstance(base, tuple) and base and base[0] == "agg" and p["n"].isdigit() and int(p["n"]) < len(base[2]) and not str(base[1]).startswith("closure:"):
                    base = base[2][int(p["n"])]
                elif isinstance(base, tuple) and base and base[0] == "as" and isinstance(base[1], tuple) and base[1] and base[1][0] == "agg" and \
                        str(base[1][1]).endswith("::" + base[2]) and p["n"].isdigit() and int(p["n"]) < len(base[1][2]):
                    base = base[1][2][int(p["n"])]
                else:
                    base = ("field", base, p["n"])
            elif isinstance(p, dict) and "idx" in p:
                base = ("index", base, env.get(p["idx"], ("tmp", p["idx"])))
            elif isinstance(p, dict) and "cidx" in p:
                base = ("index", base, ("const", p["cidx"]))
            elif isinstance(p, dict) and "variant" in p:
                base = ("as", base, p["variant"])
        return simplify(base)

    def operand(env, o):
        if o.get("k") == "const":
            return body._const_expr(o)
        return read_place(env, o["pl"])

    def rvalue(env, rv):
        k = rv["k"]
        if k == "use":
            return operand(env, rv["op"])
        if k in ("ref", "rawptr"):
            return ("ref", read_place(env, rv["pl"]))
        if k == "cast":
            return ("cast", operand(env, rv["op"]), rv["to"])
        if k == "binop":
            return ("binop", rv["op"], operand(env, rv["a"]), operand(env, rv["b"]))
        if k == "unop":
            return ("unop", rv["op"], operand(env, rv["a"]))
        if k == "discr":
            v = read_place(env, rv["pl"])
            return ("discr", v)
        if k == "agg":
            tag = rv.get("agg")
            if tag == "adt":
                tag = norm(rv["adt"]) + "::" + rv["variant"]
            elif tag == "closure":
                tag = "closure:" + rv["closure"]
            return ("agg", tag, tuple(operand(env, x) for x in rv["ops"]))
        return ("rv", k)

    def rec(bb, conds, seen, env, trail=()):
        if len(out) >= max_paths:
            return
        env = dict(env)
        trail = trail + (bb,) if trace else trail
        for s in body.blocks[bb]["stmts"]:
            if s["k"] == "assign":
                if track_op_assign and not s["lhs"].get("p") and s["rv"]["k"] == "ref" and s["rv"].get("mut"):
                    # remember which plain local a `&mut` temporary points to (directly or through a reborrow)
                    refs = dict(env.get(-1, {}))
                    src = s["rv"]["pl"]
                    if not src.get("p"):
                        refs[s["lhs"]["l"]] = src["l"]
                    elif src["p"] == ["*"] and src["l"] in refs:
                        refs[s["lhs"]["l"]] = refs[src["l"]]
                    env[-1] = refs
                if not s["lhs"].get("p"):
                    env[s["lhs"]["l"]] = rvalue(env, s["rv"])
                elif len(s["lhs"]["p"]) == 1 and isinstance(s["lhs"]["p"][0], dict) and s["lhs"]["p"][0].get("n", "").isdigit():
                    # field-wise initialisation of a tuple / struct temp
                    cur = env.get(s["lhs"]["l"])
                    idx = int(s["lhs"]["p"][0]["n"])
                    comps = list(cur[2]) if isinstance(cur, tuple) and cur and cur[0] == "agg" else []
                    while len(comps) <= idx:
                        comps.append(("tmp", -1))
                    comps[idx] = rvalue(env, s["rv"])
                    env[s["lhs"]["l"]] = ("agg", "tuple", tuple(comps))
        t = body.blocks[bb]["term"]
        k = t["k"]
        if stop is not None and bb in stop:
            # region mode: the path ends here; the symbolic environment (after this block's statements) is returned, together
            # with an evaluator for operands in that environment
            out.append((list(conds), (env, lambda o, env=env: operand(env, o)), bb))
            return
        if k == "return":
            if stop is None:
                out.append((list(conds), env.get(0, ("tmp", 0)), trail if trace else bb))
            return
        if k == "call":
            f = t["func"]
            fname = norm(f.get("res") or f.get("fn")) if f.get("k") == "const" and "fn" in f else ("indirect", operand(env, f))
            if not t["dest"].get("p"):
                env[t["dest"]["l"]] = ("call", fname, tuple(operand(env, a) for a in t["args"]))
            if track_op_assign and isinstance(fname, str) and len(t["args"]) == 2 and "pl" in t["args"][0] and not t["args"][0]["pl"].get("p"):
                # `x |= y` on a newtype: BitOrAssign::bitor_assign(&mut x, y) updates the local the reference points to
                opn = {"BitOrAssign>::bitor_assign": "BitOr", "BitAndAssign>::bitand_assign": "BitAnd", "BitXorAssign>::bitxor_assign": "BitXor"}
                hit = [v for k2, v in opn.items() if fname.endswith(k2)]
                tgt = env.get(-1, {}).get(t["args"][0]["pl"]["l"])
                if hit and tgt is not None:
                    env[tgt] = ("binop", hit[0], read_place(env, {"l": tgt, "p": []}), operand(env, t["args"][1]))
        if k == "switch":
            e = operand(env, t["discr"])
            vals = tuple(x[0] for x in t["targets"])
            if isinstance(e, tuple) and len(e) == 2 and e[0] == "const" and isinstance(e[1], (int, bool)):
                # the discriminant is a constant on this path (e.g. `x = false` on one arm of `a && b`): only one successor is feasible
                tgs = [tg for v, tg in t["targets"] if v == int(e[1])]
                tg = tgs[0] if tgs else t["otherwise"]
                if tg not in seen:
                    rec(tg, conds, seen | {tg}, env, trail)
                return
            for v, tg in t["targets"]:
                if tg not in seen:
                    rec(tg, conds + [(e, v)], seen | {tg}, env, trail)
            tg = t["otherwise"]
            if tg not in seen and body.blocks[tg]["term"]["k"] != "unreachable":
                rec(tg, conds + [(e, ("otherwise", vals))], seen | {tg}, env, trail)
            return
        nx = body.succ(bb)
        if not nx:
            if stop is None:
                out.append((list(conds), None, bb))
            return
        for sx in nx:
            if sx not in seen:
                rec(sx, conds, seen | {sx}, env, trail)

    rec(start, [], {start}, {})
    return out


def inline_expr(fx, e, depth=6):
    """Symbolically inline calls to small in-crate functions and named constants so that values such as
    `Piece::WHITE_ROOK` or `Square::from_file_and_rank(File::A, Rank::R1)` become aggregates of enum constants."""
    if depth <= 0 or not isinstance(e, tuple) or not e:
        return e
    if e[0] == "constpath":
        b = fx.body(e[1])
        if b is not None and (b.kind.startswith("AssocConst") or b.kind.startswith("Const")):
            rets = [p for p in decision_paths(b, 4) if p[1] is not None]
            if len(rets) == 1:
                return inline_expr(fx, rets[0][1], depth - 1)
        return e
    if e[0] == "call" and isinstance(e[1], str):
        args = tuple(inline_expr(fx, a, depth - 1) for a in e[2])
        b = fx.body(e[1])
        if b is not None and b.kind in ("Fn", "AssocFn") and b.n <= 6:
            rets = [p for p in decision_paths(b, 4) if p[1] is not None]
            if len(rets) == 1 and not rets[0][0]:
                sub = substitute_args(rets[0][1], args)
                return inline_expr(fx, sub, depth - 1)
        return ("call", e[1], args)
    return tuple(inline_expr(fx, x, depth) if isinstance(x, tuple) else x for x in e)


def substitute_args(e, args):
    if not isinstance(e, tuple) or not e:
        return e
    if e[0] == "arg" and 1 <= e[1] <= len(args):
        return args[e[1] - 1]
    return tuple(substitute_args(x, args) if isinstance(x, tuple) else x for x in e)


def closure_captures(fx, cb):
    """expressions (in the parent's terms) of the values a closure body captures, in capture order; None if not found"""
    parent = fx.bodies.get(cb.parent) if cb is not None and cb.kind == "Closure" else None
    if parent is None:
        return None, None
    for bb, j, st in parent.stmts():
        rv = st.get("rv")
        if rv and rv["k"] == "agg" and rv.get("agg") == "closure" and rv.get("closure") == cb.name:
            return parent, [parent.expr(o, expand_named=True, at=bb) for o in rv["ops"]]
    return parent, None


def resolve_captures(fx, cb, e):
    """rewrite `(closure env).k` inside expression e (of closure body cb) by the captured value's expression in the parent"""
    parent, caps = closure_captures(fx, cb)
    if caps is None:
        return e

    def rec(x):
        if not isinstance(x, tuple) or not x:
            return x
        if x[0] == "field" and isinstance(x[1], tuple) and x[1][:2] == ("arg", 1) and str(x[2]).isdigit() and int(x[2]) < len(caps):
            return caps[int(x[2])]
        if x[0] == "field" and isinstance(x[1], tuple) and x[1] and x[1][0] == "deref" and isinstance(x[1][1], tuple) and x[1][1][:2] == ("arg", 1) and str(x[2]).isdigit() and int(x[2]) < len(caps):
            return caps[int(x[2])]
        return tuple(rec(y) if isinstance(y, tuple) else y for y in x)
    return rec(e)


def enum_name(e):
    """'Variant' if e is a fieldless enum constant aggregate"""
    e = deep_strip(e)
    if isinstance(e, tuple) and e and e[0] == "agg" and isinstance(e[1], str) and not e[2]:
        return e[1].split("::")[-1]
    return None
