"""C12 — same state, same search; ucinewgame means a fresh engine: structural clauses C12-EFFECT, C12-RESET,
C12-PERSEARCH, C12-STATICS, C12-SEED (DESIGN.md §3)."""
from collections import deque

from facts import (norm, show, walk, strip_refs, deep_strip, is_call_to, callee_name, find_calls, guard_conditions,
                   static_accesses, decision_paths)
import pC05
import shared_mutants

EXPLANATION = (
    "Decides purity and reset clauses of C12, not the equality of two actual runs: (EFFECT) in the call-graph cone of "
    "search::search the only nondeterminism sources are clock reads inside TimeStrategy and the stop flag; inside the "
    "two polling functions every clock read lies in the Clocks / ExactTime arm (the Infinite arm returns a constant), "
    "and every other clock read flows only into the reported statistics; (RESET) every field of every type held by "
    "PersistentState that the search cone can write is also written by PersistentState::reset, and ucinewgame calls "
    "that reset and installs a fresh Game; (PERSEARCH) killer and counter-move tables and the counters are built anew "
    "in SearchContext::new for every search; (STATICS) every `static mut` is written only in the cone of crate::init, "
    "which main runs before anything else; (SEED) key generation uses a constant seed."
)

NONDET = ("Instant::now", "Instant::elapsed", "SystemTime::now", "SystemTime::elapsed", "thread_rng", "rand::random", "from_entropy",
          "OsRng", "RandomState::new", "env::var", "env::args", "thread::spawn", "thread::current", "process::id", "Atomic::load",
          "AtomicBool::load", "available_parallelism", "duration_since")


def run(fx, rep, tier):
    search = fx.one("engine::search::search")
    cone = fx.cone([search.name])
    rep.analysed["search_cone_bodies"] = len(cone)
    rule_effect(fx, rep, search, cone)
    rule_reset(fx, rep, search, cone)
    rule_persearch(fx, rep, search)
    rule_statics(fx, rep, search, cone)
    rule_seed(fx, rep)


def matches(cn, pats):
    return any(cn.endswith(p) or ("::" + p) in cn for p in pats)


def rule_effect(fx, rep, search, cone):
    ok = True
    n = 0

    def bad(key, msg, b, line=None):
        nonlocal ok
        ok = False
        rep.violation("C12-EFFECT", f"C12-EFFECT/{key}", msg, {"fn": b.name, "file": b.file, "line": line or b.line})

    sources = []
    for nm in sorted(cone):
        b = fx.bodies[nm]
        for bb, t in b.calls():
            cn = norm(callee_name(t) or "")
            if matches(cn, NONDET):
                sources.append((b, bb, t, cn))
        for l in b.locals:
            if "HashMap<" in l["ty"] or "HashSet<" in l["ty"] or "RandomState" in l["ty"]:
                sources.append((b, 0, {"line": b.line}, "hash-ordered container " + l["ty"][:60]))
                break
        for bb, j, s in b.stmts():
            rv = s.get("rv")
            if rv and rv["k"] == "cast" and "Expose" in rv.get("cast", ""):
                sources.append((b, bb, {"line": s.get("line")}, "pointer-to-integer cast"))
    allowed_in = {"TimeStrategy::elapsed": ("Instant::elapsed",), "TimeStrategy::is_force_stopped": ("Atomic::load", "AtomicBool::load")}
    for (b, bb, t, cn) in sources:
        n += 1
        good = any(norm(b.name).endswith(k) and matches(cn, v) for k, v in allowed_in.items())
        rep.obligation(good)
        rep.sample({"rule": "C12-EFFECT", "source": cn, "in": b.name, "allowed": good})
        if not good:
            bad(f"source/{norm(b.name)}/{cn.split('::')[-1]}", f"`{b.name}` (reachable from search::search) uses a nondeterminism source `{cn}`", b, t.get("line"))
    # (ii) polling functions: clock reads only in the Clocks / ExactTime arms
    variants = {v["discr"]: v["name"] for v in fx.adt("search::TimeControl")["variants"]}
    free = {v["name"] for v in fx.adt("search::TimeControl")["variants"] if not v["fields"]}
    poll_closures = set()
    for fn in ("TimeStrategy::should_stop", "TimeStrategy::should_start_new_search"):
        b = fx.one(fn)
        # path by path: an answer that depends on the clock (in its value or in a test on the way) is given only where the
        # time control carries a limit: under a finite variant of TimeControl, or under `Some` of an Option-typed limit
        # that TimeStrategy::new leaves None without a limit (also as the receiver of is_some_and / is_none_or / map_or)
        paths = decision_paths(b, max_paths=400)
        if not paths:
            rep.notes.append(f"C12-EFFECT: paths of `{fn}` not enumerable; poll clause not decided")
            continue

        def clocked(e):
            if find_calls(e, "TimeStrategy::elapsed", "Instant::elapsed", "Instant::now"):
                return "direct"
            for x in walk(e):
                if isinstance(x, tuple) and x and x[0] == "agg" and str(x[1]).startswith("closure:"):
                    cb = fx.bodies.get(str(x[1])[len("closure:"):])
                    if cb is not None and (cb.calls_to("TimeStrategy::elapsed") or cb.calls_to("Instant::elapsed")):
                        poll_closures.add(cb.name)
                        return "closure"
            return None

        def helper_none_without_limit(x):
            # an Option returned by a helper of the strategy that answers None for every time control without a limit
            r0 = deep_strip(x)
            hb = fx.body(r0[1]) if isinstance(r0, tuple) and r0 and r0[0] == "call" and isinstance(r0[1], str) and "TimeStrategy::" in r0[1] else None
            if hb is None:
                return False
            for hconds, hret, _hb in decision_paths(hb, 32):
                hr = deep_strip(hret) if hret is not None else None
                if hr is None or (isinstance(hr, tuple) and hr[0] == "agg" and str(hr[1]).endswith("Option::None")):
                    continue
                hsel = None
                for hc, hv in hconds:
                    hd = deep_strip(hc)
                    if isinstance(hd, tuple) and hd and hd[0] == "discr" and pC05._self_field(hd[1]) == "time_control":
                        hsel = pC05._selected(variants, hv)
                if hsel is None or None in hsel or (hsel & free):
                    return False
            return True

        def option_receiver_ok(e):
            # every closure that reads the clock is handed to an Option combinator on a limit field that is None without a limit
            for c in [x for x in walk(e) if isinstance(x, tuple) and x and x[0] == "call" and isinstance(x[1], str)]:
                if any(clocked(a) == "closure" for a in c[2][1:]) :
                    if not (c[1].split("::")[-1] in ("is_some_and", "is_none_or", "map_or", "map", "and_then", "filter", "is_some_and") and "Option" in c[1]):
                        return False
                    f = pC05._self_field(c[2][0])
                    if f and pC05.none_without_limit(fx, f):
                        continue
                    # ... or on the Option returned by a helper of the strategy that answers None for every control without a limit
                    if not helper_none_without_limit(c[2][0]):
                        return False
            return True

        for conds, ret, _bb in paths:
            if ret is None:
                continue
            where = [clocked(ret)] + [clocked(c) for c, v in conds]
            if not any(where):
                continue
            n += 1
            sel = None
            some_ok = False
            for c, v in conds:
                d = deep_strip(c)
                if isinstance(d, tuple) and d and d[0] == "discr":
                    f = pC05._self_field(d[1])
                    if f == "time_control":
                        sel = pC05._selected(variants, v)
                    elif f and v == 1 and pC05.none_without_limit(fx, f):
                        some_ok = True
                    elif not f and v == 1 and helper_none_without_limit(d[1]):
                        some_ok = True
            good = (sel is not None and None not in sel and not (sel & free)) or some_ok
            if not good and "direct" not in where:
                good = all(option_receiver_ok(e) for e in [ret] + [c for c, v in conds] if clocked(e))
            rep.obligation(good)
            if not good:
                bad(f"poll/{fn}", f"`{fn}` lets the clock decide an answer that is not confined to time controls with a limit (selected: {sorted(sel) if sel else 'any'}): a depth-limited search then depends on wall-clock time", b, b.line)
    # (iii) every other clock read flows only into reported statistics
    elapsed = fx.one("TimeStrategy::elapsed")
    for (b, bb, t) in fx.callers_of(lambda nm: fx.body(nm) is not None and fx.body(nm).name == elapsed.name):
        if norm(b.name).endswith("TimeStrategy::should_stop") or norm(b.name).endswith("TimeStrategy::should_start_new_search") or b.name in poll_closures:
            continue
        if b.name not in cone:
            continue
        n += 1
        sinks = forward_sinks(fx, b, t["dest"]["l"])
        if "return-value" in sinks and (b.local_ty(0).endswith("search::SearchStats") or b.local_ty(0).endswith("search::SearchInfo")):
            # a helper that only builds the statistics record: follow the record into its callers
            sinks = [x for x in sinks if x != "return-value"]
            for (cb2, cbb2, ct2) in fx.callers_of(lambda nm, b=b: fx.body(nm) is not None and fx.body(nm).name == b.name):
                sinks += forward_sinks(fx, cb2, ct2["dest"]["l"])
        badsinks = [s for s in sinks if not (s.startswith("report:") or s.startswith("stats:"))]
        good = not badsinks
        rep.obligation(good)
        rep.sample({"rule": "C12-EFFECT", "clock_read_in": b.name, "line": t.get("line"), "flows_to": sorted(set(sinks))})
        if not good:
            bad(f"flow/{norm(b.name)}", f"a clock read in `{b.name}` flows into {sorted(set(badsinks))[:4]}, not only into the reported statistics", b, t.get("line"))
    rep.rule("C12-EFFECT", n, 6, ok, "nondeterminism sources in the search cone, poll arms, clock-read sinks")
    # ... and a search is only "depth-limited" in that sense if the go handler gives it no time limit: for every combination of
    # go arguments without wtime / btime / movetime the selected time control is the payload-free one (C14-SELECT's path
    # enumeration, with that expectation; seed C12-7b: a 5 s default limit for every go that is not `infinite`)
    import pC14
    pC14.rule_select(fx, rep, rid="C12-SELECT", untimed=True)


def forward_sinks(fx, b, start):
    """Where does the value of local `start` flow? Returns sink descriptors."""
    derived = {start}
    sinks = []
    changed = True
    while changed:
        changed = False
        for bb, j, s in b.stmts():
            if s["k"] != "assign":
                continue
            rv = s["rv"]
            used = [x for o in b.rvalue_operands(rv) for x in b.operand_locals(o)]
            if not any(u in derived for u in used):
                continue
            lhs = s["lhs"]["l"]
            if rv["k"] == "agg" and rv.get("agg") == "adt":
                adt = norm(rv["adt"])
                if adt.endswith("SearchStats"):
                    for fname, op in zip(rv["fields"], rv["ops"]):
                        if any(x in derived for x in b.operand_locals(op)) and fname not in ("time", "nodes_per_second"):
                            sinks.append(f"field:SearchStats.{fname}")
                    sinks.append("stats:SearchStats")
                elif adt.endswith("SearchInfo"):
                    for fname, op in zip(rv["fields"], rv["ops"]):
                        if any(x in derived for x in b.operand_locals(op)) and fname != "stats":
                            sinks.append(f"field:SearchInfo.{fname}")
                else:
                    sinks.append(f"aggregate:{adt}")
            if lhs not in derived:
                if s["lhs"].get("p") and s["lhs"]["p"][0] == "*":
                    sinks.append("store-through-pointer")
                derived.add(lhs)
                changed = True
        for bb, t in b.calls():
            if not any(x in derived for a in t["args"] for x in b.operand_locals(a)):
                continue
            cn = norm(callee_name(t) or "?")
            if cn.endswith("metrics::nodes_per_second"):
                if t["dest"]["l"] not in derived:
                    derived.add(t["dest"]["l"])
                    changed = True
            elif cn.endswith("report_search_progress"):
                sinks.append("report:" + cn.split("::")[-1])
            else:
                sinks.append("call:" + cn)
                if t["dest"]["l"] not in derived:
                    derived.add(t["dest"]["l"])
                    changed = True
    for i in sorted(b.live_blocks()):
        t = b.blocks[i]["term"]
        if t["k"] == "switch" and any(x in derived for x in b.operand_locals(t["discr"])):
            sinks.append("branch")
    if 0 in derived:
        sinks.append("return-value")
    return sinks


def rule_reset(fx, rep, search, cone):
    ok = True
    n = 0
    ps = fx.adt("search::PersistentState")
    held = {}
    for f in ps["variants"][0]["fields"]:
        ty = f["ty"]
        # resolve type aliases by matching known ADTs
        for k in fx.adts:
            if norm(k) == norm(ty).split("<")[0]:
                held[norm(k)] = f["name"]
    rep.sample({"rule": "C12-RESET", "persistent_types": held})
    reset = fx.one("PersistentState::reset")
    rcone = fx.cone([reset.name])

    def writes(names):
        out = {}
        for nm in names:
            b = fx.bodies[nm]
            for (bb, idx, adt, fld, kind, place) in b.field_writes():
                if adt in held:
                    out.setdefault((adt, fld), set()).add(nm)
        return out
    ws, wr = writes(cone), writes(rcone)

    def unconditional_in_reset(adt, fld):
        """some write of adt.fld in the reset cone lies on every path of its function, or only under loop-iteration guards"""
        for nm in rcone:
            b = fx.bodies[nm]
            for (bb, idx, a, f, kind, place) in b.field_writes():
                if a != adt or f != fld:
                    continue
                if b.must_pass(0, [bb], b.return_blocks()):
                    return True
                conds = guard_conditions(b, bb, expand_named=True)
                if conds and all(find_calls(e, "Iterator>::next", "range::next", "::next") for (e, pol, w) in conds):
                    return True
        return False
    for (adt, fld), who in sorted(ws.items()):
        if adt.endswith("Tablebase"):
            continue
        n += 1
        good = (adt, fld) in wr
        why = "never writes it"
        if good and not unconditional_in_reset(adt, fld):
            good, why = False, "writes it only under a condition (not on every path)"
        rep.obligation(good)
        rep.sample({"rule": "C12-RESET", "field": f"{adt.split('::')[-1]}.{fld}", "written_in_search_by": sorted(norm(x).split("::")[-1] for x in who)[:4], "reset": good})
        if not good:
            ok = False
            wb = fx.bodies[sorted(who)[0]]
            rep.violation("C12-RESET", f"C12-RESET/{adt}/{fld}",
                          f"the search can write {adt.split('::')[-1]}.{fld} (in {sorted(norm(x) for x in who)[:3]}) but PersistentState::reset {why}: state survives ucinewgame",
                          {"fn": wb.name, "file": wb.file, "line": wb.line})
    # PersistentState's own fields: each non-tablebase field must have its reset called
    for adt, fname in sorted(held.items()):
        if adt.endswith("Tablebase"):
            continue
        n += 1
        good = False
        for bb, t in reset.calls():
            cb = fx.body(callee_name(t)) if callee_name(t) else None
            if cb is not None and t["args"]:
                e = deep_strip(reset.expr(t["args"][0], expand_named=True))
                if isinstance(e, tuple) and e[0] == "field" and e[2] == fname and e[1] == ("arg", 1, "self"):
                    good = reset.must_pass(0, [bb], reset.return_blocks())
        rep.obligation(good)
        if not good:
            ok = False
            rep.violation("C12-RESET", f"C12-RESET/field/{fname}", f"PersistentState::reset does not reset its `{fname}` ({adt.split('::')[-1]}) on every path", {"fn": reset.name, "file": reset.file, "line": reset.line})
    # ucinewgame: reset of the shared state + fresh game
    ex = fx.one("uci::Uci::execute")
    arms = pC05.arm_regions(fx, ex)
    entry, region = arms["UciNewGame"]
    n += 1
    called = [bb for bb in region if ex.blocks[bb]["term"]["k"] == "call" and norm(callee_name(ex.blocks[bb]["term"]) or "").endswith("PersistentState::reset")]
    exits = [x for bb in region for x in ex.succ(bb) if x not in region]
    good = bool(called) and ex.must_pass(entry, called, exits)
    rep.obligation(good)
    if not good:
        ok = False
        rep.violation("C12-RESET", "C12-RESET/ucinewgame/reset", "the ucinewgame arm does not call PersistentState::reset on every path", {"fn": ex.name, "file": ex.file, "line": ex.line})
    n += 1
    newgame = []
    for bb in region:
        for j, s in enumerate(ex.blocks[bb]["stmts"]):
            if s["k"] == "assign" and s["lhs"]["l"] == 1 and [p.get("n") for p in s["lhs"].get("p", []) if isinstance(p, dict)] == ["game"]:
                e = ex.expr(s["rv"].get("op"), expand_named=True, at=bb) if s["rv"]["k"] == "use" else None
                if e and find_calls(e, "Game::new"):
                    newgame.append(bb)
    good = bool(newgame) and ex.must_pass(entry, newgame, exits)
    rep.obligation(good)
    if not good:
        ok = False
        rep.violation("C12-RESET", "C12-RESET/ucinewgame/game", "the ucinewgame arm does not install a fresh Game::new()", {"fn": ex.name, "file": ex.file, "line": ex.line})
    # the table's slots are not a field write the rule above can see slot by slot: that reset() empties *every* slot (and
    # zeroes its counters) is decided by C19-CLEAR and re-reported here as part of "ucinewgame means a fresh engine"
    import core
    import pC19
    sub = type(rep)(rep.prop, rep.tier)
    q = core.QUIET
    core.QUIET = True
    try:
        pC19.rule_clear(fx, sub)
    finally:
        core.QUIET = q
    for v in sub.violations:
        if v["key"].startswith("C19-CLEAR/reset"):
            ok = False
            rep.violation("C12-RESET", v["key"].replace("C19-CLEAR/reset", "C12-RESET/tt"), v["msg"] + ": entries of the previous game survive ucinewgame", v["site"])
        elif "size-field" in v["key"]:
            ok = False
            rep.violation("C12-RESET", v["key"].replace("C19-CLEAR/", "C12-RESET/tt/"), v["msg"] + ": the engine then searches with a table of another size than a fresh engine with the same options, and ucinewgame cannot repair it", v["site"])
    n += 3
    rep.obligation(ok, 3)
    # "a fresh engine with the same options": the engine's own state is built with the configured hash size, not with a
    # placeholder that some later command replaces (seed C12-7a: a zero-slot table until the first `isready`)
    for (cb3, cbb3, ct3) in fx.callers_of(lambda nm: nm.endswith("PersistentState::new")):
        if "::tests::" in cb3.name or not norm(cb3.name).startswith("engine::uci::") or norm(cb3.name).startswith("engine::uci::bench"):
            continue
        n += 1
        e3 = cb3.expr(ct3["args"][0], expand_named=True, at=cbb3)
        good = any(isinstance(x, tuple) and len(x) == 3 and x[0] == "field" and x[2] == "hash_size" for x in walk(e3))
        rep.obligation(good)
        if not good:
            ok = False
            rep.violation("C12-RESET", "C12-RESET/initial-size", f"`{cb3.name}` builds the engine's persistent state with `{show(e3)[:60]}` instead of the configured hash size: until some later command resizes the table, searches run on a table of another size than the option says, so the same `position` + `go` gives different results depending on which commands preceded it",
                          {"fn": cb3.name, "file": cb3.file, "line": ct3.get("line")})
    rep.rule("C12-RESET", n, 9, ok, "fields written by search are reset; every table slot emptied; ucinewgame resets; state built with the configured size")


def rule_persearch(fx, rep, search):
    ok = True
    n = 0
    sc = "engine::search::SearchContext"
    builders = set()
    for b in fx.fn_bodies():
        for bb, j, s in b.stmts():
            rv = s.get("rv")
            if rv and rv["k"] == "agg" and rv.get("agg") == "adt" and norm(rv["adt"]) == sc:
                builders.add(b.name)
    scn = fx.one("SearchContext::new")
    n += 1
    good = builders == {scn.name}
    rep.obligation(good)
    if not good:
        ok = False
        rep.violation("C12-PERSEARCH", "C12-PERSEARCH/builders", f"SearchContext is constructed in {sorted(builders)}, expected only SearchContext::new", {"fn": scn.name, "file": scn.file, "line": scn.line})
    adt = fx.adt("search::SearchContext")
    fields = {f["name"]: f["ty"] for f in adt["variants"][0]["fields"]}
    for bb, j, s in scn.stmts():
        rv = s.get("rv")
        if rv and rv["k"] == "agg" and rv.get("agg") == "adt" and norm(rv["adt"]) == sc:
            for fname, op in zip(rv["fields"], rv["ops"]):
                ty = fields[fname]
                if ty.startswith("&"):
                    continue  # borrowed from the caller's persistent state / strategy / options
                n += 1
                e = strip_refs(scn.expr(op, expand_named=True, at=bb))
                fresh = (isinstance(e, tuple) and e[0] == "const") or \
                    (isinstance(e, tuple) and e[0] == "call" and e[1].endswith("::new") and len(e[2]) == 0)
                rep.obligation(fresh)
                rep.sample({"rule": "C12-PERSEARCH", "field": fname, "init": show(e)[:60], "fresh": fresh})
                if not fresh:
                    ok = False
                    rep.violation("C12-PERSEARCH", f"C12-PERSEARCH/{fname}", f"SearchContext.{fname} (by value) is initialised from `{show(e)[:80]}`, not freshly per search", {"fn": scn.name, "file": scn.file, "line": s.get("line")})
    # search::search builds its context itself, once
    n += 1
    good = len(search.calls_to("SearchContext::new")) == 1
    rep.obligation(good)
    if not good:
        ok = False
        rep.violation("C12-PERSEARCH", "C12-PERSEARCH/search", "search::search does not build exactly one fresh SearchContext", {"fn": search.name, "file": search.file, "line": search.line})
    # KillersTable / CountermoveTable values are not stored anywhere persistent: only SearchContext holds them
    for tname in ("KillersTable", "CountermoveTable"):
        n += 1
        holders = [k for k, a in fx.adts.items() if any(tname in f["ty"] for v in a["variants"] for f in v["fields"])]
        good = all(norm(h) == sc for h in holders) and holders
        rep.obligation(good)
        if not good:
            ok = False
            rep.violation("C12-PERSEARCH", f"C12-PERSEARCH/holder/{tname}", f"{tname} is held by {holders}, expected only the per-search SearchContext", {"fn": scn.name, "file": scn.file, "line": scn.line})
    rep.rule("C12-PERSEARCH", n, 7, ok, "per-search tables and counters built fresh")


def rule_statics(fx, rep, search, cone):
    ok = True
    n = 0
    init = fx.one("crate::init") if fx.find("crate::init") else None
    if init is None:
        cands = [b for b in fx.fn_bodies() if norm(b.name) == "init"]
        if len(cands) != 1:
            pC05.raise_missing("crate-level init() not found")
        init = cands[0]
    icone = fx.cone([init.name])
    muts = {norm(k) for k, v in fx.statics.items() if v.get("mutable")}
    writers = {}
    for b in fx.fn_bodies():
        if "::tests::" in b.name:
            continue
        for (s, kind, bb, idx) in static_accesses(b):
            if s in muts and kind in ("write", "mutaddr"):
                writers.setdefault(s, set()).add(b.name)
    for s in sorted(muts):
        n += 1
        w = writers.get(s, set())
        # a static that no Rust body writes (extern statics of the C tablebase library) cannot be a Rust-side source of history dependence
        good = all(x in icone for x in w) and not any(x in cone for x in w)
        rep.obligation(good)
        rep.sample({"rule": "C12-STATICS", "static": s, "writers": sorted(norm(x) for x in w)})
        if not good:
            ok = False
            where = sorted(x for x in w if x not in icone)
            b = fx.bodies[where[0]] if where else init
            rep.violation("C12-STATICS", f"C12-STATICS/{s}", f"`static mut {s}` is written by {sorted(norm(x) for x in w)}; writers outside the cone of init(): {[norm(x) for x in where]}",
                          {"fn": b.name, "file": b.file, "line": b.line})
    # main: every table writer runs before run() - it lies in the cone of a call of main that dominates the call of run()
    n += 1
    su = startup_cone(fx)
    good = su is not None
    late = []
    if good:
        late = sorted(norm(x) for s_ in muts for x in writers.get(s_, set()) if x not in su)
        good = not late
    rep.obligation(good)
    if not good:
        ok = False
        rep.violation("C12-STATICS", "C12-STATICS/main-order", "main does not run every table initialiser before run()" + (f": {late[:4]} are not reached from a call that precedes run()" if late else " (no single main / run() call found)"), {"fn": "main", "file": "src/main.rs"})
    rep.rule("C12-STATICS", n, 8, ok, "static mut tables written only during init, before run")


def startup_cone(fx):
    """Bodies reachable from the calls of `main` that dominate its call of run(): what has certainly been executed (as far as
    the call graph can tell) before the first command is read. None if main / run() cannot be identified."""
    main = [b for b in fx.fn_bodies() if norm(b.name) == "main"]
    if len(main) != 1:
        return None
    m = main[0]
    rc = [bb for bb, t in m.calls() if norm(callee_name(t) or "") == "run"]
    if not rc:
        return None
    roots = []
    for bb, t in m.calls():
        cb = fx.body(callee_name(t) or "")
        if cb is None or bb in rc:
            continue
        if all(m.block_dominates(bb, r) for r in rc):
            roots.append(cb.name)
    return fx.cone(roots)


def rule_seed(fx, rep):
    init = fx.one("zobrist::init")
    seeds = init.calls_to("SeedableRng::seed_from_u64")
    good = len(seeds) == 1 and seeds[0][1]["args"][0].get("k") == "const" and "int" in seeds[0][1]["args"][0]
    rep.obligation(good)
    if not good:
        rep.violation("C12-SEED", "C12-SEED/zobrist", "zobrist::init is not seeded by a constant", {"fn": init.name, "file": init.file, "line": init.line})
    # no other RNG anywhere in the non-test, non-tuner engine paths reachable from uci
    rep.rule("C12-SEED", 1, 1, good, "constant seed for key generation")


TT = "src/engine/transposition_table.rs"
TB = "src/engine/search/tables.rs"
TC = "src/engine/search/time_control.rs"
SM = "src/engine/search/mod.rs"
MUTANTS = [
    {"name": "resize drops the table for Hash 0 without recording the size (seed C12-11a)", "expect": "C12-RESET/tt/resize/size-field",
     "edits": __import__("shared_mutants").edits_from_patch("seeded/C12-11a/patch.diff")},
    {"name": "engine state built with a zero-slot table, sized on isready (seed C12-7a)", "expect": "C12-RESET/initial-size",
     "edits": [("src/engine/uci/mod.rs", "        persistent_state: Arc::new(Mutex::new(PersistentState::new(options.hash_size))),", "        persistent_state: Arc::new(Mutex::new(PersistentState::new(0))),"),
               ("src/engine/uci/mod.rs", "            UciCommand::IsReady => send_response(&UciResponse::ReadyOk),", "            UciCommand::IsReady => {\n                if let Ok(mut state_handle) = self.persistent_state.try_lock() {\n                    state_handle.tt.resize(self.options.hash_size);\n                }\n                send_response(&UciResponse::ReadyOk);\n            }")]},
    {"name": "go without a time argument gets a default five-second limit (seed C12-7b)", "expect": "C12-SELECT",
     "edits": [("src/engine/uci/mod.rs", "                let mut time_control = TimeControl::Infinite;\n", "                let mut time_control = TimeControl::ExactTime(Duration::from_secs(5));\n")]},
    {"name": "table cleared in whole chunks only, the remainder survives (seed C12-5a)", "expect": "C12-RESET/tt/slots",
     "edits": [(TT, "        for i in 0..self.data.len() {\n            self.data[i] = None;\n        }\n\n        self.generation = 0;", "        for chunk in self.data.chunks_exact_mut(1 << 20) {\n            chunk.fill(None);\n        }\n\n        self.generation = 0;")]},
    {"name": "benign: Option-typed limits (match form)", "benign": True, "edits": shared_mutants.OPT_MATCH},
    {"name": "benign: Option-typed limits (closure form)", "benign": True, "edits": shared_mutants.OPT_CLOSURES},
    {"name": "TT reset forgets generation", "expect": "C12-RESET",
     "edits": [(TT, "        self.generation = 0;\n        self.occupied = 0;\n    }\n\n    pub fn resize", "        self.occupied = 0;\n    }\n\n    pub fn resize")]},
    {"name": "table entries cleared only when hashfull > 0 (seed C12-1)", "expect": "C12-RESET",
     "edits": [(TT, "        for i in 0..self.data.len() {\n            self.data[i] = None;\n        }\n\n        self.generation = 0;", "        if self.occupancy() > 0 {\n            self.data.fill(None);\n        }\n\n        self.generation = 0;")]},
    {"name": "history table not reset on ucinewgame", "expect": "C12-RESET",
     "edits": [(SM, "        self.tt.reset();\n        self.history_table.reset();", "        self.tt.reset();")]},
    {"name": "history table gains a field only search writes", "expect": "C12-RESET",
     "edits": [(TB, "pub struct HistoryTable([[[i32; Square::N]; Square::N]; Player::N]);", "pub struct HistoryTable([[[i32; Square::N]; Square::N]; Player::N], u32);"),
               (TB, "        Self([[[0; Square::N]; Square::N]; Player::N])\n    }\n\n    pub fn reset", "        Self([[[0; Square::N]; Square::N]; Player::N], 0)\n    }\n\n    pub fn reset"),
               (TB, "        let bonus = Self::bonus(depth);", "        self.1 = self.1.wrapping_add(1);\n        let bonus = Self::bonus(depth) + (self.1 & 1) as i32;")]},
    {"name": "clock read in the Infinite arm", "expect": "C12-EFFECT/poll",
     "edits": [(TC, "            TimeControl::Infinite => false,", "            TimeControl::Infinite => self.elapsed() > Duration::from_secs(3600),")]},
    {"name": "search decision depends on elapsed time", "expect": "C12-EFFECT/flow",
     "edits": [("src/engine/search/iterative_deepening.rs", "        best_move = Some(*pv.first().unwrap());", "        if ctx.time_control.elapsed().as_millis() % 2 == 1 && depth > 250 {\n            break;\n        }\n        best_move = Some(*pv.first().unwrap());")]},
    {"name": "killer table kept across searches", "expect": "C12-PERSEARCH",
     "edits": [(SM, "    pub history_table: HistoryTable,\n    pub tablebase: Tablebase,\n}", "    pub history_table: HistoryTable,\n    pub tablebase: Tablebase,\n    pub killers: Option<KillersTable>,\n}"),
               (SM, "            history_table: HistoryTable::new(),\n            tablebase: Tablebase::new(),\n        }", "            history_table: HistoryTable::new(),\n            tablebase: Tablebase::new(),\n            killers: None,\n        }")]},
    {"name": "LMR table lazily initialised from search", "expect": "C12-STATICS",
     "edits": [("src/engine/search/tables/lmr_table.rs", "    let depth = depth as usize;\n    unsafe { LMR_TABLE[depth.min(63)][move_count.min(63)] }", "    let depth = depth as usize;\n    unsafe {\n        if LMR_TABLE[63][63] == 0 {\n            LMR_TABLE[63][63] = 3;\n        }\n        LMR_TABLE[depth.min(63)][move_count.min(63)]\n    }")]},
    {"name": "zobrist seeded from the clock", "expect": "C12-SEED",
     "edits": [("src/chess/zobrist.rs", "    let mut random = StdRng::seed_from_u64(0);", "    let mut random = StdRng::seed_from_u64(std::time::SystemTime::now().duration_since(std::time::UNIX_EPOCH).map_or(0, |d| d.as_secs()));")]},
]
