"""C10 — the staged move picker yields every legal move exactly once: necessary structural clauses
C10-SRC, C10-DEDUP, C10-STAGE, C10-LOUD (DESIGN.md §3)."""
from facts import (norm, show, walk, strip_refs, deep_strip, is_call_to, callee_name, find_calls, guard_conditions,
                   cmp_op, option_guard, switch_edge_conds, decision_paths)

EXPLANATION = (
    "Decides necessary structural clauses of C10, not the index arithmetic of the segments: (SRC) the picker's move "
    "list is written only by the legal move generators and by swaps, and every yielded move other than the hash move "
    "of the first stage is read from that list or is yielded under equality with a list element (a remembered killer "
    "/ counter move that is not legal here can therefore never be yielded); (DEDUP) every yield after the first "
    "stage is guarded by inequality with the hash move; (STAGE) every stage assignment moves to a later stage, so no "
    "stage is re-entered; (LOUD) the captures-only picker never enters a quiet-move stage; (LOUDSET) every capture-"
    "labelled constructor and the non-capturing queen promotion are emitted from the capture generator's cone only "
    "(the only generator the captures-only picker runs), the remaining constructors from the quiet generator's only."
)

MP = "engine::search::move_picker::MovePicker"


def run(fx, rep, tier):
    nxt = fx.one("MovePicker::next")
    nbm = fx.one("MovePicker::next_best_move")
    rule_src(fx, rep, nxt, nbm)
    rule_dedup(fx, rep, nxt, nbm)
    rule_stage(fx, rep, nxt)
    rule_loud(fx, rep, nxt)
    rule_loudset(fx, rep, nxt)
    rule_segments(fx, rep, nxt)


def rule_segments(fx, rep, nxt):
    """The limit handed to the selection routine bounds one segment of the move list (captures / quiets). A limit that is a field
    of the picker must be fixed once its segment has been generated: all its writes happen in one stage, before the stage that
    uses it. A boundary that keeps moving in later stages (e.g. `first_quiet`, bumped whenever a killer is pulled forward) makes
    the bad-captures stage run into moves that were already yielded (seed C10-4a)."""
    order = {v["name"]: v["discr"] for v in fx.adt("move_picker::GenStage")["variants"]}

    def stage_at(bb):
        cur = None
        for (e, pol, w) in guard_conditions(nxt, bb, expand_named=True):
            g = stage_guard(nxt, e, pol)
            if g:
                cur = g
        return cur
    ok = True
    n = 0
    for bb, t in nxt.calls_to("MovePicker::next_best_move"):
        lim = deep_strip(nxt.expr(t["args"][1], expand_named=True, at=bb))
        if not (isinstance(lim, tuple) and lim[0] == "field" and deep_strip(lim[1]) == ("arg", 1, "self")):
            continue  # e.g. self.moves.len(): the end of the list
        fld = lim[2]
        use_stage = stage_at(bb)
        writes = set()
        for wb, j, st in nxt.stmts():
            if st["k"] == "assign" and st["lhs"]["l"] == 1 and [p.get("n") for p in st["lhs"].get("p", []) if isinstance(p, dict)] == [fld]:
                writes.add(stage_at(wb))
        for hb_bb, ht in nxt.calls():
            hb = fx.body(callee_name(ht)) if callee_name(ht) else None
            if hb is not None and hb is not nxt and "move_picker::MovePicker::" in norm(hb.name):
                if any(adt == MP and f2 == fld for (wb, wi, adt, f2, kind, place) in hb.field_writes()):
                    writes.add(stage_at(hb_bb))
        n += 1
        good = use_stage is not None and len(writes) == 1 and None not in writes and order[next(iter(writes))] < order[use_stage]
        rep.obligation(good)
        rep.sample({"rule": "C10-SEGMENTS", "stage": use_stage, "limit": fld, "written_in": sorted(str(w) for w in writes)})
        if not good:
            ok = False
            rep.violation("C10-SEGMENTS", f"C10-SEGMENTS/{use_stage}/{fld}", f"MovePicker::next line {t.get('line')}: stage {use_stage} selects moves up to `self.{fld}`, which is written in stages {sorted(str(w) for w in writes)}: "
                          "a segment boundary that still moves after its segment was generated lets the stage run into moves already yielded (or miss some)", {"fn": nxt.name, "file": nxt.file, "line": t.get("line")})
    # a remembered move (killer / counter move) that is yielded out of the quiets must have been moved out of the segment that
    # is scored and yielded later: on every path to such a yield the start of that segment (`first_quiet`) was advanced - by an
    # assignment in `next` or by a helper that advances it on every one of its paths (seed C10-7b: the helper skipped the swap
    # *and the increment* when the move already stood at the head of the segment, so it was yielded again among the quiets)
    adv_field = None
    for bb, t in nxt.calls_to("MovePicker::next_best_move"):
        pass
    inc_blocks, cond_helpers = set(), []
    cands = {}
    for wb, j, st in nxt.stmts():
        if st["k"] == "assign" and st["lhs"]["l"] == 1:
            f = [p.get("n") for p in st["lhs"].get("p", []) if isinstance(p, dict)]
            if len(f) == 1:
                e = deep_strip(nxt.expr(st["rv"].get("op"), expand_named=True, at=wb)) if st["rv"]["k"] == "use" else None
                if e is not None and any(isinstance(x, tuple) and x and x[0] == "binop" and x[1].startswith("Add") for x in walk(e)) and self_field_in(e, f[0]):
                    cands.setdefault(f[0], set()).add(wb)
    for hb_bb, ht in nxt.calls():
        hb = fx.body(callee_name(ht)) if callee_name(ht) else None
        if hb is None or hb is nxt or "move_picker::MovePicker::" not in norm(hb.name) or hb.kind != "AssocFn":
            continue
        for wb, j, st in hb.stmts():
            if st["k"] == "assign" and st["lhs"]["l"] == 1:
                f = [p.get("n") for p in st["lhs"].get("p", []) if isinstance(p, dict)]
                if len(f) == 1:
                    e = deep_strip(hb.expr(st["rv"].get("op"), expand_named=True, at=wb)) if st["rv"]["k"] == "use" else None
                    if e is not None and any(isinstance(x, tuple) and x and x[0] == "binop" and x[1].startswith("Add") for x in walk(e)) and self_field_in(e, f[0]):
                        if hb.must_pass(0, [wb], hb.return_blocks()):
                            cands.setdefault(f[0], set()).add(hb_bb)
                        else:
                            cond_helpers.append((f[0], hb_bb, hb))
    remembered = [(yb, bb, e, line, label) for (yb, bb, e, line, label) in all_yields(fx, nxt) if yb is nxt and find_calls(e, "KillersTable::get_0", "KillersTable::get_1", "CountermoveTable::get")]
    for (yb, bb, e, line, label) in remembered:
        n += 1
        good = any(any(nxt.block_dominates(ib, bb) and ib != bb for ib in blocks) for f, blocks in cands.items())
        rep.obligation(good)
        if not good:
            ok = False
            via = [hb for (f, hbb, hb) in cond_helpers if nxt.block_dominates(hbb, bb)]
            why = f"`{via[0].name}` advances the start of the quiet segment only on some of its paths" if via else "the start of the quiet segment is not advanced on every path to the yield"
            rep.violation("C10-SEGMENTS", f"C10-SEGMENTS/pulled-forward/{label}", f"MovePicker::next line {line} yields a remembered move found among the quiets, but {why}: the move stays inside the segment that is scored and yielded afterwards and comes out twice",
                          {"fn": nxt.name, "file": nxt.file, "line": line})
    rep.rule("C10-SEGMENTS", n, 1, ok, "segment limits are fixed before the stage that uses them; remembered moves leave the quiet segment when yielded")


def self_field_in(e, fld):
    return any(isinstance(x, tuple) and len(x) == 3 and x[0] == "field" and x[2] == fld and deep_strip(x[1])[:2] == ("arg", 1) for x in walk(e))


def rule_loudset(fx, rep, nxt):
    """The captures-only picker runs the capture generator only. So every capture-labelled constructor (captures,
    capturing promotions, en passant) and the non-capturing *queen* promotion must be emitted from the cone of
    `generate_captures`, and nothing but those; the quiet generator emits the rest (seed C10-2)."""
    gc, gq = fx.one("gen::generate_captures"), fx.one("gen::generate_quiets")
    cc, cq = fx.cone([gc.name]), fx.cone([gq.name])
    ok = True
    n = 0
    found_q_promo_in_caps = False
    for b in fx.fn_bodies():
        if not norm(b.name).startswith("chess::movegen::gen::") or "::tests::" in b.name:
            continue
        for bb, t in b.calls():
            cn = norm(callee_name(t) or "")
            if not cn.startswith("chess::moves::Move::"):
                continue
            ctor = cn.split("::")[-1]
            if ctor not in ("capture", "quiet", "capture_promotion", "quiet_promotion", "en_passant", "castles"):
                continue
            in_c, in_q = b.name in cc, b.name in cq
            kind = None
            if ctor == "quiet_promotion":
                e = deep_strip(b.expr(t["args"][2], expand_named=True, at=bb))
                kind = e[1].split("::")[-1] if isinstance(e, tuple) and e and e[0] == "agg" and not e[2] else "?"
            loud = ctor in ("capture", "capture_promotion", "en_passant") or (ctor == "quiet_promotion" and kind == "Queen")
            if ctor == "quiet_promotion" and kind == "?":
                # the kind is a parameter / loop variable: cannot tell which stage it belongs to
                rep.notes.append(f"C10-LOUDSET: promotion kind at {b.name}:{t.get('line')} is not a constant; that site is not decided")
                continue
            n += 1
            good = (in_c and not in_q) if loud else (in_q and not in_c)
            if loud and ctor == "quiet_promotion" and good:
                found_q_promo_in_caps = True
            rep.obligation(good)
            if not good:
                ok = False
                what = f"Move::{ctor}" + (f"({kind})" if kind else "")
                rep.violation("C10-LOUDSET", f"C10-LOUDSET/{norm(b.name).split('::')[-1]}/{ctor}" + (f"/{kind}" if kind else ""),
                              f"`{b.name}` line {t.get('line')} builds {what}, which is {'a loud move (capture / queen promotion) but is not emitted by the capture generator alone' if loud else 'a quiet move but is emitted by the capture generator'}: "
                              f"the captures-only picker (quiescence) runs only generate_captures", {"fn": b.name, "file": b.file, "line": t.get("line")})
    n += 1
    rep.obligation(found_q_promo_in_caps)
    if not found_q_promo_in_caps and ok:
        ok = False
        rep.violation("C10-LOUDSET", "C10-LOUDSET/queen-promotion", "no non-capturing queen promotion is emitted by the capture generator: the captures-only picker misses it", {"fn": gc.name, "file": gc.file, "line": gc.line})
    # and the loud picker reaches generate_captures but never generate_quiets without only_captures being false: C10-LOUD
    rep.rule("C10-LOUDSET", n, 15, ok, "loud constructors in the capture generator's cone only; quiet ones in the quiet generator's")


def self_field(e, fld):
    e = deep_strip(e)
    return isinstance(e, tuple) and e[0] == "field" and e[2] == fld and e[1] == ("arg", 1, "self")


def yields(body):
    """[(bb, value_expr, line)] for `_0 = Some(x)`"""
    out = []
    for bb, j, s in body.stmts():
        rv = s.get("rv")
        if s["k"] == "assign" and s["lhs"]["l"] == 0 and not s["lhs"].get("p") and rv and rv["k"] == "agg" and rv.get("variant") == "Some":
            out.append((bb, body.expr(rv["ops"][0], expand_named=True, at=bb), s.get("line")))
    return out


def all_yields(fx, body, depth=2):
    """[(body, bb, value_expr, line, label)]: the `Some(x)` results of `body`, where a result that is simply the payload of
    an Option returned by another MovePicker method (a helper such as `pull_quiet_forward`) is replaced by that
    helper's own `Some(x)` results, analysed in the helper's body."""
    out = []
    ys = yields(body)
    for (bb, e, line) in ys:
        d = deep_strip(e)
        helper = None
        if depth > 0 and isinstance(d, tuple) and d[0] == "field" and d[2] == "0" and isinstance(d[1], tuple) and d[1][0] == "as" and d[1][2] == "Some":
            c = deep_strip(d[1][1])
            if isinstance(c, tuple) and c[0] == "call" and isinstance(c[1], str) and "MovePicker::" in c[1] and not c[1].endswith("next_best_move") and \
                    c[2] and deep_strip(c[2][0]) == ("arg", 1, "self"):
                helper = fx.body(c[1])
            # `remembered.and_then(|m| self.helper(m))`: the helper called by the closure is where the move is yielded
            if helper is None and isinstance(c, tuple) and c[0] == "call" and isinstance(c[1], str) and c[1].endswith("Option::and_then") and len(c[2]) == 2:
                cl = deep_strip(c[2][1])
                cb = fx.body(str(cl[1])[len("closure:"):]) if isinstance(cl, tuple) and cl and cl[0] == "agg" and str(cl[1]).startswith("closure:") else None
                rets = [deep_strip(r) for (_c, r, _l) in decision_paths(cb, 8) if r is not None] if cb is not None else []
                if len(rets) == 1 and isinstance(rets[0], tuple) and rets[0][0] == "call" and isinstance(rets[0][1], str) and "MovePicker::" in rets[0][1] and \
                        not rets[0][1].endswith("next_best_move"):
                    helper = fx.body(rets[0][1])
        if helper is not None and helper is not body:
            for (hb, hbb, he, hline, hl) in all_yields(fx, helper, depth - 1):
                out.append((hb, hbb, he, hline, f"{norm(helper.name).split('::')[-1]}/{hl}"))
        else:
            out.append((body, bb, e, line, str(ordinal(ys, bb))))
    return out


def from_list(e):
    """expression reads an element of self.moves"""
    for c in find_calls(e, "ArrayVec::get", "ArrayVec<T, CAP>>::get", "Index>::index", "slice::get"):
        if any(self_field(a, "moves") or any(isinstance(x, tuple) and len(x) == 3 and x[0] == "field" and x[2] == "moves" for x in walk(a)) for a in c[2][:1]):
            return True
    return False


def rule_src(fx, rep, nxt, nbm):
    ok = True
    n = 0

    def bad(key, msg, b, line=None):
        nonlocal ok
        ok = False
        rep.violation("C10-SRC", f"C10-SRC/{key}", msg, {"fn": b.name, "file": b.file, "line": line or b.line})

    # writers of MovePicker.moves
    allowed_callees = ("gen::generate_captures", "gen::generate_quiets", "swap", "ArrayVec::new", "MoveList::new")
    for b in fx.fn_bodies():
        if "::tests::" in b.name:
            continue
        for (bb, idx, adt, fld, kind, place) in b.field_writes():
            if adt == MP and fld == "moves":
                n += 1
                good = False
                if kind == "mutref" and idx is not None:
                    # find the call consuming this &mut
                    st = b.blocks[bb]["stmts"][idx]
                    l = st["lhs"]["l"]
                    users = []
                    for cb, t in b.calls():
                        for a in t["args"]:
                            if "pl" in a:
                                sl, _ = b.slice_back([a["pl"]["l"]], through_calls=False)
                                if l in sl:
                                    users.append(norm(callee_name(t) or "?"))
                    good = bool(users) and all(any(u.endswith(x) for x in allowed_callees) or u.endswith("DerefMut>::deref_mut") for u in users)
                    who = users
                else:
                    who = [kind]
                rep.obligation(good)
                if not good:
                    bad(f"list-writer/{norm(b.name)}", f"`{b.name}` modifies the picker's move list through {who}; only the legal move generators and swaps may", b, b.line_of(bb, idx))
    # yielded values
    for (yb, bb, e, line, label) in all_yields(fx, nxt):
        n += 1
        d = deep_strip(e)
        kind = None
        if isinstance(d, tuple) and d[0] == "field" and d[2] == "0" and isinstance(d[1], tuple) and d[1][0] == "as" and self_field(d[1][1], "previous_best_move"):
            # hash move: only in the first stage
            first = any(stage_guard(yb, ge, pol) == "BestMove" for (ge, pol, w) in guard_conditions(yb, bb, expand_named=True))
            kind = "hash-move" if first and yb is nxt else None
        elif find_calls(e, "MovePicker::next_best_move"):
            kind = "list(next_best_move)"
        elif from_list(e):
            kind = "list"
        else:
            # remembered move: must be yielded under equality with a list element
            for (ge, pol, w) in guard_conditions(yb, bb, expand_named=True):
                if isinstance(ge, tuple) and ge[0] == "call" and ge[1].endswith("Option::is_some_and") and pol is True and from_list(ge[2][0]):
                    caps = [x for x in walk(ge[2][1])]
                    if any(deep_strip(x) == d for x in caps if isinstance(x, tuple)):
                        clos = [x for x in caps if isinstance(x, tuple) and x and x[0] == "agg" and str(x[1]).startswith("closure:")]
                        cb = fx.bodies.get(clos[0][1][len("closure:"):]) if clos else None
                        if cb is not None and any(cmp_op(("call", norm(callee_name(t) or ""), tuple(cb.expr(a, expand_named=True) for a in t["args"]))) for _, t in cb.calls()):
                            kind = "remembered==list-element"
        rep.obligation(kind is not None)
        rep.sample({"rule": "C10-SRC", "yield_line": line, "source": kind})
        if kind is None:
            bad(f"yield/{label}", f"{yb.name} line {line} yields `{show(e)[:100]}`, which is neither read from the generated move list nor checked to equal one of its elements: a move that is not legal here can be handed to the search", yb, line)
    # next_best_move returns a list element
    for (bb, e, line) in yields(nbm):
        n += 1
        good = from_list(e)
        rep.obligation(good)
        if not good:
            bad("next_best_move", f"next_best_move returns `{show(e)[:100]}`, not an element of the move list", nbm, line)
    rep.rule("C10-SRC", n, 11, ok, "list writers and provenance of yielded moves")


def ordinal(ys, bb):
    return sorted(y[0] for y in ys).index(bb) + 1


def stage_guard(body, e, pol):
    """If (e, pol) says `self.stage == V` is true, return V."""
    co = cmp_op(e)
    if co and co[0] == "Eq" and pol is True:
        a, b = deep_strip(co[1]), deep_strip(co[2])
        for x, y in ((a, b), (b, a)):
            if self_field(x, "stage") and isinstance(y, tuple) and y[0] == "agg" and "GenStage::" in str(y[1]):
                return str(y[1]).split("::")[-1]
    return None


def hash_move_excluded(body, bb, val):
    """block bb is guarded by `Some(val) != self.previous_best_move`"""
    d = deep_strip(val)
    for (e, pol, w) in guard_conditions(body, bb, expand_named=True):
        co = cmp_op(e)
        if not co:
            continue
        if not ((co[0] == "Ne" and pol is True) or (co[0] == "Eq" and pol is False)):
            continue
        a, b = deep_strip(co[1]), deep_strip(co[2])
        for x, y in ((a, b), (b, a)):
            if self_field(y, "previous_best_move") and isinstance(x, tuple) and x[0] == "agg" and str(x[1]).endswith("Option::Some") and x[2] and deep_strip(x[2][0]) == d:
                return True
    return False


def rule_dedup(fx, rep, nxt, nbm):
    ok = True
    n = 0
    for (yb, bb, e, line, label) in all_yields(fx, nxt):
        d = deep_strip(e)
        if yb is nxt and isinstance(d, tuple) and d[0] == "field" and d[2] == "0" and isinstance(d[1], tuple) and d[1][0] == "as" and self_field(d[1][1], "previous_best_move"):
            continue  # the hash move itself
        n += 1
        good = bool(find_calls(e, "MovePicker::next_best_move")) or hash_move_excluded(yb, bb, e)
        rep.obligation(good)
        if not good:
            ok = False
            rep.violation("C10-DEDUP", f"C10-DEDUP/next/{label}", f"{yb.name} line {line} yields `{show(e)[:80]}` without checking it against the hash move, which was already yielded in the first stage",
                          {"fn": yb.name, "file": yb.file, "line": line})
    for (bb, e, line) in yields(nbm):
        n += 1
        # the returned tuple's move component
        d = deep_strip(e)
        mv = d[2][0] if isinstance(d, tuple) and d[0] == "agg" and d[2] else d
        good = hash_move_excluded(nbm, bb, mv)
        rep.obligation(good)
        if not good:
            ok = False
            rep.violation("C10-DEDUP", "C10-DEDUP/next_best_move", f"next_best_move line {line} returns a move without skipping the hash move", {"fn": nbm.name, "file": nbm.file, "line": line})
    # the comparisons above are only as good as the remembered hash move: it is set by the constructors and never changed
    # afterwards (seed C10-7a cleared it after the first skip; a later rewind over the same slot then yields the move again)
    for b in fx.fn_bodies():
        if "::tests::" in b.name or "move_picker::MovePicker::" not in norm(b.name):
            continue
        ctor = (b.local_ty(0) or "").endswith("move_picker::MovePicker")
        for (wb, wi, adt, fld, kind, place) in b.field_writes():
            if norm(adt).endswith("move_picker::MovePicker") and fld == "previous_best_move" and not ctor:
                n += 1
                ok = False
                rep.obligation(False)
                rep.violation("C10-DEDUP", f"C10-DEDUP/hash-move-writer/{norm(b.name).split('::')[-1]}", f"`{b.name}` changes the remembered hash move after construction: the `!= hash move` tests of the later stages then compare against something else, and the hash move can be yielded again",
                              {"fn": b.name, "file": b.file, "line": b.line_of(wb, wi)})
    rep.rule("C10-DEDUP", n, 6, ok, "yields guarded by inequality with the hash move; the hash move is never changed")


def stage_assignments(fx, nxt):
    """[(bb, variant, line)] for self.stage = GenStage::V"""
    out = []
    for bb, j, s in nxt.stmts():
        if s["k"] == "assign" and s["lhs"]["l"] == 1 and [p.get("n") for p in s["lhs"].get("p", []) if isinstance(p, dict)] == ["stage"]:
            rv = s["rv"]
            if rv["k"] == "agg":
                out.append((bb, rv.get("variant"), s.get("line")))
            elif rv["k"] == "use":
                e = deep_strip(nxt.expr(rv["op"], expand_named=True, at=bb))
                if isinstance(e, tuple) and e[0] == "agg":
                    out.append((bb, str(e[1]).split("::")[-1], s.get("line")))
                else:
                    # value chosen by a branch: collect all reaching aggregate definitions
                    l = rv["op"]["pl"]["l"] if "pl" in rv["op"] else None
                    for d in nxt.defs().get(l, []):
                        if d[0] == "stmt" and d[3]["rv"]["k"] == "agg":
                            # attribute the choice to the block that makes it (its guards decide the value)
                            out.append((d[1], d[3]["rv"].get("variant"), s.get("line")))
        if s["k"] == "setdiscr" and s["lhs"]["l"] == 1 and [p.get("n") for p in s["lhs"].get("p", []) if isinstance(p, dict)] == ["stage"]:
            out.append((bb, s.get("variant"), s.get("line")))
    return out


def stage_assignments_with_helpers(fx, nxt):
    """stage assignments of `next`, plus those made by `&mut self` helper methods it calls (attributed to the call site; a
    helper assigning one of its parameters assigns the call's argument)"""
    out = list(stage_assignments(fx, nxt))
    for bb, t in nxt.calls():
        hb = fx.body(callee_name(t)) if callee_name(t) else None
        if hb is None or hb is nxt or "move_picker::MovePicker::" not in norm(hb.name) or hb.kind != "AssocFn":
            continue
        if not t["args"] or deep_strip(nxt.expr(t["args"][0], expand_named=True, at=bb)) != ("arg", 1, "self"):
            continue
        for hbb, j, st in hb.stmts():
            if st["k"] == "assign" and st["lhs"]["l"] == 1 and [p.get("n") for p in st["lhs"].get("p", []) if isinstance(p, dict)] == ["stage"]:
                rv = st["rv"]
                if rv["k"] == "agg":
                    out.append((bb, rv.get("variant"), t.get("line")))
                elif rv["k"] == "use":
                    e = deep_strip(hb.expr(rv["op"], expand_named=True, at=hbb))
                    if isinstance(e, tuple) and e[0] == "agg":
                        out.append((bb, str(e[1]).split("::")[-1], t.get("line")))
                    elif isinstance(e, tuple) and e[0] == "arg" and 1 <= e[1] <= len(t["args"]):
                        a = deep_strip(nxt.expr(t["args"][e[1] - 1], expand_named=True, at=bb))
                        out.append((bb, str(a[1]).split("::")[-1] if isinstance(a, tuple) and a[0] == "agg" else None, t.get("line")))
                    else:
                        out.append((bb, None, t.get("line")))
    return out


def rule_stage(fx, rep, nxt):
    ok = True
    order = {v["name"]: v["discr"] for v in fx.adt("move_picker::GenStage")["variants"]}
    asg = stage_assignments_with_helpers(fx, nxt)
    n = 0
    for (bb, v, line) in asg:
        n += 1
        cur = None
        for (e, pol, w) in guard_conditions(nxt, bb, expand_named=True):
            g = stage_guard(nxt, e, pol)
            if g:
                cur = g
        good = cur is not None and v in order and order[v] > order[cur]
        rep.obligation(good)
        rep.sample({"rule": "C10-STAGE", "in_stage": cur, "assigns": v, "line": line})
        if not good:
            ok = False
            rep.violation("C10-STAGE", f"C10-STAGE/{cur}->{v}", f"MovePicker::next line {line}: while in stage {cur} the stage is set to {v}, which does not come later: a stage can be re-entered and moves yielded again",
                          {"fn": nxt.name, "file": nxt.file, "line": line})
    # parked moves are revisited: the losing captures set aside during the capture stage (positions from `first_bad_capture`) are
    # yielded by the BadCaptures stage, so no call of next() may end with the stage set beyond BadCaptures, from a stage before
    # it, while `first_bad_capture` is Some. For each such skipping assignment that is not itself under the `None` test: with the
    # `None` edges of the tests on `first_bad_capture` removed, no return may be reachable from it without passing an assignment
    # of BadCaptures (seed C10-6b: the rewind placed after the counter-move scan, which returns from inside its loop)
    if "BadCaptures" in order:
        park = None
        for f in fx.adt("move_picker::MovePicker")["variants"][0]["fields"]:
            if "bad" in f["name"] and "Option" in f["ty"]:
                park = f["name"]
        to_bad = [bb for (bb, v, line) in asg if v == "BadCaptures"]
        none_edges = []
        if park:
            for i in sorted(nxt.live_blocks()):
                if nxt.blocks[i]["term"]["k"] != "switch":
                    continue
                for (tg, e, pol, v) in switch_edge_conds(nxt, i):
                    og = option_guard(e, pol)
                    if og is not None and og[1] is False and self_field(og[0], park):
                        none_edges.append((i, tg))
        # assignments made inside a `&mut self` helper (`revisit_bad_captures_or(next_stage)`): is the helper's own assignment of the
        # skipping value under the `None` test of the parked-moves field?
        helper_none = set()
        for hbb0, ht0 in nxt.calls():
            hb0 = fx.body(callee_name(ht0)) if callee_name(ht0) else None
            if hb0 is None or hb0 is nxt or "move_picker::MovePicker::" not in norm(hb0.name) or not park:
                continue
            for sb0, sj0, st0 in hb0.stmts():
                if st0["k"] == "assign" and st0["lhs"]["l"] == 1 and [p0.get("n") for p0 in st0["lhs"].get("p", []) if isinstance(p0, dict)] == ["stage"]:
                    for (e0, pol0, w0) in guard_conditions(hb0, sb0, expand_named=True):
                        og0 = option_guard(e0, pol0)
                        if og0 is not None and og0[1] is False and self_field(og0[0], park):
                            e1 = deep_strip(hb0.expr(st0["rv"].get("op"), expand_named=True, at=sb0)) if st0["rv"]["k"] == "use" else None
                            if isinstance(e1, tuple) and e1[0] == "arg":
                                helper_none.add(hbb0)
        for (bb, v, line) in asg:
            cur = None
            under_none = bb in helper_none and v != "BadCaptures"
            for (e, pol, w) in guard_conditions(nxt, bb, expand_named=True):
                g = stage_guard(nxt, e, pol)
                if g:
                    cur = g
                og = option_guard(e, pol)
                if park and og is not None and og[1] is False and self_field(og[0], park):
                    under_none = True
            if not (park and cur in order and v in order and order[cur] < order["BadCaptures"] < order[v]):
                continue
            n += 1
            good = under_none
            if not good:
                r = nxt.reachable(bb, removed_edges=none_edges, removed_blocks=[x for x in to_bad if x != bb])
                good = not any(x in r for x in nxt.return_blocks())
            rep.obligation(good)
            if not good:
                ok = False
                rep.violation("C10-STAGE", f"C10-STAGE/skip-parked/{cur}->{v}", f"MovePicker::next line {line}: in stage {cur} the stage is set to {v} while `{park}` may be Some, and the function can return before the stage is set to BadCaptures: the losing captures (and the queen promotion push) parked during the capture stage are never yielded",
                              {"fn": nxt.name, "file": nxt.file, "line": line})
    # the BadCaptures stage hands out `moves[idx..captures_end]`, so entering it means rewinding `idx` to the first parked move:
    # wherever the stage value BadCaptures is produced, the parked index must be at hand - the place sits on the `Some` side of a
    # test on the parked-moves field. Entering the stage from anywhere else (seed C10-11a: `if no quiets { BadCaptures }`) leaves
    # `idx` at the end of the captures and the parked moves are never yielded.
    if "BadCaptures" in order and park:
        bodies_ = [nxt] + [fx.body(callee_name(t)) for _bb, t in nxt.calls() if callee_name(t) and fx.body(callee_name(t)) is not None and
                           "move_picker::MovePicker::" in norm(fx.body(callee_name(t)).name) and fx.body(callee_name(t)) is not nxt and fx.body(callee_name(t)).kind == "AssocFn"]
        seen_b = set()
        for hb in bodies_:
            if hb.name in seen_b or norm(hb.name).endswith(("::new", "::new_loud")):
                continue
            seen_b.add(hb.name)
            for bb, j, st in hb.stmts():
                rv = st.get("rv")
                if not (st["k"] == "assign" and rv and rv["k"] == "agg" and rv.get("variant") == "BadCaptures" and "GenStage" in str(rv.get("adt", ""))):
                    continue
                n += 1
                good = False
                for (e, pol, w) in guard_conditions(hb, bb, expand_named=True):
                    og = option_guard(e, pol)
                    if og is not None and og[1] is True and self_field(og[0], park):
                        good = True
                rep.obligation(good)
                if not good:
                    ok = False
                    rep.violation("C10-STAGE", f"C10-STAGE/rewind/{norm(hb.name).split('::')[-1]}", f"`{hb.name}` line {st.get('line')} enters the BadCaptures stage at a place where `{park}` has not been found "
                                  "to be Some: the index is not rewound to the first parked move there, so the stage starts past the captures and the parked losing captures are never yielded",
                                  {"fn": hb.name, "file": hb.file, "line": st.get("line")})
    # `None` ends the stream: next() may hand back a possibly-empty Option produced by a combinator (`.filter(..)`, `.map(..)` on
    # next_best_move) only in the last yielding stage; in an earlier stage a `None` there is read by the search as "no more moves"
    # although later stages still hold moves (seed C10-13a: `return Some(killer2).filter(|m| Some(*m) != hash_move)`)
    last_stage = max((v for v in order.values()))
    for bb, t in nxt.calls():
        if t["dest"]["l"] != 0 or t["dest"].get("p"):
            continue
        cn = norm(callee_name(t) or "")
        if "Option" not in cn:
            continue
        cur = None
        for (e, pol, w) in guard_conditions(nxt, bb, expand_named=True):
            g = stage_guard(nxt, e, pol)
            if g:
                cur = g
        if cur is None or cur not in order:
            continue
        n += 1
        # the last stages: nothing that yields comes after them
        good = order[cur] >= last_stage - 1
        rep.obligation(good)
        if not good:
            ok = False
            rep.violation("C10-STAGE", f"C10-STAGE/early-none/{cur}", f"MovePicker::next line {t.get('line')}: in stage {cur} the function returns the result of `{cn.split('::')[-1]}` on an Option, which can be None: "
                          "the search takes that for the end of the stream while later stages still hold moves", {"fn": nxt.name, "file": nxt.file, "line": t.get("line")})
    rep.rule("C10-STAGE", n, 12, ok, "stage assignments move forward; parked moves are revisited")


def rule_loud(fx, rep, nxt):
    ok = True
    n = 0
    quiet_side = {"GenQuiets", "Killer1", "Killer2", "CounterMove", "ScoreQuiets", "Quiets"}
    for (bb, v, line) in stage_assignments_with_helpers(fx, nxt):
        cur = None
        for (e, pol, w) in guard_conditions(nxt, bb, expand_named=True):
            g = stage_guard(nxt, e, pol)
            if g:
                cur = g
        if v in quiet_side and cur not in quiet_side:
            n += 1
            good = any(self_field(e, "only_captures") and pol is False for (e, pol, w) in guard_conditions(nxt, bb, expand_named=True))
            rep.obligation(good)
            if not good:
                ok = False
                rep.violation("C10-LOUD", f"C10-LOUD/{cur}->{v}", f"MovePicker::next line {line}: stage {v} is entered from {cur} without `only_captures` being false: the captures-only picker would yield quiet moves",
                              {"fn": nxt.name, "file": nxt.file, "line": line})
    # constructors: new_loud sets only_captures = true, new sets false; both start in the first stage with no list
    fields = [f["name"] for f in fx.adt("move_picker::MovePicker")["variants"][0]["fields"]]

    def ctor_value(body, depth=3):
        """{field: expr} of the MovePicker literal a constructor returns, following a tail call to another constructor"""
        from facts import decision_paths, substitute_args
        paths = [p for p in decision_paths(body, 8) if p[1] is not None]
        if len(paths) != 1 or paths[0][0]:
            return None
        r = deep_strip(paths[0][1])
        if isinstance(r, tuple) and r[0] == "agg" and str(r[1]).endswith("MovePicker::MovePicker") and len(r[2]) == len(fields):
            m = dict(zip(fields, r[2]))
            # struct-update syntax `..Self::new(None)`: a field copied out of another constructor's result
            for k, v in list(m.items()):
                d = deep_strip(v)
                if depth > 0 and isinstance(d, tuple) and d[0] == "field" and isinstance(deep_strip(d[1]), tuple) and deep_strip(d[1])[0] == "call":
                    c = deep_strip(d[1])
                    if isinstance(c[1], str) and "MovePicker::" in c[1] and fx.body(c[1]) is not None:
                        inner = ctor_value(fx.body(c[1]), depth - 1)
                        if inner is not None and d[2] in inner:
                            m[k] = substitute_args(inner[d[2]], c[2])
            return m
        if depth > 0 and isinstance(r, tuple) and r[0] == "call" and isinstance(r[1], str) and fx.body(r[1]) is not None and "MovePicker::" in r[1]:
            inner = ctor_value(fx.body(r[1]), depth - 1)
            if inner is not None:
                return {k: substitute_args(v, r[2]) for k, v in inner.items()}
        return None

    for ctor, want in (("MovePicker::new_loud", 1), ("MovePicker::new", 0)):
        cb = fx.one(ctor)
        n += 1
        m = ctor_value(cb)
        good = False
        if m is not None:
            oc = deep_strip(m["only_captures"])
            stg = deep_strip(m["stage"])
            good = oc == ("const", want) and isinstance(stg, tuple) and stg[0] == "agg" and str(stg[1]).endswith("GenStage::BestMove")
        rep.obligation(good)
        if not good:
            ok = False
            rep.violation("C10-LOUD", f"C10-LOUD/ctor/{ctor}", f"`{ctor}` does not start in the first stage with only_captures = {bool(want)}", {"fn": cb.name, "file": cb.file, "line": cb.line})
    rep.rule("C10-LOUD", n, 4, ok, "captures-only picker stays out of the quiet stages")


M = "src/engine/search/move_picker.rs"
MUTANTS = [
    {"name": "Killer2 returns Some(k).filter(..): None in the middle of the stream (seed C10-13a)", "expect": "C10-STAGE/early-none/Killer2",
     "edits": __import__("shared_mutants").edits_from_patch("seeded/C10-13a/patch.diff")},
    {"name": "without quiet moves the picker jumps to BadCaptures without the rewind (seed C10-11a)", "expect": "C10-STAGE/rewind",
     "edits": __import__("shared_mutants").edits_from_patch("seeded/C10-11a/patch.diff")},
    {"name": "remembered move already at the head of the quiets is not taken out of the segment (seed C10-7b)", "expect": "C10-SEGMENTS/pulled-forward",
     "edits": [(M, "                        self.moves.swap(self.first_quiet, i);\n                        self.first_quiet += 1;\n\n                        if Some(killer1) != self.previous_best_move {", "                        if i > self.first_quiet {\n                            self.moves.swap(self.first_quiet, i);\n                            self.first_quiet += 1;\n                        }\n\n                        if Some(killer1) != self.previous_best_move {")]},
    {"name": "remembered hash move cleared after its first skip (seed C10-7a)", "expect": "C10-DEDUP/hash-move-writer",
     "edits": [(M, "            if Some(best_move) == self.previous_best_move {\n                continue;\n            }", "            if Some(best_move) == self.previous_best_move {\n                self.previous_best_move = None;\n                continue;\n            }")]},
    {"name": "rewind to the parked captures placed after the counter-move scan (seed C10-6b)", "expect": "C10-STAGE/skip-parked",
     "edits": [(M, "            match self.first_bad_capture {\n                // If we didn't see any bad captures before, we can skip straight to the end\n                None => self.stage = ScoreQuiets,\n\n                // If we saw any bad captures, go back and try those too\n                Some(first_bad_capture_idx) => {\n                    self.idx = first_bad_capture_idx;\n                    self.stage = BadCaptures;\n                }\n            }\n", "            self.stage = ScoreQuiets;\n"),
               (M, "        if self.stage == BadCaptures {", "        if self.stage == ScoreQuiets {\n            if let Some(first_bad_capture_idx) = self.first_bad_capture.take() {\n                self.idx = first_bad_capture_idx;\n                self.stage = BadCaptures;\n            }\n        }\n\n        if self.stage == BadCaptures {")]},
    {"name": "benign: stage set to ScoreQuiets, then rewound if anything is parked, before the counter-move scan", "benign": True,
     "edits": [(M, "            match self.first_bad_capture {\n                // If we didn't see any bad captures before, we can skip straight to the end\n                None => self.stage = ScoreQuiets,\n\n                // If we saw any bad captures, go back and try those too\n                Some(first_bad_capture_idx) => {\n                    self.idx = first_bad_capture_idx;\n                    self.stage = BadCaptures;\n                }\n            }\n", "            self.stage = ScoreQuiets;\n            if let Some(first_bad_capture_idx) = self.first_bad_capture {\n                self.idx = first_bad_capture_idx;\n                self.stage = BadCaptures;\n            }\n")]},
    {"name": "bad-captures stage bounded by the moving quiet boundary (seed C10-4a)", "expect": "C10-SEGMENTS",
     "edits": [(M, "            if let Some((mv, _)) = self.next_best_move(self.captures_end) {", "            if let Some((mv, _)) = self.next_best_move(self.first_quiet) {")]},
    {"name": "capture generator emits the knight instead of the queen promotion push (shape of seed C10-2)", "expect": "C10-LOUDSET",
     "edits": [("src/chess/movegen/gen.rs", "            moves.push(Move::quiet_promotion(\n                pawn,\n                target,\n                PromotionPieceKind::Queen,\n            ));", "            moves.push(Move::quiet_promotion(\n                pawn,\n                target,\n                PromotionPieceKind::Knight,\n            ));")]},
    {"name": "killer yielded without hash-move check", "expect": "C10-DEDUP/next",
     "edits": [(M, "                        if Some(killer1) != self.previous_best_move {\n                            return Some(killer1);\n                        }", "                        return Some(killer1);")]},
    {"name": "selection skips the hash-move test", "expect": "C10-DEDUP/next_best_move",
     "edits": [(M, "            if Some(best_move) == self.previous_best_move {\n                continue;\n            }\n", "")]},
    {"name": "killer yielded without legality (membership) test", "expect": "C10-SRC/yield",
     "edits": [(M, "            if let Some(killer2) = ctx.killer_moves.get_1(plies) {\n                for i in self.first_quiet..self.moves.len() {\n                    if self.moves.get(i).is_some_and(|m| *m == killer2) {", "            if let Some(killer2) = ctx.killer_moves.get_1(plies) {\n                for i in self.first_quiet..self.moves.len() {\n                    if self.moves.get(i).is_some() {")]},
    {"name": "bad captures stage re-enters good captures", "expect": "C10-STAGE",
     "edits": [(M, "            self.stage = if self.only_captures {\n                Done\n            } else {\n                ScoreQuiets\n            };", "            self.stage = if self.only_captures {\n                Done\n            } else {\n                GoodCaptures\n            };")]},
    {"name": "loud picker falls through to quiets", "expect": "C10-LOUD",
     "edits": [(M, "            if self.only_captures {\n                match self.first_bad_capture {\n                    // If we didn't see any bad captures before, we can skip straight to the end\n                    None => self.stage = Done,", "            if self.only_captures {\n                match self.first_bad_capture {\n                    // If we didn't see any bad captures before, we can skip straight to the end\n                    None => self.stage = GenQuiets,")]},
    {"name": "hash move yielded again when stage is GenQuiets", "expect": "C10-SRC/yield",
     "edits": [(M, "        if self.stage == GenQuiets {\n            self.stage = Killer1;\n", "        if self.stage == GenQuiets {\n            self.stage = Killer1;\n            if let Some(m) = self.previous_best_move {\n                if m.is_capture() && self.captures_end == 0 {\n                    return Some(m);\n                }\n            }\n")]},
    {"name": "picker list seeded from the killer table", "expect": "C10-SRC/list-writer",
     "edits": [(M, "            self.stage = Killer1;\n\n            movegen::generate_quiets(game, &mut self.moves, &self.movegencache);", "            self.stage = Killer1;\n\n            movegen::generate_quiets(game, &mut self.moves, &self.movegencache);\n            if let Some(k) = ctx.killer_moves.get_0(plies) {\n                if self.moves.is_empty() {\n                    self.moves.push(k);\n                }\n            }")]},
    {"name": "captures-only constructor forgets its mode", "expect": "C10-LOUD/ctor",
     "edits": [(M, "            previous_best_move: None,\n            only_captures: true,", "            previous_best_move: None,\n            only_captures: false,")]},
    {"name": "benign: reorder killer equality operands", "benign": True,
     "edits": [(M, "                        if Some(killer1) != self.previous_best_move {", "                        if self.previous_best_move != Some(killer1) {")]},
]
