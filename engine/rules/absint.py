"""A small forward abstract interpreter over the MIR facts for ONE small integer local (value sets over 0..255).

Used where a rule has to know which values of a u8 parameter (the remaining search depth) can reach a block: the parameter
may be reassigned on the way (`depth += 1` under the check extension) and is tested by several switches (`depth > 0`,
`depth == 0`, `depth <= K`), so neither plain CFG reachability (every test looks independent) nor path enumeration
(thousands of paths through a search function) decides it. The domain is the powerset of 0..255 for the tracked local, plus
symbolic records for temporaries derived from it in the same block (copies, checked-arithmetic pairs, comparison results),
which is what MIR produces for `if depth > 0`. Everything else is unknown. Merging at joins is set union, so the result
over-approximates the reachable values (sound for "cannot reach")."""
from collections import deque

FULL = frozenset(range(256))


def _const(o):
    if isinstance(o, dict) and o.get("k") == "const" and isinstance(o.get("int"), int):
        return o["int"]
    return None


class State:
    """values: the tracked local's value set; tmp: local -> record
       ('copy',) | ('pair', set) | ('cmp', op, const, flipped) | ('set', set)"""
    __slots__ = ("vals", "tmp")

    def __init__(self, vals, tmp=None):
        self.vals = vals
        self.tmp = dict(tmp or {})

    def key(self):
        return (self.vals, tuple(sorted((k, str(v)) for k, v in self.tmp.items())))


def _arith(op, xs, c, const_first=False):
    out = set()
    for x in xs:
        a, b = (c, x) if const_first else (x, c)
        v = {"Add": a + b, "Sub": a - b, "Mul": a * b}.get(op)
        if v is None:
            return None
        if 0 <= v <= 255:
            out.add(v)  # values that would overflow panic (checked build) or are cut off by the following assert
    return frozenset(out)


def _cmp(op, x, c, flipped):
    a, b = (c, x) if flipped else (x, c)
    return {"Eq": a == b, "Ne": a != b, "Lt": a < b, "Le": a <= b, "Gt": a > b, "Ge": a >= b}[op]


def run(body, local, start, vals0, stop=()):
    """Forward analysis from block `start` with the tracked `local` holding `vals0`. Returns {block: value set on entry} for
    every block reached with a non-empty set; propagation does not continue out of blocks in `stop`."""
    stop = set(stop)
    preds = body.preds()
    seen = {}
    dq = deque([(start, State(frozenset(vals0)))])
    while dq:
        bb, st = dq.popleft()
        prev = seen.get(bb)
        if prev is not None and st.vals <= prev:
            continue
        merged = st.vals | (prev or frozenset())
        seen[bb] = merged
        # temporaries survive along straight-line code (one predecessor), not across a join
        st = State(merged, st.tmp if len(preds[bb]) <= 1 and prev is None else None)
        if bb in stop:
            continue
        blk = body.blocks[bb]
        for s in blk["stmts"]:
            if s["k"] != "assign":
                continue
            lhs = s["lhs"]
            rv = s["rv"]
            tgt = lhs["l"] if not lhs.get("p") else None

            def src_of(o):
                """('L',) for the tracked local, ('T', rec) for a known temp, ('C', c) for a constant, None otherwise"""
                c = _const(o)
                if c is not None:
                    return ("C", c)
                if isinstance(o, dict) and "pl" in o:
                    pl = o["pl"]
                    if not pl.get("p"):
                        if pl["l"] == local:
                            return ("L",)
                        if pl["l"] in st.tmp:
                            return ("T", st.tmp[pl["l"]])
                    elif len(pl["p"]) == 1 and isinstance(pl["p"][0], dict) and pl["p"][0].get("n") == "0" and pl["l"] in st.tmp and st.tmp[pl["l"]][0] == "pair":
                        return ("T", ("set", st.tmp[pl["l"]][1]))
                return None

            def set_of(src):
                if src is None:
                    return None
                if src[0] == "L":
                    return st.vals
                if src[0] == "C":
                    return None
                rec = src[1]
                if rec[0] == "copy":
                    return st.vals
                if rec[0] == "set":
                    return rec[1]
                return None
            new = None
            if rv["k"] == "use":
                src = src_of(rv["op"])
                if src is not None and src[0] == "L":
                    new = ("copy",)
                elif src is not None and src[0] == "T":
                    new = src[1] if src[1][0] in ("copy", "set", "cmp") else None
                elif src is not None and src[0] == "C":
                    new = ("set", frozenset([src[1]]) if 0 <= src[1] <= 255 else FULL)
            elif rv["k"] == "cast":
                src = src_of(rv["op"])
                if src is not None and src[0] in ("L", "T") and set_of(src) is not None:
                    new = ("copy",) if (src[0] == "L" or src[1][0] == "copy") else ("set", set_of(src))
            elif rv["k"] == "binop":
                a, b = src_of(rv["a"]), src_of(rv["b"])
                op = rv["op"]
                base = op.replace("WithOverflow", "")
                var, cst, flipped = None, None, False
                if a is not None and b is not None and a[0] in ("L", "T") and b[0] == "C":
                    var, cst = a, b[1]
                elif a is not None and b is not None and b[0] in ("L", "T") and a[0] == "C":
                    var, cst, flipped = b, a[1], True
                if var is not None and set_of(var) is not None:
                    if base in ("Eq", "Ne", "Lt", "Le", "Gt", "Ge"):
                        # only meaningful while the compared value is the tracked local itself (or a copy of it)
                        if var[0] == "L" or var[1][0] == "copy":
                            new = ("cmp", base, cst, flipped)
                    elif base in ("Add", "Sub", "Mul"):
                        r = _arith(base, set_of(var), cst, flipped)
                        if r is not None:
                            new = ("pair", r) if op.endswith("WithOverflow") else ("set", r)
            if tgt is None:
                continue
            if tgt == local:
                # reassignment of the tracked local: copies and comparisons of its old value are no longer about it
                if new is not None and new[0] == "set":
                    st = State(new[1], {k: v for k, v in st.tmp.items() if v[0] in ("set", "pair")})
                elif new is not None and new[0] == "copy":
                    pass
                else:
                    st = State(FULL, {k: v for k, v in st.tmp.items() if v[0] in ("set", "pair")})
                continue
            if new is not None:
                st.tmp[tgt] = new
            else:
                st.tmp.pop(tgt, None)
        t = blk["term"]
        k = t["k"]
        if k == "call":
            d = t["dest"]
            if not d.get("p"):
                if d["l"] == local:
                    st = State(FULL, {})
                else:
                    st.tmp.pop(d["l"], None)
            # a `&mut` to the tracked local handed to the call: anything can happen to it
            for a in t["args"]:
                if isinstance(a, dict) and "pl" in a and a["pl"]["l"] in st.tmp and st.tmp[a["pl"]["l"]] == ("mutref",):
                    st = State(FULL, {})
        if k == "switch" and "pl" in t["discr"] and not t["discr"]["pl"].get("p"):
            dl = t["discr"]["pl"]["l"]
            rec = st.tmp.get(dl) if dl != local else ("copy",)
            succs = [(v, tg) for (v, tg) in t["targets"]] + [("otherwise", t["otherwise"])]
            listed = [v for (v, tg) in t["targets"]]
            for v, tg in succs:
                vals = st.vals
                if rec is not None and rec[0] == "cmp":
                    _, op, c, flipped = rec
                    if v == "otherwise":
                        vals = frozenset(x for x in st.vals if int(_cmp(op, x, c, flipped)) not in listed)
                    else:
                        vals = frozenset(x for x in st.vals if int(_cmp(op, x, c, flipped)) == v)
                elif rec is not None and rec[0] == "copy":
                    if v == "otherwise":
                        vals = frozenset(x for x in st.vals if x not in listed)
                    else:
                        vals = frozenset(x for x in st.vals if x == v)
                if vals and body.blocks[tg]["term"]["k"] != "unreachable":
                    dq.append((tg, State(vals)))
            continue
        if k == "assert":
            # checked arithmetic: the failing side panics; values were already restricted to the non-overflowing ones
            pass
        for sx in body.succ(bb):
            dq.append((sx, State(st.vals, st.tmp if k not in ("switch",) else {})))
    return seen
