"""C02 — make/unmake reversibility and three-view consistency: structural clauses
C02-UNDO, C02-HIST, C02-BOARD3, C02-EDITPAIR (DESIGN.md §3)."""
import itertools

from facts import norm, show, walk, strip_refs, is_call_to, callee_name, place_fields
import gh

EXPLANATION = (
    "Decides the structural clauses of C02, not the behaviour: (UNDO) every Game field that make_move / "
    "make_null_move can modify is also written by the matching undo; (HIST) every History field is saved from the "
    "pre-move value of the like-named Game field and every scalar field modified by make is restored from the popped "
    "History entry (plies / player by the inverse operation); (BOARD3) the three redundant board views are written "
    "only in Board::set_at / remove_at and always together for the same square; (EDITPAIR) for every feasible "
    "combination of move predicates the board edits of undo_move mirror those of make_move (remove<->set, same "
    "square class); (FORWARD) the forward rules' tables: which castling right is lost under which trigger, the four "
    "conditions of recording an en-passant target, the en-passant victim square, the piece placed on promotion, the "
    "halfmove-clock reset on capture or pawn move. Not decided: the remaining value semantics of the forward edit."
)

PAIRS = [("Game::make_move", "Game::undo_move"), ("Game::make_null_move", "Game::undo_null_move")]
INVERSE_RESTORED = {"plies", "player"}  # restored by the inverse operation, not from History
STRUCTURAL = {"board", "history"}  # restored by mirrored edits / pop


def run(fx, rep, tier):
    rule_undo(fx, rep)
    rule_hist(fx, rep)
    rule_board3(fx, rep)
    rule_editpair(fx, rep)
    rule_forward(fx, rep)
    rule_report(fx, rep)


def rule_report(fx, rep):
    """"Every observable aspect" of the position after a move is observed through the FEN writer (`d fen`, Game::to_fen): a
    writer that prints a right, the side, the target or a clock from the wrong field shows a position the engine does not
    hold. The writer-side clauses of C06 (letter tables, scalar fields) are re-reported here as a premise (seed C02-4a)."""
    import core
    import pC06
    sub = type(rep)(rep.prop, rep.tier)
    q = core.QUIET
    core.QUIET = True
    try:
        pC06.rule_tables(fx, sub)
        pC06.rule_fields(fx, sub)
    finally:
        core.QUIET = q
    for v in sub.violations:
        rep.violation("C02-REPORT", v["key"].replace("C06-", "C02-REPORT/"), v["msg"] + " (the reported position then differs from the one held)", v["site"])
    rep.obligations += sub.obligations
    rep.discharged += sub.discharged
    rep.rule("C02-REPORT", sub.obligations, 5, not sub.violations, "FEN writer tables and fields (shared with C06-TABLES / C06-FIELDS)")


# ---- C02-UNDO ------------------------------------------------------------------------------


def rule_undo(fx, rep):
    n = 0
    ok = True
    for mk, un in PAIRS:
        bm, bu = fx.one(mk), fx.one(un)
        wm = gh.game_fields_written(fx, bm)
        wu = gh.game_fields_written(fx, bu)
        n += len(wm)
        rep.sample({"rule": "C02-UNDO", "make": mk, "W_make": sorted(wm), "undo": un, "W_undo": sorted(wu)})
        for f in sorted(wm):
            good = f in wu
            rep.obligation(good)
            if not good:
                ok = False
                rep.violation("C02-UNDO", f"C02-UNDO/{un}/{f}",
                              f"`{mk}` can modify Game.{f} but `{un}` never writes it: the field is not restored on take-back",
                              {"fn": bu.name, "file": bu.file, "line": bu.line})
    rep.rule("C02-UNDO", n, 14, ok, "Game fields modified by make_* that undo_* must also write")


# ---- C02-HIST ------------------------------------------------------------------------------


def history_aggregates(body):
    out = []
    for bb, j, s in body.stmts():
        rv = s.get("rv")
        if s["k"] == "assign" and rv and rv["k"] == "agg" and rv.get("agg") == "adt" and norm(rv["adt"]) == gh.HISTORY:
            out.append((bb, j, s))
    return out


def history_save(fx, bm):
    """How `bm` (make_move / make_null_move) builds the History entry it pushes: returns
    (site, fields, line) where site = (bb, idx|None) is the point at which the Game fields are read and fields maps
    History field -> expression over `self`. The literal may be written in place or in a helper taking `&self`."""
    aggs = history_aggregates(bm)
    if len(aggs) == 1:
        bb, j, s = aggs[0]
        rv = s["rv"]
        return {"inplace": True, "bb": bb, "idx": j, "stmt": s,
                "fields": {f: (bm, op, bb) for f, op in zip(rv["fields"], rv["ops"])}, "line": s.get("line")}
    if len(aggs) == 0:
        for bb, t in bm.calls():
            cb = fx.body(callee_name(t) or "")
            if cb is None or not t["args"]:
                continue
            # a `&self` helper returning the History value, or a `&mut self` helper that builds and pushes it
            if norm(cb.name).startswith("chess::game::Game::") and "History" in t["dest"].get("t", "") or (cb is not None and "chess::game::History" in bm.local_ty(t["dest"]["l"])) or \
                    (norm(cb.name).startswith("chess::game::Game::") and cb is not bm and len(history_aggregates(cb)) == 1):
                a0 = strip_refs(bm.expr(t["args"][0], expand_named=True, at=bb))
                ha = history_aggregates(cb)
                if len(ha) == 1 and isinstance(a0, tuple) and a0[0] == "arg" and a0[1] == 1:
                    hb, hj, hs = ha[0]
                    rv = hs["rv"]
                    return {"inplace": False, "bb": bb, "idx": None, "stmt": hs, "helper": cb,
                            "fields": {f: (cb, op, hb) for f, op in zip(rv["fields"], rv["ops"])}, "line": t.get("line")}
    return None


def first_game_field_read(body, e):
    """Game field (of self) an expression reads, through clone/ref wrappers."""
    e = strip_refs(e)
    if isinstance(e, tuple) and e[0] == "field":
        base = strip_refs(e[1])
        if isinstance(base, tuple) and base[0] == "arg" and base[1] == 1:
            return e[2]
    return None


def rule_hist(fx, rep):
    n = 0
    ok = True
    game_fields = {f["name"] for f in fx.adt(gh.GAME)["variants"][0]["fields"]}
    for mk, un in PAIRS:
        bm, bu = fx.one(mk), fx.one(un)
        hs = history_save(fx, bm)
        if hs is None:
            rep.violation("C02-HIST", f"C02-HIST/{mk}/aggregate", f"cannot find the History entry `{mk}` pushes (neither a literal in place nor a `&self` helper building it)", {"fn": bm.name})
            ok = False
            continue
        saved = set()
        for fname, (hb, op, hbb) in hs["fields"].items():
            if fname not in game_fields:
                continue  # mv / captured: not mirrors of a Game field
            n += 1
            e = hb.expr(op, expand_named=True, at=hbb)
            src = first_game_field_read(hb, e)
            good = src == fname
            # the read must precede every write to that Game field
            if good:
                rd = read_site(bm, op) if hs["inplace"] else (hs["bb"], None)
                for (wb, wi, adt, fld, kind, place) in bm.field_writes():
                    if gh.self_game_field(place) == fname and not precedes(bm, rd, (wb, wi)):
                        good = False
                # calls that take &mut Game (set_at, remove_at, ...) may write the field as well
                for cb, t in bm.calls():
                    cn = callee_name(t)
                    tb = fx.body(cn) if cn else None
                    if tb is not None and any("pl" in a and bm.local_ty(a["pl"]["l"]) == "&mut chess::game::Game" for a in t["args"]):
                        if fname in gh.game_fields_written(fx, tb) and not precedes(bm, rd, (cb, None)):
                            good = False
            rep.obligation(good)
            saved.add(fname)
            if not good:
                ok = False
                rep.violation("C02-HIST", f"C02-HIST/{mk}/save/{fname}",
                              f"History.{fname} in `{mk}` is not initialised from the pre-move value of Game.{fname} (got `{show(e)}`)",
                              {"fn": bm.name, "file": bm.file, "line": hs["line"]})
        # restore side
        wm = gh.game_fields_written(fx, bm) - STRUCTURAL
        hist_local = popped_history_local(bu)
        for f in sorted(wm):
            n += 1
            if f in INVERSE_RESTORED:
                good, why = inverse_restored(bm, bu, f)
            else:
                good, why = restored_from_history(bu, f, hist_local)
                if good and f not in saved:
                    good, why = False, f"Game.{f} is restored from History but never saved there"
            rep.obligation(good)
            rep.sample({"rule": "C02-HIST", "undo": un, "field": f, "restored": why})
            if not good:
                ok = False
                rep.violation("C02-HIST", f"C02-HIST/{un}/restore/{f}",
                              f"`{mk}` modifies Game.{f} but `{un}` does not restore it on every path: {why}",
                              {"fn": bu.name, "file": bu.file, "line": bu.line})
    # "at any depth of nesting": the stack of saved states must not have a fixed capacity a legal game can exceed.
    # The longest game the rules allow (75-move rule) has 17697 plies, and the search nests up to 255 more.
    import re
    hty = next((f["ty"] for f in fx.adt(gh.GAME)["variants"][0]["fields"] if f["name"] == "history"), None)
    if hty is not None:
        m = re.search(r"ArrayVec<[^,]+, ([\w:]+)>|\[[^;\]]+; ([\w:]+)\]", hty)
        cap = None
        if m:
            cap = m.group(1) or m.group(2)
            if not cap.isdigit():
                try:
                    cap = fx.const(cap if "::" in cap else "game::" + cap).get("int")
                except Exception:
                    cap = None
            cap = int(cap) if cap is not None else None
            if cap is None:
                rep.notes.append(f"C02-HIST: capacity of `{hty}` could not be evaluated; nesting clause not decided")
        n += 1
        good = not (cap is not None and cap < 17697 + 256)
        rep.obligation(good)
        rep.sample({"rule": "C02-HIST", "history_type": hty})
        if not good:
            ok = False
            rep.violation("C02-HIST", "C02-HIST/capacity", f"Game.history is `{hty}`: the stack of saved states holds at most {cap} entries, so the move after that many plies (game moves plus search nesting) cannot be made - a legal game can last 17697 plies",
                          {"fn": "chess::game::Game", "file": fx.adt(gh.GAME).get("file"), "line": fx.adt(gh.GAME).get("line")})
    rep.rule("C02-HIST", n, 21, ok, "History saves (pre-move reads) and undo restores; unbounded nesting")


def body_expr(body, op):
    return body.expr(op, expand_named=True)


def read_site(body, op):
    """(bb, idx) of the statement that defines the operand's temporary (where the Game field is read)."""
    if "pl" not in op:
        return (0, -1)
    l = op["pl"]["l"]
    ds = body.defs().get(l, [])
    if len(ds) == 1:
        d = ds[0]
        if d[0] == "stmt":
            return (d[1], d[2])
        if d[0] == "call":
            return (d[1], None)
    return (0, -1)


def precedes(body, a, b):
    """Position a=(bb,idx) executes before b on every path reaching b (idx None = terminator)."""
    (ab, ai), (bb_, bi) = a, b
    if ab == bb_:
        if ai is None:
            return False
        return bi is None or ai < bi
    if ai is None:
        # the call's effect is complete in its successor
        return body.block_dominates(ab, bb_)
    return body.block_dominates(ab, bb_)


def popped_history_local(bu):
    """Local holding `self.history.pop().unwrap()`."""
    for bb, t in bu.calls():
        if is_call_to(t, "Option::unwrap"):
            e = bu.expr(t["args"][0], expand_named=True)
            if any(isinstance(x, tuple) and x and x[0] == "call" and isinstance(x[1], str) and x[1].endswith("Vec::pop") for x in walk(e)):
                return t["dest"]["l"]
    return None


def restored_from_history(bu, f, hist_local):
    if hist_local is None:
        return False, "no popped History entry found"
    sites = []
    for bb, j, s in bu.stmts():
        if s["k"] != "assign":
            continue
        lhs = s["lhs"]
        ps = lhs.get("p", [])
        if lhs["l"] == 1 and len(ps) == 2 and ps[0] == "*" and isinstance(ps[1], dict) and ps[1].get("n") == f \
                and norm(ps[1].get("adt", "")) == gh.GAME:
            e = strip_refs(bu.expr(s["rv"].get("op") or s["rv"].get("pl"), expand_named=False)) if s["rv"]["k"] in ("use",) else None
            src_ok = False
            if e is not None and isinstance(e, tuple) and e[0] == "field" and e[2] == f:
                base = e[1]
                if isinstance(base, tuple) and base[0] == "var" and base[2] == hist_local:
                    src_ok = True
            sites.append((bb, src_ok, show(e) if e else s["rv"]["k"]))
    if not sites:
        return False, "no assignment to the field"
    good_blocks = [bb for bb, okk, _ in sites if okk]
    if not good_blocks:
        return False, f"assigned from `{sites[0][2]}`, not from the popped History.{f}"
    if not bu.must_pass(0, good_blocks, bu.return_blocks()):
        return False, "the restoring assignment is not on every path to return"
    return True, f"self.{f} = history.{f} on every path"


def inverse_restored(bm, bu, f):
    if f == "plies":
        def delta(body):
            out = []
            for bb, j, s in body.stmts():
                if s["k"] == "assign" and s["lhs"]["l"] == 1 and gh.self_game_field(s["lhs"]) == "plies":
                    e = body.expr(s["rv"].get("op"), expand_named=True) if s["rv"]["k"] == "use" else None
                    # field(.0) of binop AddWithOverflow(self.plies, c)
                    for x in walk(e) if e else []:
                        if isinstance(x, tuple) and x[0] == "binop" and x[1] in ("AddWithOverflow", "SubWithOverflow", "Add", "Sub"):
                            c = x[3][1] if isinstance(x[3], tuple) and x[3][0] == "const" else None
                            out.append((bb, x[1][:3], c))
            return out
        dm, du = delta(bm), delta(bu)
        if len(dm) != 1 or len(du) != 1:
            return False, f"expected exactly one plies update each, got {dm} / {du}"
        if not (dm[0][1] == "Add" and du[0][1] == "Sub" and dm[0][2] == du[0][2] and dm[0][2] is not None):
            return False, f"plies updates are not inverse: make {dm[0][1:]} undo {du[0][1:]}"
        if not bm.must_pass(0, [dm[0][0]], bm.return_blocks()) or not bu.must_pass(0, [du[0][0]], bu.return_blocks()):
            return False, "plies update is conditional"
        return True, f"plies +{dm[0][2]} / -{du[0][2]} unconditionally"
    if f == "player":
        def flips(body):
            res = []
            for bb, j, s in body.stmts():
                if s["k"] == "assign" and s["lhs"]["l"] == 1 and gh.self_game_field(s["lhs"]) == "player" and len(s["lhs"]["p"]) == 2:
                    e = strip_refs(body.expr(s["rv"].get("op"), expand_named=True)) if s["rv"]["k"] == "use" else None
                    good = (isinstance(e, tuple) and e[0] == "call" and isinstance(e[1], str) and e[1].endswith("Player::other")
                            and first_game_field_read(body, e[2][0]) == "player")
                    res.append((bb, good, show(e) if e else "?"))
            return res
        for body in (bm, bu):
            fl = flips(body)
            if len(fl) != 1 or not fl[0][1]:
                return False, f"`{body.name}` does not set player = player.other() exactly once ({[x[2] for x in fl]})"
            if not body.must_pass(0, [fl[0][0]], body.return_blocks()):
                return False, "player flip is conditional"
        return True, "player = player.other() in both"
    return False, "unknown inverse field"


# ---- C02-BOARD3 ----------------------------------------------------------------------------

VIEWS = ("pieces", "colors", "squares")


def rule_board3(fx, rep):
    ok = True
    n = 0
    writers = {}
    for b in fx.fn_bodies():
        for (bb, idx, adt, fld, kind, place) in b.field_writes():
            if adt == gh.BOARD and fld in VIEWS:
                writers.setdefault(b.name, []).append((bb, idx, fld, kind, place))
    allowed = {fx.one("Board::set_at").name, fx.one("Board::remove_at").name}
    for w, sites in sorted(writers.items()):
        n += len(sites)
        if w not in allowed:
            ok = False
            b = fx.bodies[w]
            rep.obligation(False, len(sites))
            rep.violation("C02-BOARD3", f"C02-BOARD3/writer/{norm(w)}",
                          f"`{w}` writes Board.{sorted({s[2] for s in sites})} directly; only Board::set_at / remove_at may modify the three views",
                          {"fn": w, "file": b.file, "line": b.line_of(sites[0][0], sites[0][1])})
        else:
            rep.obligation(True, len(sites))
    # inside set_at / remove_at: every path that writes one view writes all three, for the same square
    for name in sorted(allowed):
        b = fx.bodies[name]
        sites = writers.get(name, [])
        by_view = {v: [s for s in sites if s[2] == v] for v in VIEWS}
        for v in VIEWS:
            n += 1
            good = bool(by_view[v])
            if good:
                # each view write must be passed on every path through any other view's write: check
                # pairwise: from any writing block, every path to return passes a write of view v (or came through one)
                vb = [s[0] for s in by_view[v]]
                for other in VIEWS:
                    for s in by_view[other]:
                        # either v's write dominates s, or every path from s to return passes v's write
                        if not (any(b.block_dominates(x, s[0]) for x in vb) or b.must_pass(s[0], vb, b.return_blocks())):
                            good = False
            rep.obligation(good)
            if not good:
                ok = False
                rep.violation("C02-BOARD3", f"C02-BOARD3/{norm(name)}/{v}",
                              f"`{name}` has a path that updates some board view without updating Board.{v}",
                              {"fn": name, "file": b.file, "line": b.line})
        # same square operand: square arg is arg 2; each view write must depend on it
        n += 1
        sq_ok = True
        for s in sites:
            place = s[4]
            deps = set()
            idx_locals = [p["idx"] for p in place.get("p", []) if isinstance(p, dict) and "idx" in p]
            if idx_locals:
                sl, _ = b.slice_back(idx_locals)
                deps |= sl
                if s[2] != "pieces" and 2 not in deps:
                    sq_ok = False
            # pieces[kind] ^= square.bb(): the rhs must depend on the square
            if s[3] == "assign" and s[1] is not None:
                st = b.blocks[s[0]]["stmts"][s[1]]
                rl = []
                for o in b.rvalue_operands(st["rv"]):
                    rl += b.operand_locals(o)
                sl, _ = b.slice_back(rl)
                if s[2] == "pieces" and 2 not in sl:
                    sq_ok = False
        # colors: set_inplace/unset_inplace(square)
        cc = [t for bb, t in b.calls() if is_call_to(t, "Bitboard::set_inplace", "Bitboard::unset_inplace")]
        for t in cc:
            sl, _ = b.slice_back(b.operand_locals(t["args"][1]))
            if 2 not in sl:
                sq_ok = False
        rep.obligation(sq_ok)
        if not sq_ok:
            ok = False
            rep.violation("C02-BOARD3", f"C02-BOARD3/{norm(name)}/square",
                          f"`{name}` updates a board view at a square not derived from its `square` parameter",
                          {"fn": name, "file": b.file, "line": b.line})
    rep.sample({"rule": "C02-BOARD3", "writers": {k: sorted({s[2] for s in v}) for k, v in writers.items()}})
    rep.rule("C02-BOARD3", n, 8, ok, "writers of Board.{pieces,colors,squares} and all-three-together")


# ---- C02-EDITPAIR --------------------------------------------------------------------------

FEASIBLE = [
    {}, {"castle": True}, {"ep": True}, {"promo": True}, {"capture": True}, {"promo": True, "capture": True},
]


def board_edits(fx, body, game_level):
    """[(kind 'set'|'remove', bb, cond, square_expr)] for edits of the game's board in `body`."""
    out = []
    for bb, t in body.calls():
        kind = None
        if game_level and is_call_to(t, "Game::set_at"):
            kind = "set"
        elif game_level and is_call_to(t, "Game::remove_at"):
            kind = "remove"
        elif is_call_to(t, "Board::set_at") or is_call_to(t, "Board::remove_at"):
            # only edits of self.board count
            e = body.expr(t["args"][0], expand_named=True)
            e = strip_refs(e)
            if isinstance(e, tuple) and e[0] == "field" and e[2] == "board":
                kind = "set" if is_call_to(t, "Board::set_at") else "remove"
        if kind:
            sq = body.expr(t["args"][1], expand_named=True)
            out.append((kind, bb, gh.edit_condition(body, bb), sq))
    return out


def consistent(cond, val, extras):
    for (cls, pol) in cond:
        if cls == "castle_sq":
            continue
        if isinstance(cls, tuple):
            want = extras.get(cls[1])
            if want is None or pol is None:
                return False
            if want != pol:
                return False
            continue
        if pol is None:
            return False
        if val.get(cls, False) != pol:
            return False
    return True


def rule_editpair(fx, rep):
    bm, bu = fx.one("Game::make_move"), fx.one("Game::undo_move")
    em = board_edits(fx, bm, True)
    eu = board_edits(fx, bu, False)
    ok = True
    n = 0
    extra_keys = sorted({cls[1] for ed in em + eu for (cls, pol) in ed[2] if isinstance(cls, tuple)})
    rep.sample({"rule": "C02-EDITPAIR", "make_edits": [(k, [str(c) for c in cond], show(sq)) for k, _, cond, sq in em],
                "undo_edits": [(k, [str(c) for c in cond], show(sq)) for k, _, cond, sq in eu]})
    for val in FEASIBLE:
        for bits in itertools.product([False, True], repeat=len(extra_keys)):
            extras = dict(zip(extra_keys, bits))
            n += 1
            cm = {"set": [], "remove": []}
            cu = {"set": [], "remove": []}
            for k, bb, cond, sq in em:
                if consistent(cond, val, extras):
                    cm[k].append(gh.square_class(sq))
            for k, bb, cond, sq in eu:
                if consistent(cond, val, extras):
                    cu[k].append(gh.square_class(sq))
            good = len(cm["set"]) == len(cu["remove"]) and len(cm["remove"]) == len(cu["set"])
            if good:
                good = match_classes(cm["set"], cu["remove"]) and match_classes(cm["remove"], cu["set"])
            rep.obligation(good)
            if not good:
                ok = False
                vname = "+".join(sorted(k for k, v in val.items() if v)) or "plain"
                rep.violation("C02-EDITPAIR", f"C02-EDITPAIR/{vname}",
                              f"for a {vname} move, undo_move's board edits do not mirror make_move's: make sets {fmt(cm['set'])} removes {fmt(cm['remove'])}; "
                              f"undo sets {fmt(cu['set'])} removes {fmt(cu['remove'])}",
                              {"fn": bu.name, "file": bu.file, "line": bu.line})
    # 13 edit sites on the pinned tree; the floor guards against a vacuous pass only (merging the two placements of a branch into one call lowers the count)
    rep.rule("C02-EDITPAIR", len(em) + len(eu), 9, ok, f"board edits mirrored under {n} feasible predicate valuations")


def fmt(cs):
    return [("?" if c is None else "+".join(sorted(c))) for c in cs]


def match_classes(a, b):
    """Multiset match where None (unknown class) matches anything."""
    b = list(b)
    unknown = 0
    for x in a:
        if x is None:
            unknown += 1
            continue
        if x in b:
            b.remove(x)
        elif None in b:
            b.remove(None)
        else:
            return False
    return True


# ---- C02-FORWARD ---------------------------------------------------------------------------


def rule_forward(fx, rep):
    """Structural clauses of the forward rules in make_move: castling-rights loss table, en-passant target
    conditions, promotion placement, en-passant victim square, halfmove-clock reset."""
    from facts import guard_conditions, cmp_op, deep_strip, find_calls
    ok = True
    n = 0
    bm = fx.one("Game::make_move")

    def bad(key, msg, line=None):
        nonlocal ok
        ok = False
        rep.violation("C02-FORWARD", f"C02-FORWARD/{key}", msg, {"fn": bm.name, "file": bm.file, "line": line or bm.line})

    def is_mover(e):
        e = deep_strip(e)
        return isinstance(e, tuple) and e[0] == "field" and e[2] == "player" and e[1] == ("arg", 1, "self")

    def is_other(e):
        e = deep_strip(e)
        return isinstance(e, tuple) and e[0] == "call" and e[1].endswith("Player::other") and is_mover(e[2][0])

    def sq_kind(e):
        e = deep_strip(e)
        if isinstance(e, tuple) and e[0] == "call" and e[1].endswith("Move::src"):
            return "from"
        if isinstance(e, tuple) and e[0] == "call" and e[1].endswith("Move::dst"):
            return "to"
        return None

    # (a) castling rights loss table
    found = set()
    from facts import decision_paths as _dp, substitute_args as _sa
    vsites = []
    for bb, t in bm.calls_to("Game::try_remove_castle_rights"):
        who = "mover" if is_mover(bm.expr(t["args"][1], expand_named=True, at=bb)) else ("other" if is_other(bm.expr(t["args"][1], expand_named=True, at=bb)) else None)
        side_e = deep_strip(bm.expr(t["args"][2], expand_named=True, at=bb))
        gconds = [(e, pol) for (e, pol, w) in guard_conditions(bm, bb, expand_named=True)]
        if isinstance(side_e, tuple) and side_e[0] == "agg":
            vsites.append((t, who, str(side_e[1]).split("::")[-1], gconds))
            continue
        # the side comes out of a helper `fn(player, square) -> Option<CastleRightsSide>`: one virtual site per `Some(side)`
        # path of the helper, guarded by that path's conditions (with the call's arguments substituted)
        hc = side_e[1][1] if isinstance(side_e, tuple) and side_e[0] == "field" and isinstance(side_e[1], tuple) and side_e[1][0] == "as" and side_e[1][2] == "Some" else None
        hc = deep_strip(hc) if hc is not None else None
        hb = fx.body(hc[1]) if isinstance(hc, tuple) and hc and hc[0] == "call" and isinstance(hc[1], str) else None
        expanded = False
        if hb is not None and "CastleRightsSide" in (hb.local_ty(0) or ""):
            for conds, ret, _rb in _dp(hb, 64):
                r = deep_strip(ret) if ret is not None else None
                if isinstance(r, tuple) and r[0] == "agg" and str(r[1]).endswith("Option::Some") and r[2] and isinstance(deep_strip(r[2][0]), tuple) and deep_strip(r[2][0])[0] == "agg":
                    hconds = [(_sa(e, hc[2]), True) for (e, v) in conds if (isinstance(v, int) and v != 0) or (isinstance(v, tuple) and v[0] == "otherwise" and 0 in v[1])]
                    own = [(e, pol) for (e, pol) in gconds if not find_calls(e, hb.name)]
                    vsites.append((t, who, str(deep_strip(r[2][0])[1]).split("::")[-1], own + hconds))
                    expanded = True
        if not expanded:
            vsites.append((t, who, None, gconds))
    for (t, who, side, gconds) in vsites:
        n += 1
        trig = None
        extra = []
        for (e, pol) in gconds:
            txt = show(e)
            known = ("PieceKind::King" in txt or "PieceKind::Rook" in txt) and "kind" in txt and cmp_op(e) is not None
            known = known or (cmp_op(e) is not None and cmp_op(e)[0] == "Eq" and any(k in txt for k in ("squares::king_start", "squares::kingside_rook_start", "squares::queenside_rook_start")) and
                              len(find_calls(e, "squares::king_start", "squares::kingside_rook_start", "squares::queenside_rook_start")) == 1 and not find_calls(e, "Not>::not"))
            known = known or (isinstance(e, tuple) and e[0] == "is_some" and bool(find_calls(e, "Board::piece_at")))
            if not known:
                extra.append(txt[:80])
            co = cmp_op(e)
            if not co or co[0] != "Eq" or pol is not True:
                continue
            a, b = deep_strip(co[1]), deep_strip(co[2])
            for x, y in ((a, b), (b, a)):
                if sq_kind(x) and isinstance(y, tuple) and y[0] == "call" and y[1].split("::")[-1] in ("king_start", "kingside_rook_start", "queenside_rook_start"):
                    owner = "mover" if is_mover(y[2][0]) else ("other" if is_other(y[2][0]) else None)
                    trig = (sq_kind(x), y[1].split("::")[-1], owner)
        good = False
        if trig and who and side:
            sqk, start, owner = trig
            good = owner == who and ((who == "mover" and sqk == "from") or (who == "other" and sqk == "to")) and \
                (start == "king_start" or (start == "kingside_rook_start" and side == "Kingside") or (start == "queenside_rook_start" and side == "Queenside")) and \
                not (start == "king_start" and who == "other") and not extra
            if good:
                found.add((who, side, start))
        rep.obligation(good)
        if not good:
            bad(f"rights/{who}/{side}", f"make_move line {t.get('line')}: the {side} right of the {who} is removed under trigger {trig}" + (f" and extra condition(s) {extra}" if extra else "") + "; expected: mover's king leaves its start square (both sides), a rook leaves / is captured on that side's corner", t.get("line"))
    want = {("mover", "Kingside", "king_start"), ("mover", "Queenside", "king_start"), ("mover", "Kingside", "kingside_rook_start"), ("mover", "Queenside", "queenside_rook_start"),
            ("other", "Kingside", "kingside_rook_start"), ("other", "Queenside", "queenside_rook_start")}
    n += 1
    good = found == want
    rep.obligation(good)
    rep.sample({"rule": "C02-FORWARD", "rights_loss_table": sorted(map(list, found))})
    if not good:
        bad("rights/table", f"castling-rights loss table is {sorted(found)}; missing {sorted(want - found)}")
    # the king/rook tests look at the moved piece's kind
    # (b) en-passant target: Some(from.forward(player)) only for a pawn double push from its start rank next to an enemy pawn.
    # The computation may live in make_move itself or in a `&self` helper it calls; if it is in neither recognisable
    # form the clause is not decided (no alarm).
    from facts import decision_paths
    n += 1

    def need_from(txts):
        return {
            "pawn": any("PieceKind::Pawn" in t for t in txts),
            "start-rank": any("pawn_back_rank" in t for t in txts),
            "double-push-rank": any("pawn_double_push_rank" in t for t in txts),
            # an enemy pawn on a square next to the destination - or, equivalently, among the squares from which a pawn attacks
            # the skipped square
            "enemy-pawn-beside": any("Board::pawns" in t and "Player::other" in t and ("Bitboard::west" in t or "Bitboard::east" in t or "pawn_attacks" in t) for t in txts),
        }

    def extra_factors(exprs):
        """factors of the enemy-pawn-beside intersection other than the neighbour squares and the enemy's pawns: each one is an
        additional condition under which a capturable double push is *not* recorded (e.g. `& !pins`: a pawn pinned on the
        capture diagonal can still take en passant)"""
        out = []
        for e in exprs:
            d = deep_strip(e)
            if not (isinstance(d, tuple) and d and d[0] == "call" and str(d[1]).split("::")[-1] in ("any", "is_empty") and d[2]):
                continue
            txt = show(d)
            if not ("Board::pawns" in txt and "Player::other" in txt and ("Bitboard::west" in txt or "Bitboard::east" in txt or "pawn_attacks" in txt)):
                continue
            fac = []

            def flat(x):
                x = deep_strip(x)
                if isinstance(x, tuple) and x and x[0] == "call" and str(x[1]).endswith("BitAnd>::bitand") and len(x[2]) == 2:
                    flat(x[2][0])
                    flat(x[2][1])
                else:
                    fac.append(x)
            flat(d[2][0])
            for f in fac:
                t = show(f)
                nb = "Bitboard::west" in t or "Bitboard::east" in t or "pawn_attacks" in t
                pw = "Board::pawns" in t and "Player::other" in t
                if not (nb or pw):
                    out.append(t[:100])
        return out

    def expand_true(conds):
        """conditions known true, with two indirections undone: a named `bool` local built by `&&` (its non-false definitions with
        the conditions they sit under) and a call of a small in-crate `bool` helper (its true-returning paths, arguments substituted)"""
        from facts import substitute_args
        out = []
        for (e, pol, w) in conds:
            out.append((e, pol, w))
            wb = w[0] if isinstance(w, tuple) else w
            if pol is not True or not isinstance(wb, int):
                continue
            t = bm.blocks[wb]["term"]
            if t["k"] != "switch" or "pl" not in t["discr"] or t["discr"]["pl"].get("p"):
                continue
            dl = t["discr"]["pl"]["l"]
            # follow a plain copy to the named local
            for _hop in range(3):
                ds = bm.defs().get(dl, [])
                if len(ds) == 1 and ds[0][0] == "stmt" and ds[0][3]["rv"]["k"] == "use" and "pl" in ds[0][3]["rv"]["op"] and not ds[0][3]["rv"]["op"]["pl"].get("p"):
                    dl = ds[0][3]["rv"]["op"]["pl"]["l"]
                else:
                    break
            ds = bm.defs().get(dl, [])
            if len(ds) > 1 and bm.local_ty(dl) == "bool":
                for d in ds:
                    if d[0] == "stmt" and d[3]["rv"]["k"] == "use":
                        ve = bm.expr(d[3]["rv"]["op"], expand_named=True, at=d[1])
                        if deep_strip(ve) in (("const", 0), ("const", False)):
                            continue
                        out.append((ve, True, d[1]))
                        out.extend(x for x in guard_conditions(bm, d[1], expand_named=True) if x[1] is True)
                    elif d[0] == "call":
                        out.append((("call", norm(callee_name(d[2]) or ""), tuple(bm.expr(a, expand_named=True, at=d[1]) for a in d[2]["args"])), True, d[1]))
                        out.extend(x for x in guard_conditions(bm, d[1], expand_named=True) if x[1] is True)
        more = []
        for (e, pol, w) in out:
            d = deep_strip(e)
            if pol is True and isinstance(d, tuple) and d and d[0] == "call" and isinstance(d[1], str):
                cb = fx.body(d[1])
                if cb is not None and cb.kind in ("Fn", "AssocFn") and cb.n <= 30 and cb.local_ty(0) == "bool" and norm(cb.name).startswith("chess::game::"):
                    for pc, ret, rb in decision_paths(cb, 32):
                        if ret is None or deep_strip(ret) in (("const", 0), ("const", False)):
                            continue
                        more.append((substitute_args(ret, d[2]), True, w))
                        more.extend((substitute_args(ce, d[2]), True, w) for (ce, val) in pc if (isinstance(val, int) and val != 0) or (isinstance(val, tuple) and 0 in val[1]))
        return out + more

    verdict = None  # (good, why)
    for bb, j, s in bm.stmts():
        rv = s.get("rv")
        if s["k"] == "assign" and rv and rv["k"] == "agg" and rv.get("variant") == "Some" and "Square" in rv.get("ty", ""):
            v = deep_strip(bm.expr(rv["ops"][0], expand_named=True, at=bb))
            if isinstance(v, tuple) and v[0] == "call" and v[1].endswith("Square::forward") and sq_kind(v[2][0]) == "from" and is_mover(v[2][1]):
                conds = expand_true(guard_conditions(bm, bb, expand_named=True))
                need = need_from([show(e) for (e, pol, w) in conds if pol is True])
                verdict = (all(need.values()), f"conditions present: {need}")
                xf = extra_factors([e for (e, pol, w) in conds if pol is True])
                if verdict[0] and xf:
                    verdict = (False, f"the enemy pawns beside the pushed pawn are further restricted by `{xf[0]}`: a capturable double push is then not recorded")
    if verdict is None:
        # `cond.then_some(from.forward(player))`
        for bb, t in bm.calls():
            if norm(callee_name(t) or "").endswith("bool::then_some") and len(t["args"]) == 2:
                v = deep_strip(bm.expr(t["args"][1], expand_named=True, at=bb))
                if isinstance(v, tuple) and v[0] == "call" and v[1].endswith("Square::forward") and sq_kind(v[2][0]) == "from" and is_mover(v[2][1]):
                    conds = guard_conditions(bm, bb, expand_named=True)
                    need = need_from([show(e) for (e, pol, w) in conds if pol is True] + [show(bm.expr(t["args"][0], expand_named=True, at=bb))])
                    verdict = (all(need.values()), f"conditions present: {need}")
    if verdict is None:
        for cb_bb, t in bm.calls():
            cb = fx.body(callee_name(t) or "")
            if cb is None or not norm(cb.name).startswith("chess::game::Game::") or cb.n > 60:
                continue
            if "Option<chess::square::Square>" not in bm.local_ty(t["dest"]["l"]):
                continue
            for conds, ret, rb in decision_paths(cb):
                r = deep_strip(ret) if ret is not None else None
                if isinstance(r, tuple) and r[0] == "agg" and str(r[1]).endswith("Option::Some") and r[2]:
                    v = deep_strip(r[2][0])
                    if isinstance(v, tuple) and v[0] == "call" and v[1].endswith("Square::forward"):
                        taken_true = [show(e) for (e, val) in conds if (isinstance(val, int) and val != 0) or (isinstance(val, tuple) and 0 in val[1])]
                        # `if set.is_empty() { return None }` on the way to Some: the same condition, stated negatively
                        taken_true += [show(e) for (e, val) in conds if val == 0 and isinstance(deep_strip(e), tuple) and deep_strip(e)[0] == "call" and
                                       str(deep_strip(e)[1]).endswith("Bitboard::is_empty")]
                        need = need_from(taken_true)
                        verdict = (all(need.values()) if verdict is None else (verdict[0] and all(need.values())), f"in `{cb.name}`: {need}")
    if verdict is None:
        rep.notes.append("C02-FORWARD: en-passant target computation not found in a recognisable form; clause not decided")
    else:
        good, why = verdict
        rep.obligation(good)
        if not good:
            bad("ep-target", f"the en-passant target is recorded without all of its conditions (pawn, from its start rank, to the double-push rank, enemy pawn beside): {why}")
    # the victim of an en-passant capture is the pawn behind the destination
    n += 1
    good = False
    for bb, t in bm.calls_to("Game::remove_at"):
        sq = deep_strip(bm.expr(t["args"][1], expand_named=True, at=bb))
        if isinstance(sq, tuple) and sq[0] == "call" and sq[1].endswith("Square::backward"):
            conds = [(show(e), pol) for (e, pol, w) in guard_conditions(bm, bb, expand_named=True)]
            good = sq_kind(sq[2][0]) == "to" and is_mover(sq[2][1]) and any("Move::is_en_passant" in t_ and pol is True for t_, pol in conds)
    rep.obligation(good)
    if not good:
        bad("ep-victim", "the pawn removed by an en-passant capture is not the one on `to.backward(player)` under `mv.is_en_passant()`")
    # (d) promotion: the piece placed is Piece::new(player, promoted_to.piece()), otherwise the piece lifted from `from`
    n += 1
    placed = {}
    for bb, t in bm.calls_to("Game::set_at"):
        sq = bm.expr(t["args"][1], expand_named=True, at=bb)
        if sq_kind(sq) != "to":
            continue
        # the placed value may be chosen by a preceding match: look at every definition reaching the call
        op = t["args"][2]
        cands = []
        l = op["pl"]["l"] if "pl" in op and not op["pl"].get("p") else None
        seen_l = set()
        while l is not None and l not in seen_l:
            seen_l.add(l)
            ds = bm.reaching_defs(l, bb)
            if len(ds) == 1 and ds[0][0] == "stmt" and ds[0][3]["rv"]["k"] == "use" and "pl" in ds[0][3]["rv"]["op"] and not ds[0][3]["rv"]["op"]["pl"].get("p") \
                    and len(bm.defs().get(ds[0][3]["rv"]["op"]["pl"]["l"], [])) > 1:
                l = ds[0][3]["rv"]["op"]["pl"]["l"]
                continue
            if len(ds) > 1:
                for d in ds:
                    if d[0] == "stmt" and d[3]["rv"]["k"] == "use":
                        cands.append((deep_strip(bm.expr(d[3]["rv"]["op"], expand_named=True, at=d[1])), gh.edit_condition(bm, d[1])))
                    elif d[0] == "call":
                        cands.append((deep_strip(("call", norm(callee_name(d[2]) or ""), tuple(bm.expr(a, expand_named=True, at=d[1]) for a in d[2]["args"]))), gh.edit_condition(bm, d[1])))
            break
        if not cands:
            cands = [(deep_strip(bm.expr(op, expand_named=True, at=bb)), gh.edit_condition(bm, bb))]
        for pc, cond in cands:
            key = "promo" if ("promo", True) in cond else ("plain" if ("promo", False) in cond else "?")
            placed[key] = pc
    pp, pl = placed.get("promo"), placed.get("plain")
    good = isinstance(pp, tuple) and pp[0] == "call" and pp[1].endswith("Piece::new") and is_mover(pp[2][0]) and bool(find_calls(pp[2][1], "PromotionPieceKind::piece")) and \
        bool(find_calls(pp[2][1], "Move::promotion")) and isinstance(pl, tuple) and pl[0] == "call" and pl[1].endswith("Game::remove_at") and sq_kind(pl[2][1]) == "from"
    if not good and pp is None and pl is None and "?" in placed:
        # one unconditional set_at whose value is chosen by an Option combinator on mv.promotion(), or by something this
        # rule does not model: decided only for the combinator form
        u = placed["?"]
        mo = [c for c in find_calls(u, "Option<T>::map_or", "Option<T>::map_or_else", "Option<T>::map") if find_calls(c[2][0], "Move::promotion")]
        decided = False
        if mo and mo[0][1].endswith("map_or") and len(mo[0][2]) == 3:
            dflt = deep_strip(mo[0][2][1])
            clos = [x for x in walk(mo[0][2][2]) if isinstance(x, tuple) and x and x[0] == "agg" and str(x[1]).startswith("closure:")]
            cb = fx.bodies.get(clos[0][1][len("closure:"):]) if clos else None
            if cb is not None and isinstance(dflt, tuple) and dflt[0] == "call":
                decided = True
                good = dflt[1].endswith("Game::remove_at") and sq_kind(dflt[2][1]) == "from" and bool(cb.calls_to("Piece::new")) and bool(cb.calls_to("PromotionPieceKind::piece"))
                pp, pl = "closure", dflt
        if not decided:
            rep.notes.append("C02-FORWARD: the piece placed on the destination is chosen in a form this rule does not model; placement clause not decided")
            good = True
    rep.obligation(good)
    if not good:
        bad("placement", f"the piece placed on the destination is promo `{show(pp)[:80] if pp else None}` / plain `{show(pl)[:80] if pl else None}`; expected Piece::new(player, promotion.piece()) / the piece lifted from `from`")
    # (c) halfmove clock: reset to 0 exactly on capture or pawn move, else +1
    n += 1
    zero = [(bb, s) for bb, j, s in bm.stmts() if s["k"] == "assign" and gh.self_game_field(s["lhs"]) == "halfmove_clock" and s["lhs"]["l"] == 1 and
            s["rv"]["k"] == "use" and s["rv"]["op"].get("int") == 0]
    good = len(zero) == 1
    if good:
        zb = zero[0][0]
        # the flag deciding the reset: its definitions are `true` under is_some(captured) and `kind == Pawn` otherwise
        conds = guard_conditions(bm, zb, expand_named=False)
        flag = None
        for (e, pol, w) in conds:
            d = deep_strip(e)
            if isinstance(d, tuple) and d[0] in ("var", "tmp") and pol is True:
                flag = d[-1]
        good = flag is not None
        if good:
            defs = bm.defs().get(flag, [])
            kinds = set()
            for d in defs:
                if d[0] == "stmt" and d[3]["rv"]["k"] == "use" and d[3]["rv"]["op"].get("int") == 1:
                    g = [(show(e), pol) for (e, pol, w) in guard_conditions(bm, d[1], expand_named=True)]
                    if any("Board::piece_at" in t_ and "Move::dst" in t_ and pol is True for t_, pol in g):
                        kinds.add("capture")
                elif d[0] == "call":
                    ce = ("call", norm(callee_name(d[2]) or ""), tuple(bm.expr(a, expand_named=True, at=d[1]) for a in d[2]["args"]))
                    co = cmp_op(ce)
                    if co and co[0] == "Eq":
                        x, y = deep_strip(co[1]), deep_strip(co[2])
                        for p_, q_ in ((x, y), (y, x)):
                            if isinstance(q_, tuple) and q_[0] == "agg" and str(q_[1]).endswith("PieceKind::Pawn") and isinstance(p_, tuple) and p_[0] == "field" and p_[2] == "kind":
                                src = deep_strip(p_[1])
                                # the piece tested is the one lifted from the source square itself, not a value derived from it
                                # (e.g. replaced by the promoted piece)
                                if isinstance(src, tuple) and src[0] == "call" and src[1].endswith("Game::remove_at") and sq_kind(src[2][1]) == "from":
                                    kinds.add("pawn")
            good = kinds == {"capture", "pawn"}
    rep.obligation(good)
    if not good:
        bad("clock", "the halfmove clock is not reset to 0 exactly when the move captures or moves a pawn")
    # (e) the clock (and the move counter, the side to move, the e.p. target) is updated in ONE place per move: no second function
    # on make_move's call cone writes the same field (a helper that also touches the clock makes the two updates compose wrongly)
    cone = fx.cone([bm.name])
    for fld in ("halfmove_clock", "plies", "player", "en_passant_target"):
        n += 1
        writers = sorted({norm(b2.name) for nm2 in cone for b2 in [fx.bodies[nm2]] if b2.kind in ("Fn", "AssocFn") and
                          any(adt == gh.GAME and f2 == fld for (wb, wi, adt, f2, kind, place) in b2.field_writes())})
        good = len(writers) <= 1
        rep.obligation(good)
        if not good:
            bad(f"single-writer/{fld}", f"Game.{fld} is written by more than one function while a move is made: {writers}; the updates compose (e.g. a reset in a helper followed by make_move's own increment)")
    rep.rule("C02-FORWARD", n, 11, ok, "forward rules: rights loss table, e.p. target / victim, promotion placement, clock reset")


G = "src/chess/game.rs"
MUTANTS = [
    {"name": "pinned enemy pawns do not count as en-passant capturers (seed C02-7a)", "expect": "C02-FORWARD/ep-target",
     "edits": [("src/chess/game.rs", "            let en_passant_can_happen = (en_passant_attacker_squares & enemy_pawns).any();", "            let enemy_king = self.board.king(other_player).single();\n            let (orthogonal_pins, diagonal_pins) = crate::chess::movegen::get_pins(&self.board, other_player, enemy_king);\n            let en_passant_can_happen = (en_passant_attacker_squares & enemy_pawns & !(orthogonal_pins | diagonal_pins)).any();"),
               ("src/chess/movegen/mod.rs", "pub use attackers::{all_attackers_of, generate_attackers_of};", "pub use attackers::{all_attackers_of, generate_attackers_of};\npub use pins::get_pins;")]},
    {"name": "en-passant target recorded when any enemy piece attacks the skipped square (seed C02-6b)", "expect": "C02-FORWARD/ep-target",
     "edits": [("src/chess/game.rs", "            let to_bb = to.bb();\n            let en_passant_attacker_squares = to_bb.west() | to_bb.east();\n            let enemy_pawns = self.board.pawns(other_player);\n            let en_passant_can_happen = (en_passant_attacker_squares & enemy_pawns).any();\n\n            if en_passant_can_happen {\n                Some(from.forward(player))\n            } else {\n                None\n            }",
                "            let skipped_square = from.forward(player);\n            let en_passant_can_happen = crate::chess::movegen::generate_attackers_of(&self.board, player, skipped_square).any();\n            en_passant_can_happen.then_some(skipped_square)")]},
    {"name": "benign: en-passant target via then_some and the pawn attack pattern of the skipped square", "benign": True,
     "edits": [("src/chess/game.rs", "            let to_bb = to.bb();\n            let en_passant_attacker_squares = to_bb.west() | to_bb.east();\n            let enemy_pawns = self.board.pawns(other_player);\n            let en_passant_can_happen = (en_passant_attacker_squares & enemy_pawns).any();\n\n            if en_passant_can_happen {\n                Some(from.forward(player))\n            } else {\n                None\n            }",
                "            let skipped_square = from.forward(player);\n            let en_passant_can_happen = (crate::chess::movegen::tables::pawn_attacks(skipped_square, player) & self.board.pawns(other_player)).any();\n            en_passant_can_happen.then_some(skipped_square)")]},
    {"name": "saved-state stack with a fixed capacity of 1024 (seed C02-5a)", "expect": "C02-HIST/capacity",
     "edits": [("src/chess/game.rs", "use crate::engine::eval::IncrementalEvalFields;\n", "use crate::engine::eval::IncrementalEvalFields;\nuse arrayvec::ArrayVec;\n"),
               ("src/chess/game.rs", "    pub history: Vec<History>,", "    pub history: ArrayVec<History, 1024>,"),
               ("src/chess/game.rs", "            history: Vec::new(),", "            history: ArrayVec::new(),")]},
    {"name": "losing a castling right also resets the halfmove clock (seed C02-4b)", "expect": "C02-FORWARD/single-writer/halfmove_clock",
     "edits": [("src/chess/game.rs", "        castle_rights.remove_rights(castle_rights_side);\n", "        castle_rights.remove_rights(castle_rights_side);\n        self.halfmove_clock = 0;\n")]},
    {"name": "benign: destination piece chosen with map_or, clock still tested on the lifted piece", "benign": True,
     "edits": [("src/chess/game.rs", "        if let Some(promoted_to) = mv.promotion() {\n            let promoted_piece = Piece::new(player, promoted_to.piece());\n            self.set_at(to, promoted_piece);\n        } else {\n            self.set_at(to, moved_piece);\n        }",
                "        let placed_piece = mv.promotion().map_or(moved_piece, |promoted_to| Piece::new(player, promoted_to.piece()));\n        self.set_at(to, placed_piece);")]},
    {"name": "destination piece shadows moved_piece before the clock test (seeds C11-3 / C17-3)", "expect": "C02-FORWARD/clock",
     "edits": [("src/chess/game.rs", "        if let Some(promoted_to) = mv.promotion() {\n            let promoted_piece = Piece::new(player, promoted_to.piece());\n            self.set_at(to, promoted_piece);\n        } else {\n            self.set_at(to, moved_piece);\n        }",
                "        let moved_piece = mv.promotion().map_or(moved_piece, |promoted_to| Piece::new(player, promoted_to.piece()));\n        self.set_at(to, moved_piece);")]},
    {"name": "capturing the queenside rook removes the kingside right", "expect": "C02-FORWARD/rights",
     "edits": [(G, "            } else if to == squares::queenside_rook_start(other_player) {\n                self.try_remove_castle_rights(other_player, CastleRightsSide::Queenside);", "            } else if to == squares::queenside_rook_start(other_player) {\n                self.try_remove_castle_rights(other_player, CastleRightsSide::Kingside);")]},
    {"name": "rook moving from its corner does not lose the right", "expect": "C02-FORWARD/rights",
     "edits": [(G, "            if from == squares::kingside_rook_start(player) {\n                self.try_remove_castle_rights(player, CastleRightsSide::Kingside);\n            } else if", "            if from == squares::kingside_rook_start(player) && to != squares::king_start(player) {\n                self.try_remove_castle_rights(player, CastleRightsSide::Kingside);\n            } else if")]},
    {"name": "en-passant target recorded without an enemy pawn beside", "expect": "C02-FORWARD/ep-target",
     "edits": [(G, "            if en_passant_can_happen {\n                Some(from.forward(player))\n            } else {\n                None\n            }", "            let _ = en_passant_can_happen;\n            Some(from.forward(player))")]},
    {"name": "promotion places a pawn of the promoted kind's colour swapped", "expect": "C02-FORWARD/placement",
     "edits": [(G, "            let promoted_piece = Piece::new(player, promoted_to.piece());", "            let promoted_piece = Piece::new(other_player, promoted_to.piece());")]},
    {"name": "benign: placed piece chosen by a match, single set_at", "benign": True,
     "edits": [(G, "        if let Some(promoted_to) = mv.promotion() {\n            let promoted_piece = Piece::new(player, promoted_to.piece());\n            self.set_at(to, promoted_piece);\n        } else {\n            self.set_at(to, moved_piece);\n        }",
                "        let placed_piece = match mv.promotion() {\n            Some(promoted_to) => Piece::new(player, promoted_to.piece()),\n            None => moved_piece,\n        };\n\n        self.set_at(to, placed_piece);")]},
    {"name": "clock not reset on pawn moves", "expect": "C02-FORWARD/clock",
     "edits": [(G, "            maybe_captured_piece.is_some() || moved_piece.kind == PieceKind::Pawn;", "            maybe_captured_piece.is_some() || moved_piece.kind == PieceKind::King;")]},
    {"name": "undo_move forgets halfmove_clock", "expect": "C02-",
     "edits": [(G, "        self.halfmove_clock = history.halfmove_clock;\n        self.castle_rights", "        self.castle_rights")]},
    {"name": "undo_null_move forgets en_passant_target", "expect": "C02-",
     "edits": [(G, "        self.en_passant_target = history.en_passant_target;\n        self.halfmove_clock = history.halfmove_clock;\n        self.incremental_eval", "        self.halfmove_clock = history.halfmove_clock;\n        self.incremental_eval")]},
    {"name": "history saves clock after update", "expect": "C02-HIST",
     "edits": [(G, "        let maybe_captured_piece = self.board.piece_at(to);\n", "        let maybe_captured_piece = self.board.piece_at(to);\n        self.halfmove_clock += 1;\n"),
               (G, "        if should_reset_halfmove_clock {\n            self.halfmove_clock = 0;\n        } else {\n            self.halfmove_clock += 1;\n        }", "        if should_reset_halfmove_clock {\n            self.halfmove_clock = 0;\n        }")]},
    {"name": "undo restores castle rights only for castling moves", "expect": "C02-HIST",
     "edits": [(G, "        self.castle_rights = history.castle_rights;\n", "        if mv.is_castling() {\n            self.castle_rights = history.castle_rights;\n        }\n")]},
    {"name": "undo_move does not put back en-passant victim", "expect": "C02-EDITPAIR",
     "edits": [(G, "            self.board\n                .set_at(capture_square, Piece::new(other_player, PieceKind::Pawn));\n", "            let _ = capture_square;\n")]},
    {"name": "undo puts en-passant victim on wrong square", "expect": "C02-EDITPAIR",
     "edits": [(G, "            let capture_square = to.backward(player);\n\n            self.board", "            let capture_square = to.forward(player);\n\n            self.board")]},
    {"name": "remove_at forgets the by-square view", "expect": "C02-BOARD3",
     "edits": [("src/chess/board.rs", "        self.squares[square.array_idx()] = None;\n        true", "        true")]},
    {"name": "new helper writes one view only", "expect": "C02-BOARD3",
     "edits": [("src/chess/board.rs", "    pub fn king_in_check(&self", "    pub fn clear_square_fast(&mut self, square: Square) {\n        self.squares[square.array_idx()] = None;\n    }\n\n    pub fn king_in_check(&self"),
               (G, "        self.plies -= 1;\n        self.player = player;", "        self.plies -= 1;\n        if false { self.board.clear_square_fast(from); }\n        self.player = player;")]},
    {"name": "null move does not flip back player", "expect": "C02-",
     "edits": [(G, "        self.plies -= 1;\n        self.player = self.player.other();\n        self.zobrist = history.zobrist;\n        self.en_passant_target", "        self.plies -= 1;\n        self.zobrist = history.zobrist;\n        self.en_passant_target")]},
    # benign edits: must stay silent
    {"name": "benign: rename locals and reorder restores", "benign": True,
     "edits": [(G, "        self.zobrist = history.zobrist;\n        self.halfmove_clock = history.halfmove_clock;\n        self.castle_rights = history.castle_rights;",
                "        self.castle_rights = history.castle_rights;\n        self.halfmove_clock = history.halfmove_clock;\n        self.zobrist = history.zobrist;")]},
    {"name": "benign: extract helper for restoring scalars", "benign": True,
     "edits": [(G, "        let moved_piece = self.board.piece_at(to).unwrap();\n        self.board.remove_at(to);", "        let lifted = self.board.piece_at(to).unwrap();\n        let moved_piece = lifted;\n        self.board.remove_at(to);")]},
]
