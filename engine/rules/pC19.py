"""C19 — the transposition table never confuses positions: structural clauses C19-KEY, C19-POLICY, C19-IDX,
C19-CLEAR, C19-ZERO, C19-GEN, C19-WRITERS, C19-PREF, C19-FILLIND (DESIGN.md §3, §9.2)."""
import itertools

from facts import (decision_paths, switch_edge_conds, norm, show, walk, strip_refs, is_call_to, callee_name, find_calls, guard_conditions,
                   option_guard, place_fields, deep_strip, cmp_op)

EXPLANATION = (
    "Decides structural clauses of C19, not the behaviour of arbitrary operation sequences: (KEY) a probe returns "
    "data only under equality of the stored 64-bit key with the probed key, for the entry of the probed key's slot; "
    "(POLICY) a store into a slot happens only when the slot is empty or the old entry's should_overwrite_with(new) "
    "is true, stores the probed key and the given data, and `occupied` is incremented exactly on first fill; (IDX) the "
    "slot index is key mod len, computed from the same key with no resize in between; (CLEAR) reset and the "
    "reallocating path of resize empty every slot and zero `occupied` and `generation`, resize returns early only "
    "when the size is unchanged; (ZERO) no division or remainder by the table length without a non-emptiness guard; "
    "(GEN) the u8 generation counter cannot overflow-panic; (WRITERS) only the table's own methods write its fields; "
    "(PREF) the replacement predicate, enumerated over all outcomes of its four comparisons, lets newer-search "
    "entries always in and never displaces an exact entry by a shallower-or-equal non-exact one of the same search."
)

TT = "engine::transposition_table::TranspositionTable"
TTE = "engine::transposition_table::TranspositionTableEntry"


def run(fx, rep, tier):
    rule_key(fx, rep)
    rule_policy(fx, rep)
    rule_idx(fx, rep)
    rule_clear(fx, rep)
    rule_zero(fx, rep)
    rule_gen(fx, rep)
    rule_writers(fx, rep)
    rule_pref(fx, rep)
    rule_fillind(fx, rep)


def fill_eval(e, occ, ln):
    """numeric value of the fill-indicator formula for occupied = occ and data.len() = ln (ints and floats); None if unknown shape"""
    e = deep_strip(e) if not (isinstance(e, tuple) and e and e[0] == "cast") else e
    if not isinstance(e, tuple) or not e:
        return None
    if e[0] == "const" and isinstance(e[1], (int, float)):
        return e[1]
    if e[0] == "field" and e[2] == "occupied" and self_field(e, "occupied"):
        return occ
    if e[0] == "field" and e[2] == "0" and isinstance(e[1], tuple) and e[1] and e[1][0] == "binop":
        return fill_eval(e[1], occ, ln)
    if e[0] == "call" and isinstance(e[1], str) and e[1].endswith("Vec::len") and self_field(e[2][0], "data"):
        return ln
    if e[0] == "cast":
        v = fill_eval(e[1], occ, ln)
        if v is None:
            return None
        to = str(e[2])
        if to in ("f32", "f64"):
            return float(v)
        if v != v:  # NaN as integer is 0 in Rust
            return 0
        return int(v)
    if e[0] == "binop":
        a, b = fill_eval(e[2], occ, ln), fill_eval(e[3], occ, ln)
        if a is None or b is None:
            return None
        op = e[1].replace("WithOverflow", "")
        try:
            if op == "Mul":
                return a * b
            if op == "Div":
                if isinstance(a, float) or isinstance(b, float):
                    return a / b if b else float("nan")
                return a // b if b else None
            if op == "Add":
                return a + b
            if op == "Sub":
                return a - b
        except Exception:
            return None
    return None


def rule_fillind(fx, rep):
    """`hashfull` is the permille of occupied slots: occupancy() evaluates to 1000 * occupied / data.len() (rounded down, +-1 for
    float rounding) on sample values, and the value reported as hashfull is occupancy() of the table being searched."""
    oc = fx.one("TranspositionTable::occupancy")
    paths = [p for p in decision_paths(oc, 16) if p[1] is not None]
    ok = True
    n = 0
    main = [p for p in paths if not p[0]] or paths[-1:]
    if len(paths) == 0 or len(paths) > 3:
        rep.notes.append("C19-FILLIND: occupancy() is not a closed formula; clause not decided")
        rep.rule("C19-FILLIND", 0, 0, True, "not decided")
        return
    e = main[0][1]
    samples = [(0, 7), (3, 7), (7, 7), (1, 3), (500, 1000), (999, 1000), (1, 16777216), (8388608, 16777216), (33554432, 33554432)]
    vals = [(o, l, fill_eval(e, o, l)) for o, l in samples]
    other = sorted({x[2] for x in walk(e) if isinstance(x, tuple) and len(x) == 3 and x[0] == "field" and isinstance(x[2], str) and not x[2].isdigit() and
                    x[2] not in ("occupied", "data") and deep_strip(x[1])[:2] == ("arg", 1)})
    if other:
        rep.obligation(False)
        rep.violation("C19-FILLIND", "C19-FILLIND/formula", f"occupancy() is `{show(e)[:120]}`: it depends on {other}, not only on the number of occupied slots and the number of slots", {"fn": oc.name, "file": oc.file, "line": oc.line})
        rep.rule("C19-FILLIND", 1, 1, False, "fill indicator")
        return
    if any(v is None for _, _, v in vals):
        # a count over a *prefix* of the slot vector (`data.iter().take(1000)`, `data[..1000]`) is a sample, not the fraction of
        # occupied slots: it is exact only if the keys fill the table evenly from the first search on
        mentions_data = any(isinstance(x, tuple) and len(x) == 3 and x[0] == "field" and x[2] == "data" for x in walk(e))
        uses_counter = any(isinstance(x, tuple) and len(x) == 3 and x[0] == "field" and x[2] == "occupied" for x in walk(e))
        prefix = [c for c in walk(e) if isinstance(c, tuple) and c and c[0] == "call" and isinstance(c[1], str) and
                  (c[1].endswith("Iterator::take") or c[1].endswith("Iterator>::take") or c[1].split("::")[-1] in ("take", "first_chunk", "split_at") or
                   (c[1].endswith("::index") and any(isinstance(y, tuple) and y and y[0] == "agg" and "Range" in str(y[1]) for y in walk(c[2][1]) if len(c[2]) > 1)))]
        if mentions_data and not uses_counter and prefix:
            rep.obligation(False)
            rep.violation("C19-FILLIND", "C19-FILLIND/formula", f"occupancy() is `{show(e)[:120]}`: it counts occupied slots among a prefix of the table only, which is not the permille of occupied slots (e.g. 1000 entries stored in slots 0..999 of a larger table read as 1000)", {"fn": oc.name, "file": oc.file, "line": oc.line})
            rep.rule("C19-FILLIND", 1, 1, False, "fill indicator")
            return
        rep.notes.append(f"C19-FILLIND: occupancy() formula `{show(e)[:100]}` not evaluable; clause not decided")
        rep.rule("C19-FILLIND", 0, 0, True, "not decided")
        return
    n += 1
    good = all(abs(v - (1000 * o) // l) <= 1 for o, l, v in vals)
    rep.obligation(good)
    rep.sample({"rule": "C19-FILLIND", "formula": show(e)[:160], "samples": [(o, l, v) for o, l, v in vals[:5]]})
    if not good:
        ok = False
        wrong = [(o, l, v, (1000 * o) // l) for o, l, v in vals if abs(v - (1000 * o) // l) > 1][:3]
        rep.violation("C19-FILLIND", "C19-FILLIND/formula", f"occupancy() is `{show(e)[:120]}`: for (occupied, slots) it gives {[(o, l, v) for o, l, v, w in wrong]}, the permille of occupied slots is {[w for *_, w in wrong]}",
                      {"fn": oc.name, "file": oc.file, "line": oc.line})
    # reported as hashfull
    n += 1
    good = False
    for b in fx.fn_bodies():
        if "::tests::" in b.name or not norm(b.name).startswith("engine::search"):
            continue
        for bb, j, st in b.stmts():
            rv = st.get("rv")
            if rv and rv["k"] == "agg" and rv.get("agg") == "adt" and norm(rv["adt"]).endswith("search::SearchInfo"):
                m = dict(zip(rv["fields"], rv["ops"]))
                if "hashfull" in m:
                    he = b.expr(m["hashfull"], expand_named=True, at=bb)
                    if find_calls(he, "TranspositionTable::occupancy"):
                        good = True
                    else:
                        good = False
                        ok = False
                        rep.violation("C19-FILLIND", f"C19-FILLIND/report/{norm(b.name).split('::')[-1]}", f"`{b.name}` reports hashfull = `{show(he)[:80]}`, not the table's occupancy()", {"fn": b.name, "file": b.file, "line": st.get("line")})
    rep.obligation(good)
    rep.rule("C19-FILLIND", n, 2, ok, "fill indicator = permille of occupied slots, reported as hashfull")


def self_field(e, name):
    e = strip_refs(e)
    return isinstance(e, tuple) and e[0] == "field" and e[2] == name and strip_refs(e[1]) == ("arg", 1, "self")


def slot_of(e):
    """If e denotes (a field of) the entry stored in self.data[idx], return (idx_expr, trailing field or None)."""
    e = strip_refs(e)
    fld = None
    if isinstance(e, tuple) and e[0] == "field" and e[2] in ("key", "data"):
        fld = e[2]
        e = strip_refs(e[1])
    # (slot as Some).0
    if isinstance(e, tuple) and e[0] == "field" and e[2] == "0":
        e = strip_refs(e[1])
    if isinstance(e, tuple) and e[0] == "as" and e[2] == "Some":
        e = strip_refs(e[1])
    if isinstance(e, tuple) and e[0] == "call" and (e[1].endswith("slice::get_unchecked") or e[1].endswith("Index>::index") or e[1].endswith("IndexMut<I>>::index_mut") or e[1].endswith("slice::get_unchecked_mut")):
        base = strip_refs(e[2][0])
        if isinstance(base, tuple) and base[0] == "call" and (base[1].endswith("Deref>::deref") or base[1].endswith("DerefMut>::deref_mut")):
            base = strip_refs(base[2][0])
        if self_field(base, "data"):
            return e[2][1], fld
    return None


def unopt(e):
    """the payload of an Option / `?` wrapper around e: `(X as Some).0`, `(Try::branch(X) as Continue).0` -> X"""
    e = strip_refs(e)
    for _ in range(4):
        if isinstance(e, tuple) and len(e) == 3 and e[0] == "field" and e[2] == "0" and isinstance(e[1], tuple) and e[1] and e[1][0] == "as" and e[1][2] in ("Some", "Continue", "Ok"):
            e = strip_refs(e[1][1])
        elif isinstance(e, tuple) and e and e[0] == "call" and isinstance(e[1], str) and e[1].endswith("Try>::branch") and e[2]:
            e = strip_refs(e[2][0])
        else:
            break
    return e


def is_entry_idx(e, keyarg):
    """e == self.get_entry_idx(key) (or the payload of its Option, when the empty-table test lives in get_entry_idx)"""
    e = unopt(e)
    return isinstance(e, tuple) and e[0] == "call" and e[1].endswith("TranspositionTable::get_entry_idx") and \
        strip_refs(e[2][0]) == ("arg", 1, "self") and strip_refs(e[2][1]) == keyarg


def rule_key(fx, rep):
    ok = True
    g = fx.one("TranspositionTable::get")
    keyarg = ("arg", 2, g.local_name(2))
    n = 0
    for bb, j, s in g.stmts():
        rv = s.get("rv")
        if s["k"] == "assign" and s["lhs"]["l"] == 0 and rv and rv["k"] == "agg" and rv.get("variant") == "Some":
            n += 1
            val = g.expr(rv["ops"][0], expand_named=True)
            sl = slot_of(val)
            good, why = True, ""
            if sl is None or sl[1] != "data" or not is_entry_idx(sl[0], keyarg):
                good, why = False, f"returns `{show(val)[:100]}`, which is not the data of the entry in slot get_entry_idx(key)"
            else:
                found = False
                for (e, pol, where) in guard_conditions(g, bb, expand_named=True):
                    co = cmp_op(e)
                    if co and ((co[0] == "Eq" and pol is True) or (co[0] == "Ne" and pol is False)):
                        a, b = co[1], co[2]
                        for x, y in ((a, b), (b, a)):
                            sx = slot_of(x)
                            if sx and sx[1] == "key" and sx[0] == sl[0] and strip_refs(y) == keyarg:
                                found = True
                if not found:
                    good, why = False, "the Some(..) result is not guarded by `entry.key == *key` for the returned entry"
            rep.obligation(good)
            rep.sample({"rule": "C19-KEY", "returns": show(val)[:120], "ok": good})
            if not good:
                ok = False
                rep.violation("C19-KEY", "C19-KEY/get", f"TranspositionTable::get {why}", {"fn": g.name, "file": g.file, "line": s.get("line")})
    floor = 1
    if n == 0:
        # combinator form: slot.as_ref().filter(|e| e.key == *key).map(|e| &e.data)
        from facts import resolve_captures
        recognised = False
        for conds, ret, _bb in decision_paths(g, 64):
            r = deep_strip(ret) if ret is not None else None
            if not (isinstance(r, tuple) and r and r[0] == "call" and str(r[1]).endswith("Option::map") and len(r[2]) == 2):
                continue
            inner = deep_strip(r[2][0])
            if not (isinstance(inner, tuple) and inner[0] == "call" and str(inner[1]).endswith("Option::filter") and len(inner[2]) == 2):
                continue
            src = deep_strip(inner[2][0])
            if isinstance(src, tuple) and src[0] == "call" and str(src[1]).endswith("Option::as_ref"):
                src = src[2][0]
            sl = slot_of(("deref", src)) or slot_of(src)
            c1 = [x for x in walk(inner[2][1]) if isinstance(x, tuple) and x and x[0] == "agg" and str(x[1]).startswith("closure:")]
            c2 = [x for x in walk(r[2][1]) if isinstance(x, tuple) and x and x[0] == "agg" and str(x[1]).startswith("closure:")]
            if not (c1 and c2):
                continue
            recognised = True
            n += 1
            good, why = True, ""
            if sl is None or not is_entry_idx(sl[0], keyarg):
                good, why = False, "the filtered value is not the entry in slot get_entry_idx(key)"
            b1, b2 = fx.bodies.get(str(c1[0][1])[8:]), fx.bodies.get(str(c2[0][1])[8:])
            if good:
                p1 = [resolve_captures(fx, b1, pr[1]) for pr in decision_paths(b1, 8) if pr[1] is not None] if b1 is not None else []
                co = cmp_op(p1[0]) if len(p1) == 1 else None

                def entry_field(x, f):
                    x = strip_refs(x)
                    while isinstance(x, tuple) and x and x[0] == "deref":
                        x = strip_refs(x[1])
                    if not (isinstance(x, tuple) and x and x[0] == "field" and x[2] == f):
                        return False
                    y = strip_refs(x[1])
                    while isinstance(y, tuple) and y and y[0] == "deref":
                        y = strip_refs(y[1])
                    return isinstance(y, tuple) and y[:2] == ("arg", 2)
                if not (co and co[0] == "Eq" and ((entry_field(co[1], "key") and strip_refs(co[2]) == keyarg) or (entry_field(co[2], "key") and strip_refs(co[1]) == keyarg))):
                    good, why = False, "the filter does not test `entry.key == *key` for the probed key"
            if good:
                p2 = [pr[1] for pr in decision_paths(b2, 8) if pr[1] is not None] if b2 is not None else []
                if not (len(p2) == 1 and entry_field(p2[0], "data")):
                    good, why = False, "the mapped value is not the data of the filtered entry"
            rep.obligation(good)
            rep.sample({"rule": "C19-KEY", "form": "as_ref().filter(key ==).map(data)", "ok": good})
            if not good:
                ok = False
                rep.violation("C19-KEY", "C19-KEY/get", f"TranspositionTable::get {why}", {"fn": g.name, "file": g.file, "line": g.line})
        if not recognised:
            rep.notes.append("C19-KEY: TranspositionTable::get returns its hit neither from a guarded `Some(&entry.data)` nor through as_ref().filter(..).map(..); clause not decided")
            floor = 0
    rep.rule("C19-KEY", n, floor, ok, "Some(..) returns of get guarded by full key equality")


def field_stores(fx, body):
    """[(bb, idx_expr, field, value_expr, line)] - assignments to one field (`key` / `data`) of the entry held in a slot of
    self.data, made through a mutable reference to the entry (`existing.data = data`)."""
    out = []
    for bb, j, s in body.stmts():
        if s["k"] != "assign":
            continue
        lhs = s["lhs"]
        p = lhs.get("p") or []
        if len(p) == 2 and p[0] == "*" and isinstance(p[1], dict) and norm(p[1].get("adt", "")) == TTE and p[1].get("n") in ("key", "data"):
            tgt = body.expr({"l": lhs["l"], "p": []}, expand_named=True, at=bb)
            sl = slot_of(("deref", tgt)) or slot_of(tgt)
            if sl is not None:
                val = body.expr(s["rv"].get("op"), expand_named=True, at=bb) if s["rv"]["k"] == "use" else None
                out.append((bb, sl[0], p[1]["n"], val, s.get("line")))
    return out


def stores(fx, body, _depth=0):
    """[(bb, idx_expr, value_expr)] — assignments through index_mut / get_unchecked_mut of self.data"""
    out = []
    for bb, j, s in body.stmts():
        if s["k"] != "assign":
            continue
        lhs = s["lhs"]
        if lhs.get("p") and lhs["p"][0] == "*" and len(lhs["p"]) == 1:
            tgt = body.expr({"l": lhs["l"], "p": []}, expand_named=True)
            sl = slot_of(("deref", tgt)) or slot_of(tgt)
            if sl is not None:
                val = body.expr(s["rv"].get("op"), expand_named=True) if s["rv"]["k"] == "use" else None
                out.append((bb, sl[0], val, s.get("line")))
        # direct place self.data[..] is impossible for Vec (goes through IndexMut)
    # stores made by a `&mut self` helper of the table (`store_at(idx, key, data)`): taken at the call, with the helper's
    # parameters replaced by the call's arguments
    from facts import substitute_args
    for bb, t in body.calls():
        hb = fx.body(callee_name(t)) if callee_name(t) else None
        if hb is None or hb is body or "transposition_table::TranspositionTable" not in norm(hb.name) or hb.kind != "AssocFn" or _depth > 0:
            continue
        if not t["args"] or strip_refs(body.expr(t["args"][0], expand_named=True, at=bb)) != ("arg", 1, "self"):
            continue
        actual = tuple(body.expr(a, expand_named=True, at=bb) for a in t["args"])
        for (hbb, hidx, hval, hline) in stores(fx, hb, _depth + 1):
            out.append((bb, substitute_args(hidx, actual), substitute_args(hval, actual) if hval is not None else None, t.get("line")))
    return out


def admitting_edges(ins, idx, dataarg):
    """(empty_edges, policy_edges): the switch edges of `insert` taken when slot `idx` is empty, and those taken when
    `existing.data.should_overwrite_with(&data)` is true."""
    emp, pol_edges = [], []
    for a in sorted(ins.live_blocks()):
        for (tgt, e, pol, v) in switch_edge_conds(ins, a):
            og = option_guard(e, pol)
            if og is not None:
                inner, p = og
                sl = slot_of(inner) or slot_of(("deref", inner))
                if sl and sl[0] == idx and sl[1] is None and p is False:
                    emp.append((a, tgt))
            if isinstance(e, tuple) and e and e[0] == "call" and isinstance(e[1], str) and e[1].endswith("should_overwrite_with") and pol is True:
                sx = slot_of(e[2][0])
                if sx and sx[1] == "data" and sx[0] == idx and strip_refs(e[2][1]) == dataarg:
                    pol_edges.append((a, tgt))
    return emp, pol_edges


def store_paths_admitted(ins, store_bb, idx, dataarg):
    """(all paths to the store are admitted, some path comes through the empty-slot side) by path-sensitive enumeration:
    a path is admitted if it saw the slot empty or took `existing.data.should_overwrite_with(&data)` as true."""
    paths = decision_paths(ins, 2000, start=0, stop={store_bb})
    if not paths or len(paths) >= 2000:
        return None
    all_ok, via_empty = True, False
    for conds, _env, bb in paths:
        has_empty = has_policy = False
        for (e, val) in conds:
            d = deep_strip(e)
            truth = (val != 0) if isinstance(val, int) else (0 in val[1] if isinstance(val, tuple) and val[0] == "otherwise" else None)
            if isinstance(d, tuple) and d and d[0] == "discr":
                sl = slot_of(d[1]) or slot_of(("deref", d[1]))
                if sl and sl[1] is None and truth is False:
                    has_empty = True
            if isinstance(d, tuple) and d and d[0] == "call" and isinstance(d[1], str) and d[1].endswith("should_overwrite_with") and truth is True:
                sx = slot_of(d[2][0])
                if sx and sx[1] == "data" and strip_refs(d[2][1]) == dataarg:
                    has_policy = True
        if not (has_empty or has_policy):
            all_ok = False
        via_empty = via_empty or has_empty
    return all_ok, via_empty


def rule_policy(fx, rep):
    ok = True
    ins = fx.one("TranspositionTable::insert")
    keyarg = ("arg", 2, ins.local_name(2))
    dataarg = ("arg", 3, ins.local_name(3))
    st = stores(fx, ins)
    n = 0

    def bad(key, msg, line=None):
        nonlocal ok
        ok = False
        rep.violation("C19-POLICY", f"C19-POLICY/{key}", msg, {"fn": ins.name, "file": ins.file, "line": line or ins.line})

    # what is stored is what the caller handed in: nothing of the slot's present occupant may be merged into the new data
    # unless that occupant was stored under the same key (the slot is shared by all keys with the same index)
    for bb, j, s_ in ins.stmts():
        rv = s_.get("rv")
        if not (s_["k"] == "assign" and rv and rv["k"] == "ref" and rv.get("mut") and rv.get("pl", {}).get("l") == 3 and not rv["pl"].get("p")):
            continue
        refl = s_["lhs"]["l"]
        for cb_, t_ in ins.calls():
            if not any("pl" in a and a["pl"]["l"] == refl for a in t_["args"]):
                continue
            others = [ins.expr(a, expand_named=True, at=cb_) for a in t_["args"] if not ("pl" in a and a["pl"]["l"] == refl)]
            from_slot = any(find_calls(o, "get_unchecked", "get_unchecked_mut", "Index>::index", "IndexMut>::index_mut", "slice::get", "slice::get_mut") or
                            any(isinstance(x, tuple) and len(x) == 3 and x[0] == "field" and x[2] == "data" for x in walk(o)) for o in others)
            if not from_slot:
                continue
            n += 1
            same_key = any(pol is True and cmp_op(deep_strip(e)) and cmp_op(deep_strip(e))[0] == "Eq" and "key" in show(e) for (e, pol, w) in guard_conditions(ins, cb_, expand_named=True))
            rep.obligation(same_key)
            if not same_key:
                bad("store/merged", f"TranspositionTable::insert changes the data it is about to store through `{norm(callee_name(t_) or '').split('::')[-1]}` with the slot's present occupant as input, without "
                    "the occupant's key being equal to the key stored: a probe can then return data that was never stored under its key", t_.get("line"))
    empties = []
    for (bb, idx, val, line) in st:
        n += 1
        good, why = True, ""
        if not is_entry_idx(idx, keyarg):
            good, why = False, f"stores into slot `{show(idx)[:80]}`, not get_entry_idx(key)"
        # value: Some(Entry{key: key.clone(), data})
        v = strip_refs(val) if val else None
        ent = None
        if good and isinstance(v, tuple) and v[0] == "agg" and str(v[1]).endswith("Option::Some"):
            ent = strip_refs(v[2][0])
        if good and not (isinstance(ent, tuple) and ent[0] == "agg" and str(ent[1]).endswith("TranspositionTableEntry::TranspositionTableEntry")):
            good, why = False, f"stores `{show(val)[:80]}`, not Some(TranspositionTableEntry{{..}})"
        if good:
            k, d = ent[2][0], ent[2][1]
            if strip_refs(k) != keyarg:
                good, why = False, f"the stored key is `{show(k)[:60]}`, not the probed key"
            elif strip_refs(d) != dataarg:
                good, why = False, f"the stored data is `{show(d)[:60]}`, not the `data` argument"
        if good:
            # guard: every path to the store enters through the empty-slot edge or through the edge on which
            # should_overwrite_with(existing.data, &data) is true (the two may be separate arms or one join)
            emp_e, pol_e = admitting_edges(ins, idx, dataarg)
            if bb in ins.reachable(0, removed_edges=emp_e + pol_e):
                # not visible as edges: the admission may be carried in a flag (`let should_store = match .. { Some(e) => e.data.
                # should_overwrite_with(&data), None => true }; if should_store { store }`): decide per path instead
                verdict = store_paths_admitted(ins, bb, idx, dataarg)
                if verdict is None or verdict[0] is False:
                    good, why = False, "the store is neither in the empty-slot arm nor guarded by `existing.data.should_overwrite_with(&data)`"
                elif verdict[1]:
                    empties.append(bb)
            elif bb in ins.reachable(0, removed_edges=pol_e):
                # reachable through the empty-slot edge
                empties.append(bb)
        rep.obligation(good)
        rep.sample({"rule": "C19-POLICY", "store_line": line, "ok": good})
        if not good:
            bad(f"store/{len([x for x in st if x[0] <= bb])}", f"TranspositionTable::insert {why}", line)
    # an entry updated in place, field by field: whenever the data of a slot is replaced, its key must become the new key on
    # the same run - otherwise the slot pairs the previous owner's key with the newcomer's data
    fs = field_stores(fx, ins)
    for (bb, idx, fld, val, line) in fs:
        if fld != "data":
            continue
        n += 1
        keyed = [kb for (kb, kidx, kf, kval, _l) in fs if kf == "key" and show(kidx) == show(idx) and kval is not None and
                 (strip_refs(kval) == keyarg or (isinstance(strip_refs(kval), tuple) and strip_refs(kval)[0] == "call" and str(strip_refs(kval)[1]).endswith("clone") and strip_refs(strip_refs(kval)[2][0]) == keyarg)) and
                 (kb == bb or ins.block_dominates(kb, bb) or ins.must_pass(bb, [kb], ins.return_blocks()))]
        good = bool(keyed)
        why = "" if good else "replaces the data of an occupied slot in place without writing the new key: the slot then holds the previous owner's key with the newcomer's data, and a probe of the old key returns data of another position"
        if good and not is_entry_idx(idx, keyarg):
            good, why = False, f"updates slot `{show(idx)[:80]}`, not get_entry_idx(key)"
        if good:
            emp_e, pol_e = admitting_edges(ins, idx, dataarg)
            if pol_e and bb in ins.reachable(0, removed_edges=pol_e):
                good, why = False, "replaces the data of an occupied slot in place on a path on which `existing.data.should_overwrite_with(&data)` was not true"
            elif not pol_e:
                guarded = any(pol is True and find_calls(e, "should_overwrite_with") for (e, pol, where) in guard_conditions(ins, bb, expand_named=True))
                if not guarded:
                    good, why = False, "replaces the data of an occupied slot in place without `existing.data.should_overwrite_with(&data)` being true"
        rep.obligation(good)
        if not good:
            bad("store/in-place", f"TranspositionTable::insert {why}", line)
    # occupied += 1 exactly in the empty arm
    incs = []
    for bb, j, s in ins.stmts():
        if s["k"] == "assign" and s["lhs"]["l"] == 1 and any(isinstance(p, dict) and p.get("n") == "occupied" for p in s["lhs"].get("p", [])):
            incs.append((bb, ins.expr(s["rv"].get("op"), expand_named=True) if s["rv"]["k"] == "use" else None, s.get("line")))
    n += 1
    good = len(incs) == 1 and len(empties) == 1
    if good:
        ib, e, line = incs[0]
        adds = [x for x in walk(e) if isinstance(x, tuple) and x[0] == "binop" and x[1].startswith("Add") and x[3] == ("const", 1) and self_field(x[2], "occupied")]
        idx0 = st[0][1]
        emp_e, pol_e = admitting_edges(ins, idx0, dataarg)
        # the increment happens only on the empty-slot side ...
        cfg_only = ib not in ins.reachable(0, removed_edges=emp_e)
        good = bool(adds) and bool(emp_e)
        # ... and every run that takes the empty-slot edge both increments and stores before returning
        edge_ok = good and cfg_only
        for (a, tgt) in emp_e:
            edge_ok = edge_ok and ins.must_pass(tgt, [ib], ins.return_blocks()) and ins.must_pass(tgt, [empties[0]], ins.return_blocks())
        if good and not edge_ok:
            # path-sensitive retry (an admission flag makes the CFG look as if the store could be skipped after the increment)
            full = decision_paths(ins, 2000, trace=True)
            edge_ok = bool(full) and len(full) < 2000
            store_bbs = {x[0] for x in st}
            for conds, ret, trail in full:
                took_empty = any((trail[i], trail[i + 1]) in set(emp_e) for i in range(len(trail) - 1))
                passes_inc = ib in trail
                passes_store = bool(store_bbs & set(trail))
                if took_empty != passes_inc or (took_empty and not passes_store):
                    edge_ok = False
        good = good and edge_ok
    rep.obligation(good)
    if not good:
        bad("occupied", f"`occupied` is not incremented by exactly 1 exactly when an empty slot is filled (increments: {[(x[0], show(x[1])[:60]) for x in incs]}, empty-arm stores: {empties})")
    rep.rule("C19-POLICY", n, 2, ok, "stores of insert guarded by emptiness or the replacement predicate; occupied on first fill")


def rule_idx(fx, rep):
    ok = True
    n = 0
    gi = fx.one("TranspositionTable::get_entry_idx")
    ret = gi.expr({"l": 0, "p": []}, expand_named=True)
    n += 1
    good = False
    r = strip_refs(ret)
    if not (isinstance(r, tuple) and r and r[0] == "binop"):
        # `-> Option<usize>`: the formula is the payload of the Some path(s)
        somes = [deep_strip(x[1]) for x in decision_paths(gi, 16) if x[1] is not None and isinstance(deep_strip(x[1]), tuple) and deep_strip(x[1])[0] == "agg" and str(deep_strip(x[1])[1]).endswith("Option::Some")]
        if len(somes) == 1 and somes[0][2]:
            r = strip_refs(somes[0][2][0])
            ret = r
    if isinstance(r, tuple) and r[0] == "binop" and r[1] == "Rem":
        num, den = strip_refs(r[2]), strip_refs(r[3])
        num_ok = isinstance(num, tuple) and num[0] == "cast" and deep_strip(num[1]) == ("field", ("arg", 2, gi.local_name(2)), "0")
        den_ok = isinstance(den, tuple) and den[0] == "call" and den[1].endswith("Vec::len") and self_field(den[2][0], "data")
        good = num_ok and den_ok
    rep.obligation(good)
    rep.sample({"rule": "C19-IDX", "get_entry_idx": show(ret)})
    if not good:
        ok = False
        rep.violation("C19-IDX", "C19-IDX/formula", f"get_entry_idx computes `{show(ret)}`, not `key.0 as usize % self.data.len()`", {"fn": gi.name, "file": gi.file, "line": gi.line})
    # in get / insert: every slot access uses get_entry_idx(self, key) and nothing resizes data in the body
    RESIZERS = ("Vec::clear", "Vec::resize", "Vec::push", "Vec::pop", "Vec::truncate", "Vec::shrink_to_fit", "Vec::insert", "Vec::remove", "Vec::drain", "Vec::swap_remove")
    for fn in ("TranspositionTable::get", "TranspositionTable::insert"):
        b = fx.one(fn)
        keyarg = ("arg", 2, b.local_name(2))
        for bb, t in b.calls():
            cn = norm(callee_name(t) or "")
            if cn.endswith("slice::get_unchecked") or cn.endswith("IndexMut<I>>::index_mut") or cn.endswith("Index<I>>::index") or cn.endswith("slice::get_unchecked_mut"):
                n += 1
                idx = b.expr(t["args"][1], expand_named=True)
                good = is_entry_idx(idx, keyarg)
                rep.obligation(good)
                if not good:
                    ok = False
                    rep.violation("C19-IDX", f"C19-IDX/{fn}/index", f"`{fn}` indexes the table with `{show(idx)[:80]}`, not get_entry_idx(key)", {"fn": b.name, "file": b.file, "line": t.get("line")})
            if any(cn.endswith(r) for r in RESIZERS) and t["args"] and self_field(b.expr(t["args"][0], expand_named=True), "data"):
                n += 1
                ok = False
                rep.obligation(False)
                rep.violation("C19-IDX", f"C19-IDX/{fn}/resize", f"`{fn}` changes the table's length ({cn}) while an index is live", {"fn": b.name, "file": b.file, "line": t.get("line")})
    rep.rule("C19-IDX", n, 3, ok, "slot index provenance")


def const_writes(body, field, fx=None, _depth=0):
    """[(bb, const)] assignments self.<field> = const; with `fx`, also the unconditional ones made by a `&mut self` helper of
    the table (`self.reset_counters()`), attributed to the block of the call"""
    out = []
    for bb, j, s in body.stmts():
        if s["k"] == "assign" and s["lhs"]["l"] == 1 and [p.get("n") for p in s["lhs"].get("p", []) if isinstance(p, dict)] == [field]:
            e = body.expr(s["rv"].get("op"), expand_named=True) if s["rv"]["k"] == "use" else None
            out.append((bb, e))
    if fx is not None and _depth == 0:
        for bb, t in body.calls():
            hb = fx.body(callee_name(t)) if callee_name(t) else None
            if hb is None or hb is body or "transposition_table::TranspositionTable" not in norm(hb.name) or hb.kind != "AssocFn" or not t["args"]:
                continue
            if strip_refs(body.expr(t["args"][0], expand_named=True, at=bb)) != ("arg", 1, "self"):
                continue
            for hbb, e in const_writes(hb, field, fx, 1):
                if hb.must_pass(0, [hbb], hb.return_blocks()):
                    out.append((bb, e))
    return out


def rule_clear(fx, rep):
    ok = True
    n = 0

    def bad(key, msg, b):
        nonlocal ok
        ok = False
        rep.violation("C19-CLEAR", f"C19-CLEAR/{key}", msg, {"fn": b.name, "file": b.file, "line": b.line})

    rs, rz = fx.one("TranspositionTable::reset"), fx.one("TranspositionTable::resize")
    # reset: unconditional zeroing + every slot cleared
    for fld in ("occupied", "generation"):
        n += 1
        w = const_writes(rs, fld, fx)
        good = len(w) >= 1 and all(e == ("const", 0) for _, e in w) and rs.must_pass(0, [bb for bb, _ in w], rs.return_blocks())
        rep.obligation(good)
        if not good:
            bad(f"reset/{fld}", f"reset does not set `{fld}` to 0 on every path", rs)
    n += 1
    good = False
    for (bb, idx, val, line) in stores(fx, rs):
        v = strip_refs(val) if val else None
        rng = [x for x in walk(idx) if isinstance(x, tuple) and x[0] == "agg" and str(x[1]).endswith("Range::Range")]
        if isinstance(v, tuple) and v[0] == "agg" and str(v[1]).endswith("Option::None") and rng:
            lo, hi = rng[0][2][0], strip_refs(rng[0][2][1])
            if lo == ("const", 0) and isinstance(hi, tuple) and hi[0] == "call" and hi[1].endswith("Vec::len") and self_field(hi[2][0], "data"):
                good = True
    for bb, t in rs.calls():
        cn = norm(callee_name(t) or "")
        if (cn.endswith("slice::fill") or cn.endswith("Vec::clear")) and rs.must_pass(0, [bb], rs.return_blocks()):
            good = good or cn.endswith("slice::fill")
    # `for slot in &mut self.data { *slot = None }`: a store of None through the item of a plain mutable iteration over the whole vector
    for bb, j, st in rs.stmts():
        rv = st.get("rv")
        is_none = bool(rv) and ((rv["k"] == "agg" and rv.get("variant") == "None") or
                                (rv["k"] == "use" and str((strip_refs(rs.expr(rv["op"], expand_named=True, at=bb)) or ("",) * 2)[1]).endswith("Option::None")))
        if st["k"] == "assign" and st["lhs"].get("p") == ["*"] and is_none:
            it = rs.expr({"l": st["lhs"]["l"], "p": []}, expand_named=True, at=bb)
            calls_in = [x[1] for x in walk(it) if isinstance(x, tuple) and x and x[0] == "call" and isinstance(x[1], str)]
            plain = all(c.endswith("Iterator>::next") or c.endswith("IntoIterator>::into_iter") or c.endswith("iter_mut") or c.endswith("DerefMut>::deref_mut") for c in calls_in)
            over_data = any(isinstance(x, tuple) and len(x) == 3 and x[0] == "field" and x[2] == "data" and deep_strip(x[1])[:2] == ("arg", 1) for x in walk(it))
            if calls_in and plain and over_data and any(c.endswith("Iterator>::next") for c in calls_in):
                good = True
    # `self.data.iter_mut().for_each(|slot| *slot = None)`: an unconditional for_each over the plain mutable iteration of the whole
    # vector, with a closure that stores None through its parameter on every path
    for bb, t in rs.calls():
        cn = norm(callee_name(t) or "")
        if not (cn.endswith("Iterator::for_each") or cn.endswith("Iterator>::for_each")) or not rs.must_pass(0, [bb], rs.return_blocks()) or len(t["args"]) != 2:
            continue
        it = rs.expr(t["args"][0], expand_named=True, at=bb)
        calls_in = [x[1] for x in walk(it) if isinstance(x, tuple) and x and x[0] == "call" and isinstance(x[1], str)]
        plain = bool(calls_in) and all(c.endswith("iter_mut") or c.endswith("DerefMut>::deref_mut") or c.endswith("IntoIterator>::into_iter") for c in calls_in)
        over_data = any(isinstance(x, tuple) and len(x) == 3 and x[0] == "field" and x[2] == "data" and deep_strip(x[1])[:2] == ("arg", 1) for x in walk(it))
        clos = [x for x in walk(rs.expr(t["args"][1], expand_named=True, at=bb)) if isinstance(x, tuple) and x and x[0] == "agg" and str(x[1]).startswith("closure:")]
        cb = fx.bodies.get(str(clos[0][1])[len("closure:"):]) if clos else None
        if not (plain and over_data and cb is not None):
            continue
        st_none = [cbb for cbb, cj, cs in cb.stmts() if cs["k"] == "assign" and cs["lhs"].get("p") == ["*"] and cs["lhs"]["l"] == 2 and cs.get("rv") and
                   ((cs["rv"]["k"] == "agg" and cs["rv"].get("variant") == "None") or
                    (cs["rv"]["k"] == "use" and str((strip_refs(cb.expr(cs["rv"]["op"], expand_named=True, at=cbb)) or ("",) * 2)[1]).endswith("Option::None")))]
        if st_none and cb.must_pass(0, st_none, cb.return_blocks()):
            good = True
    rep.obligation(good)
    if not good:
        bad("reset/slots", "reset does not assign None to every slot 0..data.len()", rs)
    # resize: early return only if size unchanged; realloc path clears, resizes with None, zeroes counters, records size
    n += 1
    rets = rz.return_blocks()
    clear = [bb for bb, t in rz.calls_to("Vec::clear") if self_field(rz.expr(t["args"][0], expand_named=True), "data")]
    rsz = [(bb, t) for bb, t in rz.calls_to("Vec::resize") if self_field(rz.expr(t["args"][0], expand_named=True), "data")]
    good = len(clear) == 1 and len(rsz) == 1
    why = "no clear()+resize(n, None) of the slot vector"
    if good:
        fill = strip_refs(rz.expr(rsz[0][1]["args"][2], expand_named=True))
        cnt = strip_refs(rz.expr(rsz[0][1]["args"][1], expand_named=True))
        if not (isinstance(fill, tuple) and fill[0] == "agg" and str(fill[1]).endswith("Option::None")):
            good, why = False, "the new slots are not filled with None"
        elif not (isinstance(cnt, tuple) and cnt[0] == "call" and cnt[1].endswith("calculate_number_of_entries") and strip_refs(cnt[2][0]) == ("arg", 2, rz.local_name(2))):
            good, why = False, f"the new length `{show(cnt)[:60]}` is not calculate_number_of_entries(size_mb)"
        elif not rz.block_dominates(clear[0], rsz[0][0]):
            good, why = False, "old entries are not cleared before the vector is resized (stale entries survive a shrink-then-grow)"
    if good:
        # paths that avoid the reallocation must be guarded by size == size_mb
        avoid = rz.reachable(0, removed_blocks=[rsz[0][0]])
        for r in rets:
            if r in avoid:
                # find the guard separating: the realloc block must be on the false edge of Eq(self.size, size_mb)
                sep = False
                for (e, pol, where) in guard_conditions(rz, rsz[0][0], expand_named=True):
                    if isinstance(e, tuple) and e[0] == "binop" and e[1] == "Eq" and pol is False:
                        a, b = strip_refs(e[2]), strip_refs(e[3])
                        if {("self" if self_field(x, "size") else "arg" if x == ("arg", 2, rz.local_name(2)) else "?") for x in (a, b)} == {"self", "arg"}:
                            sep = True
                if not sep:
                    good, why = False, "resize can return without reallocating although the requested size differs"
    rep.obligation(good)
    if not good:
        bad("resize/realloc", f"resize: {why}", rz)
    for fld, want in (("occupied", ("const", 0)), ("generation", ("const", 0)), ("size", ("arg", 2, rz.local_name(2)))):
        n += 1
        w = const_writes(rz, fld, fx)
        good = bool(rsz) and len(w) >= 1 and all(strip_refs(e) == want for _, e in w) and rz.must_pass(rsz[0][0], [bb for bb, _ in w], rets)
        rep.obligation(good)
        if not good:
            bad(f"resize/{fld}", f"the reallocating path of resize does not set `{fld}` to {show(want)}", rz)
    # PersistentState::reset / ucinewgame reach reset — checked under C12
    # ... and resize records the size it was asked for on every path except the same-size shortcut: a path that rebuilds (or
    # drops) the slot vector and returns without `self.size = size_mb` leaves a size on record that the table does not have,
    # and the next request for that size is taken for "nothing to do"
    size_w = {bb for bb, j, st in rz.stmts() if st["k"] == "assign" and st["lhs"]["l"] == 1 and
              [p_.get("n") for p_ in st["lhs"].get("p", []) if isinstance(p_, dict)] == ["size"]}
    guard_edges = []
    for a in sorted(rz.live_blocks()):
        for (tgt, e, pol, v) in switch_edge_conds(rz, a, expand_named=True):
            co = cmp_op(deep_strip(e)) if isinstance(deep_strip(e), tuple) else None
            if co and co[0] in ("Eq", "Ne") and pol is not None and ((co[0] == "Eq") == bool(pol)):
                txt = show(co[1]) + " " + show(co[2])
                if "self.size" in txt.replace("(*self)", "self").replace("*self", "self") or ".size" in txt:
                    guard_edges.append((a, tgt))
    if size_w and guard_edges:
        n += 1
        free = rz.reachable(0, removed_edges=guard_edges, removed_blocks=list(size_w))
        leaks = [r_ for r_ in rz.return_blocks() if r_ in free]
        good = not leaks
        rep.obligation(good)
        if not good:
            bad("resize/size-field", "TranspositionTable::resize can return without recording the requested size on a path other than its same-size shortcut: the size on record then differs from the "
                "table's real size and a later request for the recorded size does nothing (e.g. Hash N, Hash 0, Hash N leaves a table without slots)", rz)
    # the same-size guard of resize compares the request with `self.size`: wherever a table is built with a slot vector sized
    # for X, its `size` field must say X (a constructor that allocates for `size_mb` but records 0 makes the first `Hash 0` a
    # no-op: the table is neither emptied nor shrunk)
    for b in fx.fn_bodies():
        if "transposition_table::TranspositionTable" not in norm(b.name) or "::tests::" in b.name:
            continue
        for bb, j, st in b.stmts():
            rv = st.get("rv")
            if not (st["k"] == "assign" and rv and rv["k"] == "agg" and rv.get("agg") == "adt" and norm(rv.get("adt", "")).endswith("TranspositionTable") and
                    "size" in (rv.get("fields") or []) and "data" in rv["fields"]):
                continue
            e_data = b.expr(rv["ops"][rv["fields"].index("data")], expand_named=True, at=bb)
            e_size = deep_strip(b.expr(rv["ops"][rv["fields"].index("size")], expand_named=True, at=bb))
            calc = find_calls(e_data, "calculate_number_of_entries")
            if not calc:
                continue  # built empty (and sized by resize afterwards): the existing resize clauses apply
            n += 1
            good = show(deep_strip(calc[0][2][0])) == show(e_size)
            rep.obligation(good)
            if not good:
                bad(f"{norm(b.name).split('::')[-1]}/size-field", f"`{b.name}` builds the slot vector for `{show(deep_strip(calc[0][2][0]))[:40]}` megabytes but records `size = {show(e_size)[:40]}`: resize's same-size "
                    "guard then compares with the wrong size (a first `setoption name Hash value 0` is ignored: the table is neither emptied nor shrunk)", b)
    rep.rule("C19-CLEAR", n, 7, ok, "reset / resize empty the table and zero the counters")


def nonempty_guarded(fx, body, bb):
    """block bb is dominated by a test that self.data is not empty"""
    for (e, pol, where) in guard_conditions(body, bb, expand_named=True):
        if isinstance(e, tuple) and e[0] == "call" and e[1].endswith("Vec::is_empty") and pol is False and self_field(e[2][0], "data"):
            return True
        if isinstance(e, tuple) and e[0] == "binop" and e[1] in ("Ne", "Gt", "Eq", "Lt"):
            a, b = strip_refs(e[2]), strip_refs(e[3])
            lens = [x for x in (a, b) if isinstance(x, tuple) and x[0] == "call" and x[1].endswith("Vec::len") and self_field(x[2][0], "data")]
            zero = [x for x in (a, b) if x == ("const", 0)]
            if lens and zero:
                if (e[1] == "Ne" and pol is True) or (e[1] == "Eq" and pol is False):
                    return True
                if e[1] == "Gt" and pol is True and a is lens[0]:
                    return True
                if e[1] == "Lt" and pol is True and b is lens[0]:
                    return True
    return False


def rule_zero(fx, rep, rid="C19-ZERO"):
    ok = True
    n = 0
    methods = [b for b in fx.fn_bodies() if norm(b.name).startswith(TT + "::")]
    for b in methods:
        for bb, j, s in b.stmts():
            rv = s.get("rv")
            if s["k"] == "assign" and rv and rv["k"] == "binop" and rv["op"] in ("Div", "Rem") and not rv["aty"].startswith("f"):
                den = b.expr(rv["b"], expand_named=True)
                if not (find_calls(den, "Vec::len") or any(isinstance(x, tuple) and x[0] == "field" and x[2] in ("size", "occupied") for x in walk(den))):
                    if isinstance(strip_refs(den), tuple) and strip_refs(den)[0] == "const" and strip_refs(den)[1] != 0:
                        continue
                n += 1
                good = nonempty_guarded(fx, b, bb)
                how = "guarded in place"
                if not good:
                    # private helper: every call site must be guarded
                    callers = fx.callers_of(lambda nm: fx.body(nm) is not None and fx.body(nm).name == b.name)
                    good = bool(callers) and all(norm(cb.name).startswith(TT + "::") and nonempty_guarded(fx, cb, cbb) for (cb, cbb, t) in callers) \
                        and not b.raw.get("vis_pub", False)
                    how = f"every one of {len(callers)} call site(s) is under a non-emptiness test of the same table"
                rep.obligation(good)
                rep.sample({"rule": rid, "fn": b.name, "op": rv["op"], "divisor": show(den)[:80], "discharged": how if good else None})
                if not good:
                    ok = False
                    rep.violation(rid, f"{rid}/{norm(b.name)}/{rv['op']}",
                                  f"`{b.name}` computes `{rv['op']}` by `{show(den)[:80]}` (the table length, 0 for the advertised minimum Hash=0) without a non-emptiness guard",
                                  {"fn": b.name, "file": b.file, "line": s.get("line")})
    rep.rule(rid, n, 1, ok, "integer Div/Rem by the table length guarded against an empty table")


def rule_gen(fx, rep):
    ok = True
    n = 0
    for b in fx.fn_bodies():
        for bb, j, s in b.stmts():
            rv = s.get("rv")
            if s["k"] == "assign" and rv and rv["k"] == "binop" and rv["op"] in ("AddWithOverflow", "SubWithOverflow", "MulWithOverflow"):
                for o in (rv["a"], rv["b"]):
                    e = strip_refs(b.expr(o, expand_named=True))
                    if isinstance(e, tuple) and e[0] == "field" and e[2] == "generation" and "pl" in o and any(
                            isinstance(p, dict) and p.get("n") == "generation" and norm(p.get("adt", "")) == TT for p in o["pl"].get("p", [])):
                        n += 1
                        ok = False
                        rep.obligation(False)
                        rep.violation("C19-GEN", f"C19-GEN/{norm(b.name)}", f"`{b.name}` does overflow-checked `{rv['op']}` on the u8 generation counter: the 256th search panics (checked) / is fine only by accident (release)",
                                      {"fn": b.name, "file": b.file, "line": s.get("line")})
    ng = fx.one("TranspositionTable::new_generation")
    n += 1
    w = const_writes(ng, "generation")
    good = len(w) == 1 and isinstance(strip_refs(w[0][1]), tuple) and strip_refs(w[0][1])[0] == "call" and \
        (strip_refs(w[0][1])[1].endswith("wrapping_add") or strip_refs(w[0][1])[1].endswith("saturating_add")) or \
        (len(w) >= 1 and guarded_increment(ng))
    # saturating would break "entries from earlier searches always give way" after 255 searches: require wrapping or a guarded reset
    if good and len(w) == 1 and strip_refs(w[0][1])[1].endswith("saturating_add"):
        good = False
    rep.obligation(good)
    if not good and not any(v["rule"] == "C19-GEN" for v in rep.violations):
        ok = False
        rep.violation("C19-GEN", "C19-GEN/new_generation", "new_generation does not advance the generation with wrapping arithmetic", {"fn": ng.name, "file": ng.file, "line": ng.line})
    rep.rule("C19-GEN", n, 1, ok, "generation counter arithmetic")


def guarded_increment(ng):
    return False


def rule_writers(fx, rep):
    ok = True
    n = 0
    w = {}
    for b in fx.fn_bodies():
        for (bb, idx, adt, fld, kind, place) in b.field_writes():
            if adt == TT:
                w.setdefault(b.name, set()).add(fld)
    for name, flds in sorted(w.items()):
        n += 1
        good = norm(name).startswith(TT + "::")
        rep.obligation(good)
        if not good:
            ok = False
            b = fx.bodies[name]
            rep.violation("C19-WRITERS", f"C19-WRITERS/{norm(name)}", f"`{name}` writes TranspositionTable.{sorted(flds)} from outside the table's own methods", {"fn": name, "file": b.file, "line": b.line})
    rep.sample({"rule": "C19-WRITERS", "writers": {norm(k): sorted(v) for k, v in w.items()}})
    rep.rule("C19-WRITERS", n, 4, ok, "writers of the table's fields")


# ---- C19-PREF: decision table of the replacement predicate ------------------------------------


def cond_eval(e, env):
    """Evaluate a branch condition of should_overwrite_with under an abstract environment
    env = {age_rel: 'lt'|'eq'|'gt' (new vs old; the counter wraps, so both orders occur), depth_rel: 'lt'|'eq'|'gt' (new vs old), new_exact: bool, old_exact: bool}.
    Returns True/False, or None when the condition is not one of the recognised comparisons."""
    d0 = deep_strip(e)
    if isinstance(d0, tuple) and d0 and d0[0] == "call" and isinstance(d0[1], str) and d0[1].split("::")[-1] in ("is_none", "is_some") and "Option" in d0[1] and d0[2]:
        # presence of the stored / the new entry's best move
        x0 = deep_strip(d0[2][0])
        if isinstance(x0, tuple) and x0[0] == "field" and x0[2] == "best_move" and isinstance(x0[1], tuple) and x0[1][0] == "arg":
            has = env.get("old_move" if x0[1][1] == 1 else "new_move")
            if has is None:
                return None
            return has if d0[1].endswith("is_some") else not has
    co = cmp_op(e)
    if co is None:
        return None
    op, a, b = co[0], strip_refs(co[1]), strip_refs(co[2])

    def side(x):
        x = deep_strip(x)
        if isinstance(x, tuple) and x[0] == "field" and isinstance(x[1], tuple) and x[1][0] == "arg":
            return ("self" if x[1][1] == 1 else "new", x[2])
        if isinstance(x, tuple) and x[0] == "agg" and str(x[1]).endswith("NodeBound::Exact"):
            return ("const", "Exact")
        return None
    sa, sb = side(a), side(b)
    if sa is None or sb is None:
        return None
    pair = {sa, sb}
    if pair == {("self", "age"), ("new", "age")} and op in ("Eq", "Ne", "Gt", "Lt", "Ge", "Le"):
        # the age is a wrapping search counter: a different age may compare either way
        rel = env["age_rel"]  # new vs old
        if sa == ("self", "age"):
            rel = {"lt": "gt", "gt": "lt", "eq": "eq"}[rel]
        return {"Eq": rel == "eq", "Ne": rel != "eq", "Gt": rel == "gt", "Lt": rel == "lt", "Ge": rel in ("gt", "eq"), "Le": rel in ("lt", "eq")}[op]
    if pair == {("self", "depth"), ("new", "depth")} and op in ("Eq", "Ne", "Gt", "Lt", "Ge", "Le"):
        rel = env["depth_rel"]  # new vs old
        if sa == ("self", "depth"):  # a is old: flip to "new op' old"
            rel = {"lt": "gt", "gt": "lt", "eq": "eq"}[rel]
        return {"Eq": rel == "eq", "Ne": rel != "eq", "Gt": rel == "gt", "Lt": rel == "lt", "Ge": rel in ("gt", "eq"), "Le": rel in ("lt", "eq")}[op]
    if pair == {("new", "bound"), ("const", "Exact")} and op in ("Eq", "Ne"):
        return env["new_exact"] == (op == "Eq")
    if pair == {("self", "bound"), ("const", "Exact")} and op in ("Eq", "Ne"):
        return env["old_exact"] == (op == "Eq")
    return None


def rule_pref(fx, rep):
    ok = True
    cands = [b for b in fx.fn_bodies() if norm(b.name).endswith("TTOverwriteable>::should_overwrite_with") and "SearchTranspositionTableData" in b.name]
    if len(cands) != 1:
        rep.violation("C19-PREF", "C19-PREF/anchor", f"expected one should_overwrite_with impl for SearchTranspositionTableData, found {len(cands)}", {})
        rep.rule("C19-PREF", 0, 1, False)
        return
    b = cands[0]

    # "entries from earlier searches always give way": on every path on which the two ages were found to differ the answer is
    # `true`, whatever else is compared (decided path by path, so it also covers predicates the decision table below cannot
    # reduce - e.g. a depth margin `self.depth <= new.depth.saturating_add(4)` attached to the age test)
    def age_differs(c, v):
        co = cmp_op(deep_strip(c)) if isinstance(deep_strip(c), tuple) else None
        if not co or co[0] not in ("Eq", "Ne"):
            return None
        sides = set()
        for x in (co[1], co[2]):
            x = deep_strip(x)
            if isinstance(x, tuple) and x[0] == "field" and x[2] == "age" and isinstance(x[1], tuple) and x[1][0] == "arg":
                sides.add(x[1][1])
        if sides != {1, 2}:
            return None
        truth = (v != 0) if isinstance(v, int) else True
        return truth == (co[0] == "Ne")
    apaths = decision_paths(b, 256)
    stale_bad = None
    n_stale = 0
    if apaths and len(apaths) < 256:
        for conds, ret, _l in apaths:
            if ret is None or not any(age_differs(c, v) for c, v in conds):
                continue
            n_stale += 1
            r = deep_strip(ret)
            if not (isinstance(r, tuple) and r and r[0] == "const" and r[1] in (1, True)):
                stale_bad = show(ret)[:80]
    if n_stale:
        rep.obligation(stale_bad is None)
        if stale_bad is not None:
            ok = False
            rep.violation("C19-PREF", "C19-PREF/stale-gives-way", f"`{b.name}` can answer `{stale_bad}` although the stored entry's age differs from the new one's: an entry left by an earlier search "
                          "then survives the current search's result for the same slot (and keeps doing so in later searches)", {"fn": b.name, "file": b.file, "line": b.line})

    def run_abstract(env):
        """Abstractly execute the predicate: follow the CFG, deciding each switch by cond_eval."""
        bb = 0
        retval = None
        steps = 0
        while steps < 500:
            steps += 1
            blk = b.blocks[bb]
            for s in blk["stmts"]:
                if s["k"] == "assign" and s["lhs"]["l"] == 0 and not s["lhs"].get("p"):
                    rv = s["rv"]
                    if rv["k"] == "use" and rv["op"].get("k") == "const" and "int" in rv["op"]:
                        retval = bool(rv["op"]["int"])
                    elif rv["k"] == "binop":
                        retval = cond_eval(("binop", rv["op"], b.expr(rv["a"], expand_named=True), b.expr(rv["b"], expand_named=True)), env)
                        if retval is None:
                            return "?"
                    elif rv["k"] == "use":
                        retval = cond_eval(b.expr(rv["op"], expand_named=True), env)
                        if retval is None:
                            return "?"
                    else:
                        return "?"
            t = blk["term"]
            if t["k"] == "return":
                return retval if retval is not None else "?"
            if t["k"] == "goto":
                bb = t["target"]
            elif t["k"] == "switch":
                c = cond_eval(b.expr(t["discr"], expand_named=True), env)
                if c is None or t["dty"] != "bool":
                    return "?"
                nxt = None
                for v, tg in t["targets"]:
                    if bool(v) == c:
                        nxt = tg
                bb = nxt if nxt is not None else t["otherwise"]
            elif t["k"] == "call":
                if t["dest"]["l"] == 0:
                    f = t["func"]
                    retval = cond_eval(("call", norm(f.get("res") or f.get("fn")), tuple(b.expr(a, expand_named=True) for a in t["args"])), env)
                    if retval is None:
                        return "?"
                if "target" not in t:
                    return "?"
                bb = t["target"]
            elif t["k"] in ("drop", "assert"):
                bb = t["target"]
            else:
                return "?"
        return "?"

    table = {}
    for ar, dr, ne, oe in itertools.product(["lt", "eq", "gt"], ["lt", "eq", "gt"], [False, True], [False, True]):
        # also over the presence of a best move in either entry (an exact tablebase draw is stored without one): the verdict is
        # the worst one - a clause must hold whichever entry carries a move
        rs = set()
        for om, nm in itertools.product([False, True], repeat=2):
            rs.add(run_abstract({"age_rel": ar, "depth_rel": dr, "new_exact": ne, "old_exact": oe, "old_move": om, "new_move": nm}))
        table[(ar, dr, ne, oe)] = "?" if "?" in rs else (next(iter(rs)) if len(rs) == 1 else "depends on which entry has a move")
    n = len(table)
    rep.sample({"rule": "C19-PREF", "decision_table": {f"age={k[0]},depth={k[1]},new_exact={k[2]},old_exact={k[3]}": r for k, r in table.items()}})
    if any(r == "?" for r in table.values()):
        rep.notes.append("C19-PREF: replacement predicate not reducible to comparisons of age, depth and exactness; clause not decided")
        rep.rule("C19-PREF", 0, 0, True, "replacement predicate not in recognisable form: clause not decided")
        return
    for (ar, dr, ne, oe), res in table.items():
        ad = ar != "eq"
        good, why = True, ""
        if ad and res is not True:
            good, why = False, "an entry from an earlier search does not give way to a new one" + (" (the 8-bit search counter wraps: after 256 searches the newer search has the smaller age)" if ar == "lt" else "")
        if not ad and oe and not ne and dr != "gt" and res is not False:
            good, why = False, "within one search an exact entry is displaced by a non-exact entry that is not deeper"
        if not ad and ne and res is not True:
            good, why = False, "within one search an exact result is not admitted"
        if not ad and dr == "gt" and res is not True:
            good, why = False, "within one search a deeper result is not admitted"
        rep.obligation(good)
        if not good:
            ok = False
            rep.violation("C19-PREF", f"C19-PREF/age={ar}/depth={dr}/new_exact={ne}/old_exact={oe}",
                          f"replacement predicate for (new age {ar} old age, new depth {dr} old, new exact={ne}, old exact={oe}) returns {res}: {why}",
                          {"fn": b.name, "file": b.file, "line": b.line})
    rep.rule("C19-PREF", n, 36, ok, "decision table of should_overwrite_with over age / depth order / exactness")


TTF = "src/engine/transposition_table.rs"
STT = "src/engine/search/transposition.rs"
MUTANTS = [
    {"name": "a stale entry gives way only within a depth margin (seed C19-12a)", "expect": "C19-PREF/stale-gives-way",
     "edits": __import__("shared_mutants").edits_from_patch("seeded/C19-12a/patch.diff")},
    {"name": "new data inherits the occupant's best move whatever its key (seed C19-11a)", "expect": "C19-POLICY/store/merged",
     "edits": __import__("shared_mutants").edits_from_patch("seeded/C19-11a/patch.diff")},
    {"name": "the constructor allocates for size_mb but records size 0 (seed C19-10a)", "expect": "C19-CLEAR/new/size-field",
     "edits": __import__("shared_mutants").edits_from_patch("seeded/C19-10a/patch.diff")},
    {"name": "an entry without a best move always gives way to one that has a move (seed C19-7a)", "expect": "C19-PREF/age=eq",
     "edits": [(STT, "        // Don't overwrite exact nodes\n        self.bound != NodeBound::Exact", "        if self.best_move.is_none() && new.best_move.is_some() {\n            return true;\n        }\n\n        // Don't overwrite exact nodes\n        self.bound != NodeBound::Exact")]},
    {"name": "hashfull sampled from the first thousand slots (seed C19-6b)", "expect": "C19-FILLIND/formula",
     "edits": [("src/engine/transposition_table.rs", "        let decimal = self.occupied as f32 / self.data.len() as f32;\n        let permille = decimal * 1000.0;\n        permille as usize", "        self.data.iter().take(1000).filter(|slot| slot.is_some()).count()")]},
    {"name": "combinator-form probe without the key filter", "expect": "C19-KEY",
     "edits": [("src/engine/transposition_table.rs", "        unsafe {\n            if let Some(entry) = self.data.get_unchecked(idx) {\n                if entry.key == *key {\n                    return Some(&entry.data);\n                }\n            }\n        }\n\n        None",
                "        let slot = unsafe { self.data.get_unchecked(idx) };\n        slot.as_ref().filter(|entry| entry.key.0 & 0xFFFF == key.0 & 0xFFFF).map(|entry| &entry.data)")]},
    {"name": "benign: combinator-form probe", "benign": True,
     "edits": [("src/engine/transposition_table.rs", "        unsafe {\n            if let Some(entry) = self.data.get_unchecked(idx) {\n                if entry.key == *key {\n                    return Some(&entry.data);\n                }\n            }\n        }\n\n        None",
                "        let slot = unsafe { self.data.get_unchecked(idx) };\n        slot.as_ref().filter(|entry| entry.key == *key).map(|entry| &entry.data)")]},
    {"name": "occupied slot updated in place, data only (seed C19-5a)", "expect": "C19-POLICY/store/in-place",
     "edits": [("src/engine/transposition_table.rs", "            if let Some(existing_data) = self.data.get_unchecked(idx) {\n                if existing_data.data.should_overwrite_with(&data) {\n                    self.data[idx] = Some(TranspositionTableEntry {\n                        key: key.clone(),\n                        data,\n                    });\n                }",
                "            if let Some(existing) = self.data.get_unchecked_mut(idx) {\n                if existing.data.should_overwrite_with(&data) {\n                    existing.data = data;\n                }")]},
    {"name": "occupied slot updated in place regardless of the replacement predicate", "expect": "C19-POLICY/store/in-place",
     "edits": [("src/engine/transposition_table.rs", "            if let Some(existing_data) = self.data.get_unchecked(idx) {\n                if existing_data.data.should_overwrite_with(&data) {\n                    self.data[idx] = Some(TranspositionTableEntry {\n                        key: key.clone(),\n                        data,\n                    });\n                }",
                "            if let Some(existing) = self.data.get_unchecked_mut(idx) {\n                let _ = existing.data.should_overwrite_with(&data);\n                {\n                    existing.key = key.clone();\n                    existing.data = data;\n                }")]},
    {"name": "benign: occupied slot updated in place, key and data", "benign": True,
     "edits": [("src/engine/transposition_table.rs", "            if let Some(existing_data) = self.data.get_unchecked(idx) {\n                if existing_data.data.should_overwrite_with(&data) {\n                    self.data[idx] = Some(TranspositionTableEntry {\n                        key: key.clone(),\n                        data,\n                    });\n                }",
                "            if let Some(existing) = self.data.get_unchecked_mut(idx) {\n                if existing.data.should_overwrite_with(&data) {\n                    existing.key = key.clone();\n                    existing.data = data;\n                }")]},
    {"name": "hashfull reported in percent", "expect": "C19-FILLIND/formula",
     "edits": [(TTF, "        let permille = decimal * 1000.0;", "        let permille = decimal * 100.0;")]},
    {"name": "hashfull measured against the size in megabytes", "expect": "C19-FILLIND/formula",
     "edits": [(TTF, "        let decimal = self.occupied as f32 / self.data.len() as f32;", "        let decimal = self.occupied as f32 / self.size as f32;")]},
    {"name": "probe without key comparison", "expect": "C19-KEY",
     "edits": [(TTF, "                if entry.key == *key {\n                    return Some(&entry.data);\n                }", "                return Some(&entry.data);")]},
    {"name": "probe compares only the low 32 bits", "expect": "C19-KEY",
     "edits": [(TTF, "                if entry.key == *key {", "                if entry.key.0 as u32 == key.0 as u32 {")]},
    {"name": "occupied bumped on overwrite too", "expect": "C19-POLICY/occupied",
     "edits": [(TTF, "                if existing_data.data.should_overwrite_with(&data) {\n", "                if existing_data.data.should_overwrite_with(&data) {\n                    self.occupied += 1;\n")]},
    {"name": "always overwrite", "expect": "C19-POLICY/store",
     "edits": [(TTF, "                if existing_data.data.should_overwrite_with(&data) {", "                if existing_data.data.should_overwrite_with(&data) || true {")]},
    {"name": "resize forgets occupied", "expect": "C19-CLEAR/resize/occupied",
     "edits": [(TTF, "        self.size = size_mb;\n        self.occupied = 0;", "        self.size = size_mb;")]},
    {"name": "resize keeps old entries", "expect": "C19-CLEAR/resize/realloc",
     "edits": [(TTF, "        self.data.clear();\n", "")]},
    {"name": "reset forgets generation", "expect": "C19-CLEAR/reset/generation",
     "edits": [(TTF, "        self.generation = 0;\n        self.occupied = 0;\n    }\n\n    pub fn resize", "        self.occupied = 0;\n    }\n\n    pub fn resize")]},
    {"name": "Hash 0 guard removed from get (original defect)", "expect": "C19-ZERO",
     "edits": [(TTF, "        // A table with no entries (Hash = 0) finds nothing\n        if self.data.is_empty() {\n            return None;\n        }\n", "")]},
    {"name": "generation += 1 (original defect)", "expect": "C19-GEN",
     "edits": [(TTF, "        self.generation = self.generation.wrapping_add(1);", "        self.generation += 1;")]},
    {"name": "index from a different key mix in insert", "expect": "C19-IDX",
     "edits": [(TTF, "    pub fn insert(&mut self, key: &ZobristHash, data: T) {\n        // A table with no entries (Hash = 0) stores nothing\n        if self.data.is_empty() {\n            return;\n        }\n\n        let idx = self.get_entry_idx(key);",
                "    pub fn insert(&mut self, key: &ZobristHash, data: T) {\n        // A table with no entries (Hash = 0) stores nothing\n        if self.data.is_empty() {\n            return;\n        }\n\n        let idx = (key.0 >> 32) as usize % self.data.len();")]},
    {"name": "search pokes generation directly", "expect": "C19-WRITERS",
     "edits": [("src/engine/search/mod.rs", "    ctx.tt.new_generation();", "    ctx.tt.generation = ctx.tt.generation.wrapping_add(1);")]},
    {"name": "exact entries displaced by shallower bounds", "expect": "C19-PREF",
     "edits": [(STT, "        // Don't overwrite exact nodes\n        self.bound != NodeBound::Exact", "        // Don't overwrite exact nodes\n        self.bound == NodeBound::Exact")]},
    {"name": "ages compared with > although the counter wraps (seed C19-1)", "expect": "C19-PREF/age=lt",
     "edits": [(STT, "        if new.age != self.age {", "        if new.age > self.age {")]},
    {"name": "old-search entries kept when deeper", "expect": "C19-PREF",
     "edits": [(STT, "        if new.age != self.age {\n            return true;\n        }", "        if new.age != self.age && new.depth >= self.depth {\n            return true;\n        }")]},
    {"name": "benign: get via early-return style", "benign": True,
     "edits": [(TTF, "            if let Some(entry) = self.data.get_unchecked(idx) {\n                if entry.key == *key {\n                    return Some(&entry.data);\n                }\n            }", "            if let Some(entry) = self.data.get_unchecked(idx) {\n                if entry.key != *key {\n                    return None;\n                }\n                return Some(&entry.data);\n            }")]},
]
