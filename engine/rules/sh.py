"""Helpers shared by the search rules (C04, C08, C09, C10)."""
from facts import norm, show, walk, strip_refs, deep_strip, callee_name, find_calls, guard_conditions, cmp_op, MissingAnchor

SEARCH_FNS = ("search::negamax::negamax", "search::quiescence::quiescence", "search::aspiration::aspiration_search",
              "search::iterative_deepening::search")


def search_bodies(fx):
    return {k: fx.one(k) for k in SEARCH_FNS}


def recursive_sites(fx):
    """[(body, bb, term, callee_body)] — call sites inside the search drivers whose callee is one of the
    recursive search functions (negamax, quiescence) or drives them (aspiration_search)."""
    sb = search_bodies(fx)
    targets = {sb[k].name for k in SEARCH_FNS[:3]}
    bodies = list(sb.values())
    # a closure of a search function that wraps recursive calls and hands their Result on (seed C09-14a): the calls inside it are
    # sites of their own, and the call of the closure is a site of the enclosing function - its Err edge is an aborted child search too
    for c in fx.fn_bodies():
        if c.kind == "Closure" and "Result<" in c.local_ty(0) and any(c.name.startswith(p.name + "::{closure") for p in sb.values()):
            if any((fx.body(callee_name(t)) if callee_name(t) else None) is not None and fx.body(callee_name(t)).name in targets for _, t in c.calls()):
                bodies.append(c)
    targets = targets | {c.name for c in bodies[len(sb):]}
    out = []
    for b in bodies:
        for bb, t in b.calls():
            cn = callee_name(t)
            cb = fx.body(cn) if cn else None
            if cb is not None and cb.name in targets:
                out.append((b, bb, t, cb))
    return out


def result_switch(body, bb, t):
    """For a call returning Result<_, ()>: locate the switch deciding Ok/Err of its result.
    Returns (switch_bb, ok_target, err_target) or ('tail', None, None) when the result is returned unchanged
    (`return callee(..)`), or None if not found."""
    dest = t["dest"]["l"]
    if dest == 0 and not t["dest"].get("p"):
        return ("tail", None, None)
    derived = {dest}
    cur = t.get("target")
    seen = set()
    between = []  # calls executed after the recursive call but before its result is inspected
    # follow straight-line code after the call
    while cur is not None and cur not in seen:
        seen.add(cur)
        blk = body.blocks[cur]
        for s in blk["stmts"]:
            if s["k"] == "assign":
                used = [x for o in body.rvalue_operands(s["rv"]) for x in body.operand_locals(o)]
                if any(u in derived for u in used):
                    derived.add(s["lhs"]["l"])
        tt = blk["term"]
        if tt["k"] == "call":
            cn = norm(callee_name(tt) or "")
            used = [x for a in tt["args"] for x in body.operand_locals(a)]
            if any(u in derived for u in used):
                if cn.endswith("Try>::branch"):
                    derived.add(tt["dest"]["l"])
                    cur = tt.get("target")
                    continue
                return None
            between.append((cn, tt.get("line")))
            cur = tt.get("target")
            continue
        if tt["k"] == "switch":
            if any(x in derived for x in body.operand_locals(tt["discr"])):
                ok_t = err_t = None
                for v, tg in tt["targets"]:
                    if v == 0:
                        ok_t = tg
                    if v == 1:
                        err_t = tg
                other = tt["otherwise"]
                if ok_t is None:
                    ok_t = other
                if err_t is None:
                    err_t = other
                return (cur, ok_t, err_t, between)
            return None
        nxt = body.succ(cur)
        cur = nxt[0] if len(nxt) == 1 else None
    return None


def is_pv_local(neg):
    """The local of negamax holding `alpha != beta - Eval(1)` (recognised by its defining expression)."""
    for l in range(len(neg.locals)):
        ds = neg.defs().get(l, [])
        if len(ds) != 1 or ds[0][0] != "call":
            continue
        t = ds[0][2]
        e = ("call", norm(callee_name(t) or ""), tuple(neg.expr(a, expand_named=True) for a in t["args"]))
        co = cmp_op(e)
        if co and co[0] == "Ne":
            a, b = deep_strip(co[1]), deep_strip(co[2])
            for x, y in ((a, b), (b, a)):
                if isinstance(x, tuple) and x[0] == "arg" and x[1] == 2 and isinstance(y, tuple) and y[0] == "call" and y[1].endswith("Sub>::sub"):
                    yy = y[2]
                    if deep_strip(yy[0]) == ("arg", 3, neg.local_name(3)) and isinstance(deep_strip(yy[1]), tuple) and deep_strip(yy[1])[0] == "agg" and deep_strip(yy[1])[2] == (("const", 1),):
                        return l
    return None


def mentions_local(body, e, l):
    return any(isinstance(x, tuple) and x and x[0] in ("var", "tmp") and x[-1] == l for x in walk(e))
