"""A small interval evaluator over reconstructed MIR expressions, used to discharge arithmetic / bounds panic
sites by a closed-form range argument (constants, integer widenings, min/max with constants, masks, and
bounds implied by dominating comparisons with constants)."""
import re

from facts import norm, walk, strip_refs, deep_strip, guard_conditions, cmp_op, switch_edge_conds

TYPE_RANGE = {
    "u8": (0, 255), "i8": (-128, 127), "u16": (0, 65535), "i16": (-32768, 32767), "u32": (0, 2 ** 32 - 1), "i32": (-2 ** 31, 2 ** 31 - 1),
    "u64": (0, 2 ** 64 - 1), "i64": (-2 ** 63, 2 ** 63 - 1), "usize": (0, 2 ** 64 - 1), "isize": (-2 ** 63, 2 ** 63 - 1), "bool": (0, 1),
    "u128": (0, 2 ** 128 - 1), "i128": (-2 ** 127, 2 ** 127 - 1),
}

# value ranges of calls that are facts about library / domain functions
CALL_RANGE = {
    "Bitboard::count": (0, 64), "num::count_ones": (0, 64), "num::trailing_zeros": (0, 64), "num::leading_zeros": (0, 64),
    "Square::idx": (0, 63), "Square::array_idx": (0, 63), "File::idx": (0, 7), "Rank::idx": (0, 7), "File::array_idx": (0, 7), "Rank::array_idx": (0, 7),
    "Player::array_idx": (0, 1), "PieceKind::array_idx": (0, 5), "CastleRightsSide::array_idx": (0, 1),
    "ArrayVec::len": (0, 255), "PrincipalVariation::len": (0, 255),
}


class Ctx:
    def __init__(self, body, bb, fx, extra=None):
        self.body, self.bb, self.fx = body, bb, fx
        self.extra = extra or {}  # expression -> (lo, hi) beliefs supplied by the caller
        self._gb = {}


def local_of(e):
    if isinstance(e, tuple) and e and e[0] == "arg":
        return e[1]
    if isinstance(e, tuple) and e and e[0] == "var":
        return e[2]
    if isinstance(e, tuple) and e and e[0] == "tmp":
        return e[1]
    return None


def guard_bounds(ctx, l):
    """Bounds on local l implied by comparisons with constants that dominate ctx.bb, provided l is not redefined
    between the comparison and the site."""
    if l in ctx._gb:
        return ctx._gb[l]
    body = ctx.body
    ty = body.local_ty(l)
    lo, hi = TYPE_RANGE.get(ty, (None, None))
    def_blocks = {d[1] for d in body.defs().get(l, []) if d[0] in ("stmt", "call")}
    for (e, pol, where) in guard_conditions(body, ctx.bb, expand_named=False):
        if not isinstance(pol, bool):
            continue
        co = cmp_op(e)
        if not co:
            continue
        a, b = deep_strip(co[1]), deep_strip(co[2])
        op = co[0]
        if local_of(a) == l and isinstance(b, tuple) and b[0] == "const" and isinstance(b[1], int):
            c = b[1]
        elif local_of(b) == l and isinstance(a, tuple) and a[0] == "const" and isinstance(a[1], int):
            c = a[1]
            op = {"Lt": "Gt", "Gt": "Lt", "Le": "Ge", "Ge": "Le", "Eq": "Eq", "Ne": "Ne"}[op]
        else:
            continue
        # kill check: no redefinition of l on a path from the guard to the site
        gbb = where[0]
        killed = False
        for db in def_blocks:
            if db != gbb and db in body.reachable(gbb) and ctx.bb in body.reachable(db) and body.block_dominates(gbb, db):
                killed = True
        if killed:
            continue
        if not pol:
            op = {"Lt": "Ge", "Ge": "Lt", "Gt": "Le", "Le": "Gt", "Eq": "Ne", "Ne": "Eq"}[op]
        if op == "Lt":
            hi = c - 1 if hi is None else min(hi, c - 1)
        elif op == "Le":
            hi = c if hi is None else min(hi, c)
        elif op == "Gt":
            lo = c + 1 if lo is None else max(lo, c + 1)
        elif op == "Ge":
            lo = c if lo is None else max(lo, c)
        elif op == "Eq":
            lo = c if lo is None else max(lo, c)
            hi = c if hi is None else min(hi, c)
        elif op == "Ne":
            if lo is not None and c == lo:
                lo = lo + 1
            if hi is not None and c == hi:
                hi = hi - 1
    ctx._gb[l] = (lo, hi)
    return lo, hi


def rng(ctx, e, depth=0):
    """(lo, hi) bounds of integer expression e at the site, or None if unknown."""
    if depth > 30 or not isinstance(e, tuple) or not e:
        return None
    for k, v in ctx.extra.items():
        if e == k:
            return v
    t = e[0]
    if t == "const":
        if isinstance(e[1], bool):
            return (int(e[1]), int(e[1]))
        if isinstance(e[1], int):
            return (e[1], e[1])
        return None
    if t in ("ref", "deref"):
        return rng(ctx, e[1], depth + 1)
    if t in ("arg", "var", "tmp"):
        l = local_of(e)
        lo, hi = guard_bounds(ctx, l)
        if lo is None or hi is None:
            return None
        return (lo, hi)
    if t == "cast":
        r = rng(ctx, e[1], depth + 1)
        tr = TYPE_RANGE.get(e[2])
        if r and tr and tr[0] <= r[0] and r[1] <= tr[1]:
            return r
        return tr
    if t == "unop" and e[1] == "Neg":
        r = rng(ctx, e[2], depth + 1)
        return (-r[1], -r[0]) if r else None
    if t == "field" and e[2] == "0" and isinstance(e[1], tuple) and e[1] and e[1][0] == "binop" and e[1][1].endswith("WithOverflow"):
        return rng(ctx, ("binop", e[1][1][:-len("WithOverflow")], e[1][2], e[1][3]), depth + 1)
    if t == "binop":
        op = e[1].replace("WithOverflow", "")
        a, b = rng(ctx, e[2], depth + 1), rng(ctx, e[3], depth + 1)
        if op == "BitAnd":
            cands = [x for x in (a, b) if x and x[0] >= 0]
            if cands:
                return (0, min(x[1] for x in cands))
            return None
        if op == "Rem" and b and b[0] > 0:
            if a and a[0] >= 0:
                return (0, min(a[1], b[1] - 1))
            return (-(b[1] - 1), b[1] - 1)
        if a is None or b is None:
            return None
        if op == "Add":
            return (a[0] + b[0], a[1] + b[1])
        if op == "Sub":
            return (a[0] - b[1], a[1] - b[0])
        if op == "Mul":
            ps = [a[0] * b[0], a[0] * b[1], a[1] * b[0], a[1] * b[1]]
            return (min(ps), max(ps))
        if op == "Div" and (b[0] > 0 or b[1] < 0):
            ps = [int(a[0] / b[0]), int(a[0] / b[1]), int(a[1] / b[0]), int(a[1] / b[1])]
            return (min(ps), max(ps))
        if op == "Shr" and b[0] >= 0 and a[0] >= 0:
            return (a[0] >> b[1], a[1] >> b[0])
        if op == "Shl" and b[0] >= 0 and a[0] >= 0 and b[1] < 128:
            return (a[0] << b[0], a[1] << b[1])
        if op == "BitOr" and a[0] >= 0 and b[0] >= 0:
            m = max(a[1], b[1])
            return (0, (1 << m.bit_length()) - 1)
        return None
    if t == "call" and isinstance(e[1], str):
        nm = e[1]
        args = e[2]
        if cmp_op(e) is not None:
            return (0, 1)
        if nm.endswith("saturating_sub") and len(args) == 2:
            a, b = rng(ctx, args[0], depth + 1), rng(ctx, args[1], depth + 1)
            if a and b and a[0] >= 0 and b[0] >= 0:
                return (max(0, a[0] - b[1]), max(0, a[1] - b[0]))
            return None
        for suf, r in CALL_RANGE.items():
            if nm.endswith(suf):
                return r
        if re.search(r"From<(u8|i8|u16|i16|u32|i32|bool)>>::from$", nm) or nm.endswith("num::from") or nm.endswith("convert::From::from"):
            r = rng(ctx, args[0], depth + 1) if args else None
            if r:
                return r
            m = re.search(r"From<(u8|i8|u16|i16|u32|i32|bool)>>::from$", nm)
            return TYPE_RANGE.get(m.group(1)) if m else None
        if nm.endswith("cmp::min") or nm.endswith("Ord::min"):
            rs = [rng(ctx, a, depth + 1) for a in args]
            if all(rs):
                return (min(r[0] for r in rs), min(r[1] for r in rs))
            return None
        if nm.endswith("cmp::max") or nm.endswith("Ord::max"):
            rs = [rng(ctx, a, depth + 1) for a in args]
            if all(rs):
                return (max(r[0] for r in rs), max(r[1] for r in rs))
            return None
        if nm.endswith("saturating_sub") or nm.endswith("saturating_add") or nm.endswith("wrapping_add") or nm.endswith("wrapping_sub"):
            return None
        if nm.endswith("Clone>::clone") and args:
            return rng(ctx, args[0], depth + 1)
        return None
    return None


TYPE_MIN_UNKNOWN = None


def min_with_const_upper(ctx, e):
    """upper bound when e = min(x, c) even if x is unbounded"""
    d = deep_strip(e)
    if isinstance(d, tuple) and d[0] == "call" and (d[1].endswith("cmp::min") or d[1].endswith("Ord::min")):
        cs = [a[1] for a in d[2] if isinstance(a, tuple) and a[0] == "const" and isinstance(a[1], int)]
        if cs:
            return min(cs)
    return None


def fits(r, ty):
    tr = TYPE_RANGE.get(ty)
    return r is not None and tr is not None and tr[0] <= r[0] and r[1] <= tr[1]


def closure_range_param(fx, body):
    """For a closure whose enclosing functions only build constant ranges lo..hi, the closure parameters fed by
    `(lo..hi).map(|x| ..)` lie in [min lo, max hi - 1]. Returns (lo, hi) or None."""
    los, his = [], []
    cur = body
    hops = 0
    while cur is not None and hops < 4:
        parent = fx.bodies.get(cur.parent)
        if parent is None:
            break
        for bb, j, s in parent.stmts():
            rv = s.get("rv")
            if rv and rv["k"] == "agg" and rv.get("agg") == "adt" and norm(rv.get("adt", "")).endswith("ops::Range"):
                a, b = rv["ops"]
                if "int" in a and "int" in b:
                    los.append(a["int"])
                    his.append(b["int"] - 1)
                else:
                    return None
        cur = parent
        hops += 1
    if los:
        return (min(los), max(his))
    return None


def rng_with_callers(ctx, e, exclude=()):
    """rng(e) where parameters of the current function are bounded by the union of the ranges of the actual
    arguments at every call site (one level), or, for closures fed by constant ranges, by those ranges."""
    body, fx = ctx.body, ctx.fx
    extra = dict(ctx.extra)
    for x in walk(e):
        if isinstance(x, tuple) and x and x[0] == "arg" and x not in extra:
            i = x[1]
            if body.kind == "Closure":
                r = closure_range_param(fx, body)
                if r:
                    extra[x] = r
                continue
            callers = [c for c in fx.callers_of(lambda n: fx.body(n) is not None and fx.body(n).name == body.name) if "::tests::" not in c[0].name and not any(c[0].name.startswith(p) for p in exclude)]
            rs = []
            for (cb, bb, t) in callers:
                ae = cb.expr(t["args"][i - 1], expand_named=True, at=bb)
                cctx = Ctx(cb, bb, fx)
                r = rng(cctx, ae)
                if cb.kind == "Closure":
                    cr = closure_range_param(fx, cb)
                    if cr:
                        ex = {y: cr for y in walk(ae) if isinstance(y, tuple) and y and y[0] in ("arg", "var")}
                        # a captured loop variable of an enclosing closure: (*(*env).k)
                        d = deep_strip(ae)
                        if isinstance(d, tuple) and d[0] == "field" and isinstance(d[1], tuple) and d[1][0] == "arg" and d[1][1] == 1:
                            ex[ae] = cr
                        r2 = rng(Ctx(cb, bb, fx, ex), ae)
                        if r2 is not None and (r is None or (r2[1] - r2[0]) < (r[1] - r[0])):
                            r = r2
                if r is None:
                    rs = None
                    break
                rs.append(r)
            if rs:
                extra[x] = (min(r[0] for r in rs), max(r[1] for r in rs))
    return rng(Ctx(body, ctx.bb, fx, extra), e)
