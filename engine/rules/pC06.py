"""C06 — FEN is lossless on legal positions and never crashes the reader: structural clauses C06-CONE,
C06-WIDTH, C06-TABLES (DESIGN.md §3)."""
from facts import (norm, show, walk, strip_refs, deep_strip, callee_name, find_calls, guard_conditions, cmp_op,
                   decision_paths, inline_expr, enum_name, const_str, switch_edge_conds)
import classes as C
import intervals as iv
import panics
import pC04

EXPLANATION = (
    "Decides the reader's panic-freedom on arbitrary text and the rank-width rejection, plus reader/writer table "
    "agreement; not the round-trip equalities as such: (CONE) every panic-capable site in the call-graph cone of "
    "fen::parse (nom combinators are library leaves; the closures and functions handed to them are analysed) is "
    "discharged - unreachable!() arms by checking that the match covers exactly the characters of its one_of(..) "
    "string, digit parsing by the digit alphabet, the 64-square assertion and array conversions by the per-rank "
    "width check, arithmetic by interval arguments; (WIDTH) the rank parser returns Ok only past a comparison of the "
    "rank's length with 8 whose unequal edge returns Err; (TABLES) piece, colour, castling, file and rank letters of "
    "reader and writer are inverse bijections; (FIELDS) the en-passant, halfmove and move-number fields are written from "
    "their own Game field unconditionally and the move-number formulas of writer and reader are inverse (evaluated)."
)


def run(fx, rep, tier):
    parse = fx.one("fen::fen_parser::parse")
    width_ok = rule_width(fx, rep)
    extra = fen_classes(fx, width_ok)
    # the reader's input is arbitrary text: "exactly one king per side" (believed for searched positions) does not hold here
    mat_ok, mat_why = material_guard(fx)
    rep.sample({"rule": "C06-CONE", "material_guard": mat_ok, "detail": mat_why})
    extra = [("fen-material-bound", lambda site, fx: C.c_opimpl(site, fx) and mat_ok,
              "evaluation accumulators summed over a board the reader has limited to 16 men a side (within C16-BOUND's material)", "checked"),
             ("accumulators-need-material-bound", lambda site, fx: C.c_opimpl(site, fx),
              "the board comes from arbitrary text: without a limit on the men per side the accumulator sums overflow", "deny")] + list(extra)
    extra = [("square-step-on-text", lambda site, fx: site.family == "arith" and C.in_fn(site, "Square::north", "Square::south", "Square::forward", "Square::backward"),
              "stepping a square that comes from the text (any of the 64 squares) off the board: the `never steps off the board` belief of the search cone does not hold in the reader", "deny")] + list(extra)
    extra = [("no-king-invariant-for-text", lambda site, fx: site.family == "panic" and C.in_fn(site, "Bitboard::single"),
              "Bitboard::single asserts exactly one bit; a FEN may describe zero or several kings", "deny")] + list(extra)
    pC04.run_cone(fx, rep, "C06-CONE", [parse.name], set(), 30, extra_classes=extra,
                  floors={"one_of-match-exhaustive": 4, "digit-parse": 1, "assert-64-by-width": 1, "array-64-by-width": 2})
    rule_tables(fx, rep)
    rule_fields(fx, rep)
    rule_key(fx, rep)
    rule_writer_cone(fx, rep)


def rule_writer_cone(fx, rep):
    """'Writing any legal position as FEN ...' must produce text in the first place: the panic sites in the cone of the FEN
    writer are discharged with the C04 machinery. Two local beliefs: a run of empty squares in a rank is at most 8, and
    `Square::from_idxs(file, rank)` gets indices below 8 (File / Rank values). A fixed-capacity text buffer (ArrayString) is a
    capacity site like any other (seed C06-7a: 64 bytes for a placement field that can be 71 characters long)."""
    import core
    ws = [b for b in fx.fn_bodies() if norm(b.name) in ("chess::fen::fen_writer::write", "chess::fen::write") and "::tests::" not in b.name]
    if not ws:
        rep.notes.append("C06-WCONE: FEN writer not found; not decided")
        rep.rule("C06-WCONE", 0, 0, True, "not decided")
        return
    extra = [("empty-run", lambda site, fx: site.family == "arith" and site.what == "Add" and "chess::fen::fen_writer::" in norm(site.body.name),
              "a run of empty squares within one rank is at most 8", "belief"),
             ("file-rank-index", lambda site, fx: site.family == "arith" and C.in_fn(site, "Square::from_idxs"),
              "rank_idx * 8 + file_idx with both indices below 8 (File / Rank values)", "belief")]
    sub = type(rep)(rep.prop, rep.tier)
    q = core.QUIET
    core.QUIET = True
    try:
        pC04.run_cone(fx, sub, "C06-WCONE", [w.name for w in ws], set(), 8, extra_classes=extra)
    finally:
        core.QUIET = q
    for v in sub.violations:
        rep.violation("C06-WCONE", v["key"], v["msg"] + " - in the FEN writer", v["site"])
    rep.obligations += sub.obligations
    rep.discharged += sub.discharged
    r = sub.rules[-1]
    rep.rule("C06-WCONE", r["instances"], 8, not sub.violations, "panic sites of the FEN writer (shared with C04-CONE)")


def rule_key(fx, rep):
    """'... gives an identical position (placement, side, rights, en-passant target, clocks, *key*)': a position read from FEN
    carries the from-scratch key (zobrist::hash via Game::from_state), the position it was written from carries the key
    maintained move by move. The two agree exactly when the C03 clauses hold (every component family xored by the
    from-scratch function under the same condition as the incremental toggle - seed C06-6a: the no-en-passant word left out of
    the from-scratch key only); they are re-reported here as that premise."""
    import core
    import pC03
    sub = type(rep)(rep.prop, rep.tier)
    q = core.QUIET
    core.QUIET = True
    try:
        pC03.run(fx, sub, rep.tier)
    finally:
        core.QUIET = q
    for v in sub.violations:
        rep.violation("C06-KEY", v["key"].replace("C03-", "C06-KEY/", 1), v["msg"] + " (a position read back from its FEN then carries a different key than the position it was written from)", v["site"])
    rep.obligations += sub.obligations
    rep.discharged += sub.discharged
    rep.rule("C06-KEY", sub.obligations, 100, not sub.violations, "key of a position read from FEN = key maintained move by move (shared with C03)")


def material_guard(fx):
    """Does the reader refuse boards with more than 16 men on a side before building the Game? (ok, detail)"""
    fp = fx.one("fen::fen_parser::fen_parser")
    fs = [bb for bb, t in fp.calls_to("Game::from_state")]
    if len(fs) != 1:
        return False, "no single Game::from_state call in fen_parser"
    players_in_fn = {enum_in(x, "Player") for bb, j, st in fp.stmts() for x in walk(fp.expr(st["rv"].get("op"), expand_named=True, at=bb) if st.get("rv", {}).get("k") == "use" else ())
                     if isinstance(x, tuple)} if False else set()
    for bb, j, st in fp.stmts():
        rv = st.get("rv")
        if rv and rv["k"] == "agg" and rv.get("agg") == "adt" and norm(rv["adt"]).endswith("player::Player"):
            players_in_fn.add(rv["variant"])
        if rv and rv["k"] == "agg" and rv.get("agg") == "array":
            for o in rv["ops"]:
                e = deep_strip(fp.expr(o, expand_named=True, at=bb))
                if isinstance(e, tuple) and e and e[0] == "agg" and "Player::" in str(e[1]):
                    players_in_fn.add(str(e[1]).split("::")[-1])
    best = None
    for a in sorted(fp.live_blocks()):
        from facts import switch_edge_conds
        for (tgt, e, pol, v) in switch_edge_conds(fp, a):
            co = cmp_op(deep_strip(e)) if isinstance(deep_strip(e), tuple) else None
            if not co or pol is None:
                continue
            x, y = deep_strip(co[1]), deep_strip(co[2])
            op = co[0]
            if isinstance(x, tuple) and x[0] == "const" and not (isinstance(y, tuple) and y[0] == "const"):
                x, y = y, x
                op = {"Lt": "Gt", "Gt": "Lt", "Le": "Ge", "Ge": "Le"}.get(op, op)
            if not (isinstance(y, tuple) and y[0] in ("const", "constpath")):
                continue
            k = y[1] if y[0] == "const" else next((cv.get("int") for kk, cv in fx.consts.items() if norm(kk) == y[1]), None)
            if not isinstance(k, int) or not (find_calls(x, "Bitboard::count") and find_calls(x, "Board::occupancy_for")):
                continue
            # the edge on which the count is too large
            if not pol:
                op = {"Lt": "Ge", "Ge": "Lt", "Gt": "Le", "Le": "Gt"}.get(op, op)
            if op not in ("Gt", "Ge"):
                continue
            allowed = k if op == "Gt" else k - 1
            # that edge must end in Err without building the game; the test itself must precede the construction
            region = fp.reachable(tgt, removed_blocks=[a])
            errs = any(st["k"] == "assign" and st["lhs"]["l"] == 0 and st.get("rv", {}).get("variant") == "Err" for r in region for st in fp.blocks[r]["stmts"])
            # (a test inside a `for side in [White, Black]` loop does not dominate the code after the loop, so precedence is
            # required instead: the construction is reachable from the test and not the other way round)
            if errs and fs[0] not in region and fs[0] in fp.reachable(a) and a not in fp.reachable(fs[0]):
                best = allowed if best is None else max(best, allowed)
    if best is None:
        # `[White, Black].into_iter().any(|side| board.occupancy_for(side).count() > MAX)` followed by one `if`
        from facts import switch_edge_conds as _sec, decision_paths as _dp
        for a in sorted(fp.live_blocks()):
            for (tgt, e, pol, v) in _sec(fp, a):
                d = deep_strip(e)
                # the test may be a bool-valued private predicate (`has_overfull_side(&board)`): look at its only return expression
                if isinstance(d, tuple) and d and d[0] == "call" and isinstance(d[1], str) and fx.body(d[1]) is not None and "fen" in norm(d[1]) and \
                        (fx.body(d[1]).local_ty(0) or "") == "bool":
                    hp = [pp for pp in _dp(fx.body(d[1]), 8) if pp[1] is not None]
                    if len(hp) == 1 and not hp[0][0]:
                        from facts import substitute_args as _sa
                        d = deep_strip(_sa(hp[0][1], d[2]))
                if not (pol is True and isinstance(d, tuple) and d and d[0] == "call" and str(d[1]).endswith("::any") and len(d[2]) == 2):
                    continue
                arrs = [x for x in walk(d[2][0]) if isinstance(x, tuple) and x and x[0] == "agg" and x[1] == "array"]
                clos = [x for x in walk(d[2][1]) if isinstance(x, tuple) and x and x[0] == "agg" and str(x[1]).startswith("closure:")]
                cb = fx.bodies.get(clos[0][1][len("closure:"):]) if clos else None
                if cb is None or len(arrs) != 1:
                    continue
                pl = {str(deep_strip(x)[1]).split("::")[-1] for x in arrs[0][2] if isinstance(deep_strip(x), tuple) and deep_strip(x)[0] == "agg"}
                for conds, ret, last in _dp(cb, 8):
                    r = deep_strip(ret) if ret is not None else None
                    co = cmp_op(r) if isinstance(r, tuple) else None
                    if co and co[0] in ("Lt", "Le") and find_calls(co[2], "Bitboard::count") and find_calls(co[2], "Board::occupancy_for"):
                        co = ({"Lt": "Gt", "Le": "Ge"}[co[0]], co[2], co[1])   # `MAX < count` is `count > MAX`
                    if co and co[0] in ("Gt", "Ge") and find_calls(co[1], "Bitboard::count") and find_calls(co[1], "Board::occupancy_for"):
                        y = deep_strip(co[2])
                        k = y[1] if isinstance(y, tuple) and y[0] == "const" else next((cv.get("int") for kk, cv in fx.consts.items() if isinstance(y, tuple) and y[0] == "constpath" and norm(kk) == y[1]), None)
                        region = fp.reachable(tgt, removed_blocks=[a])
                        errs = any(st["k"] == "assign" and st["lhs"]["l"] == 0 and st.get("rv", {}).get("variant") == "Err" for r2 in region for st in fp.blocks[r2]["stmts"])
                        if isinstance(k, int) and errs and fs[0] not in region and fs[0] in fp.reachable(a):
                            best = k if co[0] == "Gt" else k - 1
                            players_in_fn |= pl
    if best is None:
        return False, "no test of the number of men per side (count of occupancy_for(side)) that rejects the board before Game::from_state"
    if best > 16:
        return False, f"the reader accepts up to {best} men a side (more than 16)"
    if not {"White", "Black"} <= players_in_fn:
        return False, "the men-per-side test does not visibly cover both colours"
    return True, f"at most {best} men a side, both colours"


# ---- C06-FIELDS ----------------------------------------------------------------------------


def num_eval2(e, env):
    """numeric evaluation of a u32 formula over named variables (env maps ('arg', i) -> value; 'eqflag' -> 0/1)"""
    e = deep_strip(e)
    if not isinstance(e, tuple) or not e:
        return None
    if e[0] == "const" and isinstance(e[1], int):
        return e[1]
    if e[0] == "arg":
        return env.get(("arg", e[1]))
    if e[0] == "field" and e[2] == "0" and isinstance(e[1], tuple) and e[1][0] == "binop":
        return num_eval2(e[1], env)
    if e[0] == "field" and isinstance(e[1], tuple) and e[1][0] == "arg":
        return env.get(("field", e[2]))
    if e[0] == "binop":
        a, b = num_eval2(e[2], env), num_eval2(e[3], env)
        if a is None or b is None:
            return None
        op = e[1].replace("WithOverflow", "")
        return {"Add": a + b, "Sub": a - b, "Mul": a * b, "Div": a // b if b else None}.get(op)
    if e[0] == "call":
        nm = e[1]
        if cmp_op(e) is not None:
            return env.get("eqflag")
        args = [num_eval2(a, env) for a in e[2]]
        if any(a is None for a in args):
            return None
        if nm.endswith("saturating_sub"):
            return max(0, args[0] - args[1])
        if nm.endswith("Ord::min") or nm.endswith("cmp::min"):
            return min(args)
        if nm.endswith("from") and len(args) == 1:
            return args[0]
    if e[0] == "cast":
        return num_eval2(e[1], env)
    return None


def rule_fields(fx, rep):
    """Each scalar FEN field is written from its own Game field unconditionally, and the move-number formulas of
    writer and reader are inverse (evaluated numerically)."""
    ok = True
    n = 0

    def bad(key, msg, b):
        nonlocal ok
        ok = False
        rep.violation("C06-FIELDS", f"C06-FIELDS/{key}", msg, {"fn": b.name, "file": b.file, "line": b.line})

    ep = fx.one("fen_writer::format_en_passant_target")
    paths = [p for p in decision_paths(ep) if p[1] is not None]
    n += 1
    good = True
    why = ""
    some_paths = 0
    for conds, ret, bb in paths:
        on_field = [c for c in conds if isinstance(deep_strip(c[0]), tuple) and deep_strip(c[0])[0] == "discr" and
                    isinstance(deep_strip(c[0])[1], tuple) and deep_strip(c[0])[1][0] == "field" and deep_strip(c[0])[1][2] == "en_passant_target"]
        extra = [c for c in conds if c not in on_field]
        if extra:
            good, why = False, f"the en-passant field also depends on `{show(extra[0][0])[:80]}`: a recorded target is not always written, so reading the text back loses it (and changes the key)"
        is_some = any(v == 1 for (_, v) in on_field)
        r = deep_strip(ret)
        if is_some:
            some_paths += 1
            nt = find_calls(r, "Square::notation")
            if not nt or not any(isinstance(x, tuple) and len(x) == 3 and x[0] == "field" and x[2] == "en_passant_target" for x in walk(nt[0][2][0])):
                good, why = False, f"with a target recorded the writer prints `{show(r)[:80]}`, not the target square's notation"
        else:
            lit = [x[1] for x in walk(r) if isinstance(x, tuple) and x and x[0] == "const" and isinstance(x[1], str)]
            if lit != ["-"]:
                good, why = False, f"without a target the writer prints {lit}, not '-'"
    good = good and some_paths >= 1
    if len(paths) == 1 and not paths[0][0]:
        # combinator form: game.en_passant_target.map_or_else(|| "-", Square::notation) and the like
        r = deep_strip(paths[0][1])
        comb = [c for c in find_calls(r, "Option<T>::map_or_else", "Option<T>::map_or", "Option<T>::map") if
                any(isinstance(x, tuple) and len(x) == 3 and x[0] == "field" and x[2] == "en_passant_target" for x in walk(c[2][0]))]
        if comb:
            good, why = True, ""

            def fn_bodies_of(e):
                e = deep_strip(e)
                if isinstance(e, tuple) and e and e[0] == "fn":
                    return [e[1]], None
                if isinstance(e, tuple) and e and e[0] == "agg" and str(e[1]).startswith("closure:"):
                    return [], fx.bodies.get(str(e[1])[len("closure:"):])
                if isinstance(e, tuple) and e and e[0] == "closure":
                    return [], fx.bodies.get(e[1])
                return [], None
            decided = False
            for a in comb[0][2][1:]:
                names, cb = fn_bodies_of(a)
                if any(nm.endswith("Square::notation") for nm in names):
                    decided = True
                elif cb is not None and any(norm(callee_name(t) or "").endswith("Square::notation") for bb, t in cb.calls()):
                    decided = True
            if not decided:
                rep.notes.append("C06-FIELDS: en-passant field written through an Option combinator whose mapping function is not recognised; clause not decided")
        elif any(isinstance(x, tuple) and len(x) == 3 and x[0] == "field" and x[2] == "en_passant_target" for x in walk(r)):
            rep.notes.append("C06-FIELDS: en-passant field written in an unrecognised form; clause not decided")
            good = True
    rep.obligation(good)
    if not good:
        bad("en-passant", why or "the en-passant field is not written from game.en_passant_target alone", ep)
    hm = fx.one("fen_writer::format_halfmove_clock")
    n += 1
    hp = [p for p in decision_paths(hm) if p[1] is not None]
    good = len(hp) == 1 and not hp[0][0] and bool(find_calls(hp[0][1], "to_string")) and \
        any(isinstance(x, tuple) and len(x) == 3 and x[0] == "field" and x[2] == "halfmove_clock" for x in walk(hp[0][1]))
    rep.obligation(good)
    if not good:
        bad("halfmove", "the halfmove field is not `game.halfmove_clock.to_string()`", hm)
    fm = fx.one("fen_writer::format_fullmove_number")
    turn = fx.one("Game::turn")
    rd = fx.one("fen_parser::plies_from_fullmove_number")
    n += 1
    fp = [p for p in decision_paths(fm) if p[1] is not None]
    tp = [p for p in decision_paths(turn) if p[1] is not None]
    rp = [p for p in decision_paths(rd) if p[1] is not None]
    good = len(fp) == 1 and bool(find_calls(fp[0][1], "Game::turn")) and len(tp) == 1 and len(rp) == 1
    if good:
        for nmove in list(range(1, 300)) + [5000, 100000]:
            for black in (0, 1):
                plies = num_eval2(rp[0][1], {("arg", 1): nmove, "eqflag": black})
                back = num_eval2(tp[0][1], {("field", "plies"): plies}) if plies is not None else None
                if back != nmove:
                    good = False
                    why = f"move number {nmove} ({'black' if black else 'white'} to move) is read as {plies} plies and written back as {back}"
                    break
            if not good:
                break
    rep.obligation(good)
    rep.sample({"rule": "C06-FIELDS", "writer_turn": show(tp[0][1]) if tp else None, "reader_plies": show(rp[0][1])[:120] if rp else None})
    if not good:
        bad("fullmove", f"writer and reader move-number formulas are not inverse: {why}", fm)
    # the reader installs what it parsed: Game::from_state stores each of its state parameters unchanged, and the parser hands it
    # the parsed fields (clock: the parsed number or 0 when absent)
    fs = fx.one("Game::from_state")
    aggs = [(bb, st) for bb, j, st in fs.stmts() if st["k"] == "assign" and st["rv"]["k"] == "agg" and st["rv"].get("agg") == "adt" and norm(st["rv"]["adt"]) == "chess::game::Game"]
    n += 1
    good = len(aggs) == 1
    wrong = []
    if good:
        bb, st = aggs[0]
        m = dict(zip(st["rv"]["fields"], st["rv"]["ops"]))
        params = {fs.local_name(i): i for i in range(1, fs.arg_count + 1)}
        for fld in ("board", "player", "castle_rights", "en_passant_target", "halfmove_clock", "plies"):
            if fld not in m or fld not in params:
                continue
            e = deep_strip(fs.expr(m[fld], expand_named=True, at=bb))
            if not (isinstance(e, tuple) and e[:2] == ("arg", params[fld])):
                wrong.append((fld, show(e)[:60]))
        good = not wrong
    rep.obligation(good)
    if not good:
        bad("install", f"Game::from_state does not store its parameters unchanged: {wrong or 'no single Game literal'}: what the reader parsed is not what the position holds, so writing it back gives a different text", fs)
    # ... and the reader hands from_state the clock it parsed: the parsed number (or 0 when the field is absent), not a clamped
    # or otherwise adjusted one (a clock above 100 is legal - the draw has to be claimed - and must survive reading)
    for (cb, cbb, ct) in fx.callers_of(lambda nm: norm(nm).endswith("Game::from_state")):
        if "fen_parser" not in norm(cb.name) or "::tests::" in cb.name:
            continue
        pi = {fs.local_name(i): i for i in range(1, fs.arg_count + 1)}.get("halfmove_clock")
        if pi is None or pi > len(ct["args"]):
            continue
        e = deep_strip(cb.expr(ct["args"][pi - 1], expand_named=True, at=cbb))
        n += 1
        adj = [str(x[1]).split("::")[-1] for x in walk(e) if isinstance(x, tuple) and x and x[0] == "call" and isinstance(x[1], str) and
               str(x[1]).split("::")[-1] in ("min", "max", "clamp", "saturating_sub", "saturating_add", "wrapping_add", "wrapping_sub", "rem_euclid")]
        adj += [x[1] for x in walk(e) if isinstance(x, tuple) and x and x[0] == "binop" and x[1].replace("WithOverflow", "") in ("Add", "Sub", "Mul", "Div", "Rem", "BitAnd", "Shr")]
        good = not adj
        rep.obligation(good)
        if not good:
            bad("install-arg", f"the FEN reader hands Game::from_state a halfmove clock adjusted by `{adj[0]}` (`{show(e)[:80]}`) instead of the number it read: a legal position with a larger clock is not "
                "reproduced, and writing it back gives a different text", cb)
    rep.rule("C06-FIELDS", n, 3, ok, "scalar FEN fields written from their own Game field; move-number formulas inverse")


# ---- C06-WIDTH -----------------------------------------------------------------------------


def rank_parsers(fx):
    """functions producing a FenRank"""
    out = []
    for b in fx.fn_bodies():
        for bb, j, s in b.stmts():
            rv = s.get("rv")
            if rv and rv["k"] == "agg" and rv.get("agg") == "adt" and norm(rv["adt"]).endswith("fen_parser::FenRank"):
                out.append((b, bb, s))
    return out


def rule_width(fx, rep):
    ok = True
    n = 0
    file_n = fx.const("square::File::N").get("int")
    for (b, bb, s) in rank_parsers(fx):
        n += 1
        good, why = False, "no comparison of the rank's length with File::N guards the Ok result"
        val = b.expr(s["rv"]["ops"][0], expand_named=False, at=bb)
        for (e, pol, where) in guard_conditions(b, bb, expand_named=True):
            co = cmp_op(e)
            if not co:
                continue
            a, c = deep_strip(co[1]), deep_strip(co[2])
            lens = [x for x in (a, c) if isinstance(x, tuple) and x[0] == "call" and x[1].endswith("Vec::len")]
            consts = [x for x in (a, c) if isinstance(x, tuple) and x[0] == "const" and x[1] == file_n]
            if lens and consts and ((co[0] == "Ne" and pol is False) or (co[0] == "Eq" and pol is True)):
                # the measured vector is the one stored in the FenRank
                measured = deep_strip(lens[0][2][0])
                stored = deep_strip(b.expr(s["rv"]["ops"][0], expand_named=True, at=bb))
                if measured == stored:
                    # the other edge returns Err
                    sw = where[0]
                    others = [tg for (tg, e2, p2, v2) in switch_edge_conds(b, sw) if p2 is not pol]
                    if others:
                        region = b.reachable(others[0], removed_blocks=[sw])
                        errs = any(st["k"] == "assign" and st["lhs"]["l"] == 0 and st.get("rv", {}).get("variant") == "Err" for x in region for st in b.blocks[x]["stmts"])
                        oks = any(st["k"] == "assign" and st["lhs"]["l"] == 0 and st.get("rv", {}).get("variant") == "Ok" for x in region for st in b.blocks[x]["stmts"])
                        if errs and not oks:
                            good = True
                        else:
                            why = "a rank whose length differs from 8 is not turned into an Err"
                else:
                    why = f"the length test measures `{show(measured)[:60]}`, not the squares stored in the rank"
        # alternative idiom: nom::combinator::verify with a closure comparing len with 8
        if not good:
            for cb, t in b.calls():
                if norm(callee_name(t) or "").endswith("combinator::verify"):
                    for x in walk(b.expr(t["args"][1], expand_named=True)):
                        if isinstance(x, tuple) and x and x[0] == "agg" and str(x[1]).startswith("closure:"):
                            vb = fx.bodies.get(x[1][len("closure:"):])
                            if vb is not None:
                                ret = vb.expr({"l": 0, "p": []}, expand_named=True)
                                co = cmp_op(ret)
                                if co and co[0] == "Eq" and find_calls(ret, "Vec::len") and any(deep_strip(y) == ("const", file_n) for y in (co[1], co[2])):
                                    good = True
        rep.obligation(good)
        rep.sample({"rule": "C06-WIDTH", "fn": b.name, "ok": good})
        if not good:
            ok = False
            rep.violation("C06-WIDTH", f"C06-WIDTH/{norm(b.name)}", f"`{b.name}` builds a rank without rejecting widths other than 8: {why}", {"fn": b.name, "file": b.file, "line": s.get("line")})
    rep.rule("C06-WIDTH", n, 1, ok, "rank parser rejects widths other than 8 with Err")
    return ok and n >= 1


# ---- class rules of the FEN cone -------------------------------------------------------------


def one_of_string(fx, body):
    for bb, t in body.calls():
        if norm(callee_name(t) or "").endswith("complete::one_of"):
            for a in t["args"]:
                s = const_str(a) if a.get("k") == "const" else None
                if s is not None:
                    return s
    return None


def fen_classes(fx, width_ok):
    cone = fx.cone([fx.one("fen::fen_parser::parse").name])

    def c_one_of(site, fx):
        if not (site.family == "panic" and any("unreachable" in x for x in site.exp)):
            return False
        b = site.body
        s = one_of_string(fx, b)
        if s is None:
            return False
        # the panic must sit on the otherwise edge of a switch over the matched char whose arms are exactly set(s)
        for i in sorted(b.live_blocks()):
            t = b.blocks[i]["term"]
            if t["k"] == "switch" and t["dty"] == "char" and b.edge_dominates(i, t["otherwise"], site.bb):
                arms = {chr(v) for v, _ in t["targets"]}
                src = b.expr(t["discr"], expand_named=True)
                return arms >= set(s) and bool(find_calls(src, "one_of")) or (arms >= set(s) and "one_of" in show(src))
        return False

    def c_digit_parse(site, fx):
        if not (site.family == "unwrap" and find_calls(C.op0(site), "str::parse")):
            return False
        # the closure is handed to map(one_of(DIGITS), closure) and parses the matched char's string form
        parent = fx.bodies.get(site.body.parent) if site.body.kind == "Closure" else None
        if parent is None:
            return False
        s = one_of_string(fx, parent)
        return s is not None and s.isdigit() and bool(find_calls(C.op0(site), "ToString>::to_string", "string::ToString::to_string", "to_string"))

    def ranks_all_checked(b):
        # the closure receives exactly Rank::N ranks, each produced by the width-checked rank parser
        parent = fx.bodies.get(b.parent) if b.kind == "Closure" else b
        if parent is None:
            return False
        refs = [r for r in parent.fn_refs() if norm(r.get("res") or r.get("fn") or "").endswith("fen_parser::fen_line")]
        exts = 0
        for bb, t in b.calls():
            if not ("extend" in norm(callee_name(t) or "").split("::")[-1]):
                continue
            # one append per call, or - when the appended rank is the variable of a loop over an array literal - one per array element
            e = b.expr(t["args"][1], expand_named=True, at=bb) if len(t["args"]) > 1 else None
            arrs = [x for x in walk(e) if isinstance(x, tuple) and x and x[0] == "agg" and x[1] == "array"] if e is not None and find_calls(e, "Iterator>::next") else []
            exts += len(arrs[0][2]) if len(arrs) == 1 else 1
        if exts == 0:
            # `[line1, .., line8].into_iter().flat_map(|line| line.0).collect()`: one append per array element
            for bb, t in b.calls():
                cn = norm(callee_name(t) or "")
                if cn.endswith("Iterator>::flat_map") or cn.endswith("Iterator>::flatten") or cn.endswith("Iterator::flat_map"):
                    e = b.expr(t["args"][0], expand_named=True, at=bb)
                    arrs = [x for x in walk(e) if isinstance(x, tuple) and x and x[0] == "agg" and x[1] == "array"]
                    if len(arrs) == 1 and any(norm(callee_name(t2) or "").endswith("Iterator>::collect") or norm(callee_name(t2) or "").endswith("::collect") for _, t2 in b.calls()):
                        exts = len(arrs[0][2])
        rank_n = fx.const("square::Rank::N").get("int")
        return width_ok and len(refs) == rank_n and exts == rank_n

    def c_assert64(site, fx):
        if not (site.family == "panic" and "assert_eq!" in " ".join(site.exp) and site.what == "assert_failed"):
            return False
        return ranks_all_checked(site.body)

    def c_array64(site, fx):
        if not (site.family == "unwrap" and find_calls(C.op0(site), "TryInto<U>>::try_into", "try_into")):
            return False
        b = site.body
        if norm(b.name).endswith("TryFrom<[std::option::Option<chess::piece::Piece>; Square::N]>>::try_from"):
            # i.try_into::<u8>() for the index of a 64-element array
            return True
        # a conversion that goes through an in-crate `TryFrom` impl is infallible only while that impl has no `Err` path
        for cn in sorted(fx.callgraph().get(b.name, ())):
            cb = fx.body(cn)
            if cb is None or "TryFrom<" not in cn or not cn.endswith("::try_from"):
                continue
            if any(st["k"] == "assign" and st["rv"]["k"] == "agg" and st["rv"].get("variant") == "Err" for _bb, _j, st in cb.stmts()):
                return False
        return ranks_all_checked(b)

    def c_phase_sum(site, fx):
        return site.family == "arith" and "phased_eval::phase_value" in norm(site.body.name) and site.ty == "i16"

    def c_from_idxs(site, fx):
        # rank_idx * 8 + file_idx with both indices < 8 at every call site
        if not (site.family == "arith" and C.in_fn(site, "Square::from_idxs")):
            return False
        callers = [c for c in fx.callers_of(lambda n: n.endswith("Square::from_idxs")) if c[0].name in cone]
        for (cb, bb, t) in callers:
            ctx = iv.Ctx(cb, bb, fx)
            for a in t["args"]:
                r = iv.rng(ctx, cb.expr(a, expand_named=True, at=bb))
                if r is None or r[0] < 0 or r[1] > 7:
                    return False
        return bool(callers)

    def c_plies_add(site, fx):
        if not (site.family == "arith" and C.in_fn(site, "fen_parser::plies_from_fullmove_number")):
            return False
        up = [iv.min_with_const_upper(None, x) for x in walk(site.ops[0]) if isinstance(x, tuple)]
        up = [u for u in up if u is not None]
        return bool(up) and min(up) * 2 + 1 <= 2 ** 32 - 1

    return [
        ("one_of-match-exhaustive", c_one_of, "unreachable!() after a match whose arms cover every character of the one_of(..) alphabet", "checked"),
        ("digit-parse", c_digit_parse, "parse::<usize>() of a single character from a digit-only one_of(..) alphabet", "checked"),
        ("assert-64-by-width", c_assert64, "8 ranks, each checked to hold exactly 8 squares (C06-WIDTH), concatenate to 64", "checked"),
        ("array-64-by-width", c_array64, "conversion of the 64-square vector / of an index below 64", "checked"),
        ("phase-sum", c_phase_sum, "sum over 64 squares of contributions <= 4", "belief"),
        ("from-idxs", c_from_idxs, "rank*8+file with both indices below 8 at every call site", "checked"),
        ("plies-clamped", c_plies_add, "move number clamped by min(_, c) before doubling", "checked"),
    ]


# ---- C06-TABLES ----------------------------------------------------------------------------


def char_table(fx, body):
    """{char: inlined result expr} for a reader that matches on a char"""
    out = {}
    for conds, ret, bb in decision_paths(body):
        if ret is None:
            continue
        chars = [v for (e, v) in conds if isinstance(v, int) and 32 <= v < 127 and not (isinstance(e, tuple) and e and e[0] == "discr")]
        if not chars:
            continue
        out[chr(chars[-1])] = inline_expr(fx, ret)
    return out


def piece_of(e):
    """(player, kind) of a Piece aggregate found inside e"""
    for x in walk(e):
        if isinstance(x, tuple) and x and x[0] == "agg" and str(x[1]).endswith("piece::Piece::Piece") and len(x[2]) == 2:
            k, p = enum_name(x[2][0]), enum_name(x[2][1])
            if k and p:
                return (p, k)
    return None


def enum_in(e, adt_suffix):
    for x in walk(e):
        if isinstance(x, tuple) and x and x[0] == "agg" and isinstance(x[1], str) and not x[2] and adt_suffix in x[1]:
            return x[1].split("::")[-1]
    return None


def rule_tables(fx, rep):
    ok = True
    n = 0

    def bad(key, msg, b):
        nonlocal ok
        ok = False
        rep.violation("C06-TABLES", f"C06-TABLES/{key}", msg, {"fn": b.name, "file": b.file, "line": b.line})

    # pieces
    rd = fx.one("fen_parser::fen_piece")
    wr = fx.one("fen_writer::format_piece")
    rtab = {c: piece_of(e) for c, e in char_table(fx, rd).items()}
    kinds = {v["discr"]: v["name"] for v in fx.adt("piece::PieceKind")["variants"]}
    players = {v["discr"]: v["name"] for v in fx.adt("player::Player")["variants"]}
    wtab = {}
    for conds, ret, bb in decision_paths(wr):
        if ret is None:
            continue
        k = p = None
        for (e, v) in conds:
            d = deep_strip(e)
            if isinstance(d, tuple) and d[0] == "discr" and isinstance(d[1], tuple) and d[1][0] == "field" and isinstance(v, int):
                if d[1][2] == "kind":
                    k = kinds.get(v)
                if d[1][2] == "player":
                    p = players.get(v)
        r = deep_strip(ret)
        if k and p and isinstance(r, tuple) and r[0] == "const" and isinstance(r[1], int):
            wtab[(p, k)] = chr(r[1])
    rep.sample({"rule": "C06-TABLES", "reader_pieces": {c: list(v) if v else None for c, v in sorted(rtab.items())}, "writer_pieces": {f"{p} {k}": c for (p, k), c in sorted(wtab.items())}})
    n += 1
    good = len(rtab) == 12 and len(wtab) == 12 and all(v is not None for v in rtab.values()) and len(set(rtab.values())) == 12
    rep.obligation(good)
    if not good:
        bad("pieces/shape", f"piece letter tables are not 12-entry bijections: reader {rtab}, writer {wtab}", rd)
    for c, pk in sorted(rtab.items()):
        n += 1
        good = pk is not None and wtab.get(pk) == c
        rep.obligation(good)
        if not good:
            bad(f"pieces/{c}", f"the reader maps '{c}' to {pk} but the writer prints {pk} as '{wtab.get(pk)}'", rd)
    # side to move
    rc = fx.one("fen_parser::fen_color")
    wcs = fx.find("fen_writer::format_current_player")
    if len(wcs) != 1:
        # renamed / re-typed (e.g. `const fn player_letter(Player) -> &'static str`): any function of the writer module that maps the two
        # Player variants to one-letter strings
        wcs = []
        for cand in fx.fn_bodies():
            if norm(cand.name).startswith("chess::fen::fen_writer::") and cand.kind == "Fn" and "::tests::" not in cand.name and cand.n <= 30:
                tags = set()
                for conds0, ret0, bb0 in decision_paths(cand, 16):
                    if ret0 is None:
                        continue
                    lit0 = [x[1] for x in walk(ret0) if isinstance(x, tuple) and x and x[0] == "const" and isinstance(x[1], str) and len(x[1]) == 1]
                    if lit0 and any(isinstance(deep_strip(e0), tuple) and deep_strip(e0)[0] == "discr" and "Player" in (cand.local_ty(1) or "") + show(e0) for (e0, v0) in conds0):
                        tags.add(lit0[0])
                if len(tags) == 2:
                    wcs.append(cand)
    wc = wcs[0] if len(wcs) == 1 else None
    rcol = {}
    for bb, t in rc.calls():
        if norm(callee_name(t) or "").endswith("combinator::value"):
            pl = enum_in(rc.expr(t["args"][0], expand_named=True), "player::Player")
            tg = [const_str(x) for bb2, t2 in rc.calls() if norm(callee_name(t2) or "").endswith("complete::tag") and t2["dest"]["l"] in rc.operand_locals(t["args"][1]) for x in t2["args"] if x.get("k") == "const"]
            if pl and tg and tg[0]:
                rcol[tg[0]] = pl
    wcol = {}
    for conds, ret, bb in (decision_paths(wc) if wc is not None else []):
        if ret is None:
            continue
        pl = None
        for (e, v) in conds:
            d = deep_strip(e)
            if isinstance(d, tuple) and d[0] == "discr" and isinstance(v, int):
                pl = players.get(v)
        lit = [x[1] for x in walk(ret) if isinstance(x, tuple) and x and x[0] == "const" and isinstance(x[1], str)]
        if pl and lit:
            wcol[pl] = lit[0]
    n += 1
    good = len(rcol) == 2 and len(wcol) == 2 and all(wcol.get(p) == c for c, p in rcol.items())
    if wc is None:
        rep.notes.append("C06-TABLES: the writer's side-to-move letters are not produced by a recognisable function of the writer module; not decided")
        good = True
    rep.obligation(good)
    rep.sample({"rule": "C06-TABLES", "reader_colour": rcol, "writer_colour": wcol})
    if not good:
        bad("colour", f"side-to-move letters disagree: reader {rcol}, writer {wcol}", rc)
    # castling letters: reader letter -> FenCastleRight variant -> (player, flag) in fen_castling; writer: flag order K Q k q
    rr = fx.one("fen_parser::fen_castle_right")
    letter_variant = {c: enum_in(e, "FenCastleRight") for c, e in char_table(fx, rr).items()}
    cs = fx.one("fen_parser::fen_castling")
    clos = [fx.bodies[k] for k in fx.bodies if k.startswith(cs.name + "::{closure")]
    variant_flag = {}
    for cb in clos:
        for bb, j, s in cb.stmts():
            rv = s.get("rv")
            if rv and rv["k"] == "agg" and rv.get("agg") == "adt" and norm(rv["adt"]).endswith("game::CastleRights"):
                for fname, op in zip(rv["fields"], rv["ops"]):
                    e = cb.expr(op, expand_named=True, at=bb)
                    v = enum_in(e, "FenCastleRight")
                    if v:
                        variant_flag.setdefault(v, []).append((fname, bb, j))
        # which CastleRights literal is the white one: argument order of ByPlayer::new(white, black)
        for bb, t in cb.calls():
            if norm(callee_name(t) or "").endswith("ByPlayer::new"):
                order = []
                for a in t["args"]:
                    e = cb.expr(a, expand_named=True, at=bb)
                    vs = [enum_in(x, "FenCastleRight") for x in e[2]] if isinstance(e, tuple) and e[0] == "agg" else []
                    order.append(vs)
                for colour, vs in zip(("White", "Black"), order):
                    for v in vs:
                        if v in variant_flag:
                            variant_flag[v] = [(f, colour) for (f, *_rest) in variant_flag[v][:1]]
    reader_cr = {}
    for c, v in letter_variant.items():
        vf = variant_flag.get(v)
        if vf and len(vf[0]) == 2:
            reader_cr[c] = (vf[0][1], vf[0][0])
    # writer
    wcr = fx.one("fen_writer::format_castle_rights")
    writer_cr = {}
    inner_order = {0: "White", 1: "Black"}
    for i in sorted(wcr.live_blocks()):
        t = wcr.blocks[i]["term"]
        if t["k"] != "switch" or t["dty"] != "bool":
            continue
        for (tg, e, pol, v) in switch_edge_conds(wcr, i, expand_named=True):
            if pol is not True:
                continue
            d = deep_strip(e)
            if isinstance(d, tuple) and d[0] == "field" and d[2] in ("king_side", "queen_side"):
                idx = [x for x in walk(d) if isinstance(x, tuple) and x and x[0] == "index" and isinstance(x[2], tuple) and x[2][0] == "const"]
                if not idx:
                    continue
                colour = inner_order.get(idx[0][2][1])
                # the literal produced on the true edge
                cur, seen = tg, set()
                lit = None
                while cur is not None and cur not in seen and lit is None:
                    seen.add(cur)
                    for s in wcr.blocks[cur]["stmts"]:
                        rv = s.get("rv")
                        if rv and rv["k"] == "use" and rv["op"].get("k") == "const" and const_str(rv["op"]):
                            lit = const_str(rv["op"])
                    nx = wcr.succ(cur)
                    cur = nx[0] if len(nx) == 1 else None
                if lit and colour and len(lit) == 1 and lit != "-":
                    writer_cr[lit] = (colour, d[2])
    if not writer_cr:
        # table form: `[(rights.king_side, "K"), (rights.queen_side, "Q"), ..]` filtered by the flag
        for bb, j, st in wcr.stmts():
            rv = st.get("rv")
            if rv and rv["k"] == "agg" and rv.get("agg") == "tuple" and len(rv["ops"]) == 2:
                d = deep_strip(wcr.expr(rv["ops"][0], expand_named=True, at=bb))
                l2 = deep_strip(wcr.expr(rv["ops"][1], expand_named=True, at=bb))
                lit = l2[1] if isinstance(l2, tuple) and l2 and l2[0] == "const" and isinstance(l2[1], str) else None
                if lit is None and rv["ops"][1].get("k") == "const" and rv["ops"][1].get("ty") == "char" and isinstance(rv["ops"][1].get("int"), int):
                    lit = chr(rv["ops"][1]["int"])  # the symbols as `char`s
                if not lit:
                    continue
                if isinstance(d, tuple) and d[0] == "field" and d[2] in ("king_side", "queen_side") and len(lit) == 1 and lit != "-":
                    idx = [x for x in walk(d) if isinstance(x, tuple) and x and x[0] == "index" and isinstance(x[2], tuple) and x[2][0] == "const"]
                    colour = inner_order.get(idx[0][2][1]) if idx else None
                    if colour:
                        writer_cr[lit] = (colour, d[2])
    rep.sample({"rule": "C06-TABLES", "reader_castling": {c: list(v) for c, v in reader_cr.items()}, "writer_castling": {c: list(v) for c, v in writer_cr.items()}})
    n += 1
    good = len(reader_cr) == 4 and reader_cr == writer_cr
    if not reader_cr or not writer_cr:
        rep.notes.append("C06-TABLES: the castling letters of the " + ("reader" if not reader_cr else "writer") + " are not produced in a recognisable form; not decided")
        good = True
    rep.obligation(good)
    if not good:
        bad("castling", f"castling letters disagree: reader {reader_cr}, writer {writer_cr}", rr)
    # files and ranks: reader char -> File/Rank; writer File::notation / Rank::notation
    for what, rfn, wfn, adt in (("file", "fen_parser::fen_file", "File::notation", "square::File"), ("rank", "fen_parser::fen_rank", "Rank::notation", "square::Rank")):
        rb, wb = fx.one(rfn), fx.one(wfn)
        rt = {c: enum_in(e, adt) for c, e in char_table(fx, rb).items()}
        variants = {v["discr"]: v["name"] for v in fx.adt(adt)["variants"]}
        wt = {}
        for conds, ret, bb in decision_paths(wb):
            if ret is None:
                continue
            v = [variants.get(val) for (e, val) in conds if isinstance(val, int) and isinstance(deep_strip(e), tuple) and deep_strip(e)[0] == "discr"]
            lit = [x[1] for x in walk(ret) if isinstance(x, tuple) and x and x[0] == "const" and isinstance(x[1], str)]
            if v and v[-1] and lit:
                wt[v[-1]] = lit[0]
        n += 1
        good = len(rt) == 8 and len(set(rt.values())) == 8 and all(wt.get(v) == c for c, v in rt.items())
        rep.obligation(good)
        rep.sample({"rule": "C06-TABLES", f"reader_{what}": rt, f"writer_{what}": wt})
        if not good:
            bad(what, f"{what} letters disagree: reader {rt}, writer {wt}", rb)
    rep.rule("C06-TABLES", n, 17, ok, "reader/writer letter tables are inverse bijections")


P = "src/chess/fen/fen_parser.rs"
W = "src/chess/fen/fen_writer.rs"
MUTANTS = [
    {"name": "Board::try_from refuses pawns on the back ranks while the reader still unwraps it (seed C06-8a)", "expect": "C06-CONE",
     "edits": [("src/chess/board.rs", "        let white_occupancy =\n            white_pawns | white_knights", "        if (pawns & (crate::chess::bitboard::bitboards::RANK_1 | crate::chess::bitboard::bitboards::RANK_8)).any() {\n            return Err(());\n        }\n\n        let white_occupancy =\n            white_pawns | white_knights")]},
    {"name": "reader steps the en-passant target one rank back without a rank check (seed C06-7b)", "expect": "C06-CONE/chess::square::Square::",
     "edits": [("src/chess/fen/fen_parser.rs", "    let halfmove_clock = halfmove_clock.unwrap_or(0);", "    if let Some(target) = en_passant_target {\n        let pushed_pawn = target.backward(player);\n        if !board.pawns(player.other()).contains(pushed_pawn) {\n            return Err(nom::Err::Error(nom::error::Error::new(input, nom::error::ErrorKind::Verify)));\n        }\n    }\n    let halfmove_clock = halfmove_clock.unwrap_or(0);")]},
    {"name": "placement field written into a 64-byte ArrayString (seed C06-7a)", "expect": "C06-WCONE",
     "edits": [("src/chess/fen/fen_writer.rs", "        .map(|r| format_rank(&r))\n        .collect::<Vec<String>>()\n        .join(\"/\")", "        .map(|r| format_rank(&r))\n        .fold(arrayvec::ArrayString::<64>::new(), |mut acc, r| {\n            if !acc.is_empty() {\n                acc.push('/');\n            }\n            acc.push_str(&r);\n            acc\n        })\n        .to_string()")]},
    {"name": "from-scratch key leaves out the no-en-passant word (seed C06-6a)", "expect": "C06-KEY/SCRATCH/ep",
     "edits": [("src/chess/zobrist.rs", "    hash ^= en_passant(game.en_passant_target);", "    if game.en_passant_target.is_some() {\n        hash ^= en_passant(game.en_passant_target);\n    }")]},
    {"name": "constructor caps the halfmove clock at 100 (seed C06-4b)", "expect": "C06-FIELDS/install",
     "edits": [("src/chess/game.rs", "            en_passant_target,\n            halfmove_clock,\n            plies,\n\n            zobrist: ZobristHash::uninit(),", "            en_passant_target,\n            halfmove_clock: halfmove_clock.min(100),\n            plies,\n\n            zobrist: ZobristHash::uninit(),")]},
    {"name": "men-per-side limit removed from the reader (original defect)", "expect": "C06-CONE",
     "edits": [("src/chess/fen/fen_parser.rs", "        if board.occupancy_for(side).count() > MAX_MEN_PER_SIDE {", "        if board.occupancy_for(side).count() > 64 {")]},
    {"name": "men-per-side limit raised to 32", "expect": "C06-CONE",
     "edits": [("src/chess/fen/fen_parser.rs", "const MAX_MEN_PER_SIDE: u8 = 16;", "const MAX_MEN_PER_SIDE: u8 = 32;")]},
    {"name": "reader assumes exactly one king per side (seed C06-2)", "expect": "C06-CONE",
     "edits": [("src/chess/fen/fen_parser.rs", "    let plies = plies_from_fullmove_number(fullmove_number, player);\n", "    let plies = plies_from_fullmove_number(fullmove_number, player);\n    let castle_rights = if board.king(Player::White).single() == crate::chess::square::squares::king_start(Player::White) { castle_rights } else { castle_rights };\n")]},
    {"name": "width check removed (original defect)", "expect": "C06-",
     "edits": [(P, "    if squares.len() != File::N {\n        return Err(nom::Err::Error(nom::error::Error::new(\n            input,\n            nom::error::ErrorKind::Verify,\n        )));\n    }\n", "")]},
    {"name": "width check accepts short ranks", "expect": "C06-WIDTH",
     "edits": [(P, "    if squares.len() != File::N {", "    if squares.len() > File::N {")]},
    {"name": "plies arithmetic unchecked again (original defect)", "expect": "C06-CONE",
     "edits": [(P, "    let full_moves_played = fullmove_number.saturating_sub(1).min(u32::MAX / 4);\n\n    full_moves_played * 2 + u32::from(player == Player::Black)", "    (fullmove_number - 1) * 2 + u32::from(player == Player::Black)")]},
    {"name": "piece alphabet gains a letter the match does not handle", "expect": "C06-CONE",
     "edits": [(P, "    let (input, piece) = one_of(\"RNBQKPrnbqkp\")(input)?;", "    let (input, piece) = one_of(\"RNBQKPrnbqkpA\")(input)?;")]},
    {"name": "empty-square digits include 9 and 0 parsed via unwrap of letters", "expect": "C06-CONE",
     "edits": [(P, "    map(one_of(\"12345678\"), |digit| {", "    map(one_of(\"12345678x\"), |digit| {")]},
    {"name": "reader maps n to bishop", "expect": "C06-TABLES/pieces",
     "edits": [(P, "            'n' => Piece::BLACK_KNIGHT,\n            'b' => Piece::BLACK_BISHOP,", "            'n' => Piece::BLACK_BISHOP,\n            'b' => Piece::BLACK_KNIGHT,")]},
    {"name": "writer swaps castling letters k and q", "expect": "C06-TABLES/castling",
     "edits": [(W, "            if black_king { \"k\" } else { \"\" },\n            if black_queen { \"q\" } else { \"\" }", "            if black_king { \"q\" } else { \"\" },\n            if black_queen { \"k\" } else { \"\" }")]},
    {"name": "reader takes b as white to move", "expect": "C06-TABLES/colour",
     "edits": [(P, "        value(Player::White, tag(\"w\")),\n        value(Player::Black, tag(\"b\")),", "        value(Player::Black, tag(\"w\")),\n        value(Player::White, tag(\"b\")),")]},
    {"name": "writer drops the en-passant square when no capture is possible (seed C06-1)", "expect": "C06-FIELDS/en-passant",
     "edits": [(W, "        Some(sq) => sq.notation(),\n        None => \"-\".to_string(),", "        Some(sq) if game.moves().iter().any(|m| m.is_en_passant()) => sq.notation(),\n        _ => \"-\".to_string(),")]},
    {"name": "writer always prints '-' for the en-passant field", "expect": "C06-FIELDS/en-passant",
     "edits": [("src/chess/fen/fen_writer.rs", "    match game.en_passant_target {\n        Some(sq) => sq.notation(),\n        None => \"-\".to_string(),\n    }", "    let _ = game;\n    \"-\".to_string()")]},
    {"name": "benign: en-passant field through map_or_else", "benign": True,
     "edits": [("src/chess/fen/fen_writer.rs", "    match game.en_passant_target {\n        Some(sq) => sq.notation(),\n        None => \"-\".to_string(),\n    }", "    game.en_passant_target\n        .map_or_else(|| \"-\".to_string(), Square::notation)")]},
    {"name": "writer prints the move number from plies / 2", "expect": "C06-FIELDS/fullmove",
     "edits": [("src/chess/game.rs", "        self.plies / 2 + 1", "        (self.plies + 1) / 2 + 1")]},
    {"name": "benign: width check written with equality first", "benign": True,
     "edits": [(P, "    if squares.len() != File::N {\n        return Err(nom::Err::Error(nom::error::Error::new(\n            input,\n            nom::error::ErrorKind::Verify,\n        )));\n    }\n\n    Ok((input, FenRank(squares)))",
                "    if squares.len() == File::N {\n        return Ok((input, FenRank(squares)));\n    }\n\n    Err(nom::Err::Error(nom::error::Error::new(\n        input,\n        nom::error::ErrorKind::Verify,\n    )))")]},
]
