"""Thorough-tier self-test of the rules (DESIGN.md §2.4): every mutant (one instance of a rule broken, still
compiling) must make its rule fire and name that instance; every benign edit must leave the rules silent.
Mutants are applied to scratch copies of /repo/src under a temporary directory that is removed immediately;
facts for a scratch copy are produced by replaying the recorded rustc command line through the driver."""
import concurrent.futures as cf
import importlib
import os
import shutil
import sys
import tempfile

import core
import facts as F


def _apply(srcroot, edits):
    for (rel, old, new) in edits:
        p = os.path.join(srcroot, rel)
        with open(p) as f:
            s = f.read()
        if s.count(old) < 1:
            return f"snippet not found in {rel}"
        s = s.replace(old, new, 1)
        with open(p, "w") as f:
            f.write(s)
    return None


def _one(args):
    prop, m, repo = args
    sys.path.insert(0, os.path.dirname(os.path.abspath(__file__)))
    mod = importlib.import_module("p" + prop)
    core.QUIET = True
    tmp = tempfile.mkdtemp(prefix=f"verif-mut-{prop}-")
    try:
        shutil.copytree(os.path.join(repo, "src"), os.path.join(tmp, "src"))
        err = _apply(tmp, m["edits"])
        if err:
            return {"name": m["name"], "status": "skipped", "why": err}
        try:
            fp = core.gen_facts_direct(tmp)
        except core.AnalysisError as e:
            return {"name": m["name"], "status": "nocompile", "why": str(e)[-600:]}
        fx = F.Facts(fp)
        rep = core.Report(prop, "thorough")
        try:
            mod.run(fx, rep, "quick")
        except F.MissingAnchor as e:
            rep.violation("analysis", "analysis-could-not-be-performed", str(e), {})
        keys = [v["key"] for v in rep.violations]
        return {"name": m["name"], "status": "ran", "keys": keys}
    finally:
        shutil.rmtree(tmp, ignore_errors=True)


def run(prop, mod, rep, repo=None):
    repo = repo or core.REPO
    muts = list(getattr(mod, "MUTANTS", []))
    if not muts:
        return
    core.gen_facts("default", repo)  # make sure the rustc command line is recorded for this tree
    with cf.ProcessPoolExecutor(max_workers=min(16, len(muts))) as ex:
        results = list(ex.map(_one, [(prop, m, repo) for m in muts]))
    caught = silent = skipped = 0
    failures = []
    for m, r in zip(muts, results):
        benign = m.get("benign", False)
        if r["status"] == "skipped":
            skipped += 1
            core.log(f"SELFTEST {prop} {m['name']}: skipped ({r['why']})")
            continue
        if r["status"] == "nocompile":
            failures.append(f"{m['name']}: mutant does not compile: {r['why'][-300:]}")
            continue
        keys = r["keys"]
        if benign:
            if keys:
                failures.append(f"benign edit `{m['name']}` raised {keys}")
            else:
                silent += 1
                core.log(f"SELFTEST {prop} benign {m['name']}: silent ok")
        else:
            want = m["expect"]
            if any(k.startswith(want) for k in keys):
                caught += 1
                core.log(f"SELFTEST {prop} mutant {m['name']}: caught by {[k for k in keys if k.startswith(want)][:3]}")
            else:
                failures.append(f"mutant `{m['name']}` not caught: expected key prefix {want}, got {keys}")
    n_m = len([m for m in muts if not m.get("benign")])
    n_b = len(muts) - n_m
    rep.analysed["selftest"] = {"mutants": n_m, "mutants_caught": caught, "benign": n_b, "benign_silent": silent, "skipped": skipped,
                                "failures": failures}
    core.log(f"SELFTEST {prop}: mutants caught {caught}/{n_m}, benign silent {silent}/{n_b}, skipped {skipped}")
    for f in failures:
        core.log(f"SELFTEST-FAILURE {prop}: {f}")
    if failures:
        rep.violation("selftest", "selftest-broken-checker", "rule self-test failed (broken checker, not a property verdict): " + "; ".join(failures)[:1500], {})
