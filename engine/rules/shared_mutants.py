"""Edit sets used by the self-tests of more than one property."""
TC="src/engine/search/time_control.rs"
common=[(TC,"    soft_stop: Duration,\n    hard_stop: Duration,\n\n    next_check_at","    soft_stop: Option<Duration>,\n    hard_stop: Option<Duration>,\n\n    next_check_at"),
 (TC,"        let mut soft_stop = Duration::default();\n        let mut hard_stop = Duration::default();","        let mut soft_stop = None;\n        let mut hard_stop = None;"),
 (TC,"                soft_stop = *move_time;\n                hard_stop = *move_time;","                soft_stop = Some(*move_time);\n                hard_stop = Some(*move_time);"),
 (TC,"                soft_stop = std::cmp::min(\n                    base_time.mul_f32(params::SOFT_TIME_MULTIPLIER),\n                    max_time_per_move,\n                );","                soft_stop = Some(std::cmp::min(\n                    base_time.mul_f32(params::SOFT_TIME_MULTIPLIER),\n                    max_time_per_move,\n                ));"),
 (TC,"                hard_stop = std::cmp::min(\n                    base_time.mul_f32(params::HARD_TIME_MULTIPLIER),\n                    max_time_per_move,\n                );","                hard_stop = Some(std::cmp::min(\n                    base_time.mul_f32(params::HARD_TIME_MULTIPLIER),\n                    max_time_per_move,\n                ));"),
]
M1="        match self.time_control {\n            TimeControl::Clocks(_) => self.elapsed() < self.soft_stop,\n            TimeControl::ExactTime(time) => self.elapsed() < time,\n            TimeControl::Infinite => true,\n        }"
M2="        match self.time_control {\n            TimeControl::Clocks(_) => self.elapsed() > self.hard_stop,\n            TimeControl::ExactTime(time) => self.elapsed() > time,\n            TimeControl::Infinite => false,\n        }"
OPTION_LIMIT_EDITS = [
 {"name":"benign option match","edits":common+[(TC,M1,"        match self.soft_stop {\n            Some(limit) => self.elapsed() < limit,\n            None => true,\n        }"),(TC,M2,"        match self.hard_stop {\n            Some(limit) => self.elapsed() > limit,\n            None => false,\n        }")]},
 {"name":"benign option closures","edits":common+[(TC,M1,"        self.soft_stop.is_none_or(|limit| self.elapsed() < limit)"),(TC,M2,"        self.hard_stop.is_some_and(|limit| self.elapsed() > limit)")]},
 {"name":"bad option: exact arm forgets hard","edits":common[:2]+[(TC,"                soft_stop = *move_time;\n                hard_stop = *move_time;","                soft_stop = Some(*move_time);\n                let _ = hard_stop;")]+common[3:]+[(TC,M1,"        match self.soft_stop {\n            Some(limit) => self.elapsed() < limit,\n            None => true,\n        }"),(TC,M2,"        match self.hard_stop {\n            Some(limit) => self.elapsed() > limit,\n            None => false,\n        }")]},
]

OPT_MATCH, OPT_CLOSURES, OPT_BAD = (m["edits"] for m in OPTION_LIMIT_EDITS)


def edits_from_patch(rel):
    """exact-text edits [(file, old, new), ..] equivalent to a unified diff kept under /verif (one per hunk), so that a confirmed
    seeded change can serve as a self-test mutant without being retyped"""
    import os
    import re
    here = os.path.dirname(os.path.dirname(os.path.dirname(os.path.abspath(__file__))))
    out, f, old, new = [], None, [], []

    def flush():
        nonlocal old, new
        if f is not None and (old or new) and old != new:
            out.append((f, "".join(old), "".join(new)))
        old, new = [], []
    for line in open(os.path.join(here, rel)):
        if line.startswith("+++ b/"):
            flush()
            f = line[6:].strip()
        elif line.startswith("--- ") or line.startswith("diff ") or line.startswith("index "):
            continue
        elif line.startswith("@@"):
            flush()
        elif line.startswith("+"):
            new.append(line[1:])
        elif line.startswith("-"):
            old.append(line[1:])
        elif line.startswith(" "):
            old.append(line[1:])
            new.append(line[1:])
    flush()
    return out
