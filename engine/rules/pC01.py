"""C01 — legal move generation: structural clauses C01-EP, C01-KING, C01-CASTLE, C01-FLAGS, C01-CHECK
(DESIGN.md §3)."""
from facts import (cmp_op, short, decision_paths, norm, show, walk, strip_refs, deep_strip, is_call_to, callee_name, find_calls, guard_conditions,
                   option_guard, mentions_call)

EXPLANATION = (
    "Decides structural clauses of C01, not the exactness of the generated move set: (EP) every construction of an "
    "en-passant move is guarded by a king-safety probe on a clone of the position's board edited to the position "
    "after the capture (capturer removed, victim removed, capturer placed on the target); (KING) every king move is "
    "guarded by a probe of its destination on a clone with the king lifted off; (CASTLE) every castling move is "
    "guarded by the side's right, an empty path, king not in check, and unattacked transit and target squares, "
    "and is built from the king's start and the table's target square; (FLAGS) a Move's bits can only be what "
    "Move::new wrote from a Flags variant, the label constants are mutually consistent and the promotion tables of "
    "writer and reader agree; (CHECK) the in-check verdict probes the mover's own king square; (LABEL) every "
    "capture-labelled move is drawn from a destination set intersected with the opponent's occupancy and every "
    "quiet-labelled move from one intersected with the empty squares (pawn pushes: the squares in front); (PROMO) "
    "each of the four promotion kinds is generated exactly once per promoting move; (PROMORANK) the source set of every "
    "pawn move is split by the pre-promotion-rank mask, promotion labels on it and plain labels off it; (ATTACKERS) the "
    "attacker set used by every legality probe intersects each kind's attack pattern from the probed square with the "
    "opponent's pieces of that kind, for all of pawn, knight, bishop/queen, rook/queen and king. Not decided: "
    "completeness/exactness of pin and check-mask algebra, pawn pushes, slider rays (set equality over all positions)."
)

MOVE = "chess::moves::Move"
PROBES = ("attackers::generate_attackers_of",)


def run(fx, rep, tier):
    global _fx
    _fx = fx
    rule_ep(fx, rep)
    rule_king(fx, rep)
    rule_castle(fx, rep)
    rule_flags(fx, rep)
    rule_check(fx, rep)
    rule_label(fx, rep)
    rule_attackers(fx, rep)
    rule_pins(fx, rep)
    rule_pinray(fx, rep)
    rule_capacity(fx, rep)
    rule_tables(fx, rep)


def rule_tables(fx, rep):
    """C01-TABLES. Every clause above reads slider attacks through the magic lookup; the generator is exact only if the lookup
    table has an entry for every blocker subset of every square and the lookup lands inside it. These are clauses of C07
    (FILL, SAMEIDX, LEAPGEN), re-reported here as a premise of this property."""
    import core
    import pC07
    sub = type(rep)(rep.prop, rep.tier)
    q = core.QUIET
    core.QUIET = True
    try:
        for r in (pC07.rule_fill, pC07.rule_sameidx, pC07.rule_leapgen):
            r(fx, sub)
    finally:
        core.QUIET = q
    for v in sub.violations:
        rep.violation("C01-TABLES", "C01-TABLES/" + v["key"], v["msg"] + " (the move generator reads this table: moves are then missing or illegal moves generated in the positions that hit the entry)", v["site"])
    rep.obligations += sub.obligations
    rep.discharged += sub.discharged
    rep.rule("C01-TABLES", sub.obligations, 3, not sub.violations, "attack-table clauses the generator rests on (shared with C07)")


MAX_LEGAL_MOVES_OF_CHESS = 218  # R6R/3Q4/1Q4Q1/4Q3/2Q4Q/Q4Q2/pp1Q4/kBNN1KB1 w - - 0 1 (Petrovic 1964); no legal position has more


def rule_capacity(fx, rep):
    """The list the generator fills must be able to hold every legal move of every legal position. When it is a
    fixed-capacity vector, its capacity (read from the resolved type of the generator's own parameters and locals) must be
    at least 218, the largest number of legal moves of any legal position; otherwise generation panics (checked push) in
    positions no perft root of the suite comes near."""
    import re
    caps = []
    growable = 0
    for b in fx.fn_bodies():
        nm = norm(b.name)
        if not nm.startswith("chess::movegen::gen::") or "::tests::" in nm:
            continue
        for l in range(1, b.arg_count + 1):
            ty = b.local_ty(l) or ""
            m = re.search(r"ArrayVec<chess::moves::Move, (\d+)>", ty)
            if m:
                caps.append((int(m.group(1)), b))
            elif re.search(r"Vec<chess::moves::Move", ty):
                growable += 1
    if not caps and not growable:
        rep.notes.append("C01-CAPACITY: the generator's output list is neither an ArrayVec<Move, N> nor a Vec<Move>; clause not decided")
        rep.rule("C01-CAPACITY", 0, 0, True, "move list type not recognised: not decided")
        return
    ok = True
    for (n, b) in caps:
        good = n >= MAX_LEGAL_MOVES_OF_CHESS
        rep.obligation(good)
        if not good and ok:
            ok = False
            rep.violation("C01-CAPACITY", "C01-CAPACITY/movelist", f"the generator fills an ArrayVec<Move, {n}>: legal positions have up to {MAX_LEGAL_MOVES_OF_CHESS} legal moves, so generation panics (or, with an unchecked push, writes out of bounds) instead of listing them all",
                          {"fn": b.name, "file": b.file, "line": b.line})
    rep.sample({"rule": "C01-CAPACITY", "capacities": sorted({n for n, _ in caps}), "growable_lists": growable})
    rep.rule("C01-CAPACITY", len(caps) + growable, 6, ok, "move list capacity >= 218 (maximum number of legal moves)")


def rule_pinray(fx, rep):
    """A pawn pinned on a diagonal may still capture along that diagonal (en passant included). So no pawn capture may be
    generated under the plain condition "the pawn is not diagonally pinned": the diagonal pin mask may restrict the targets
    (`attacks &= diagonal_pins`) or appear in a disjunction with "the target lies on the pin ray", but a dominating
    `!diagonal_pins.contains(pawn)` (or a `& !diagonal_pins` factor of the source set) drops legal captures that no perft
    root of the suite contains."""
    ok = True
    n = 0
    sites = [(b, bb if sb is b else None, t, ctor, src) for (sb, bb, t, ctor, b, src, dst) in ctor_sites(fx) if ctor in ("capture", "capture_promotion")]
    for (b, bb, t) in fx.callers_of(lambda nm: nm.endswith("Move::en_passant")):
        if norm(b.name).startswith("chess::movegen::gen::") and "::tests::" not in b.name:
            sites.append((b, bb, t, "en_passant", b.expr(t["args"][0], expand_named=True, at=bb)))
    for (f, bb, t, ctor, src) in sites:
        roles = param_roles(fx, f)
        diag = [k for k, v in roles.items() if v == "diagonal_pins"]
        if not diag or not any(is_pawn_set(fx, f, x) for x in and_factors(iter_source(src) or ("none",))):
            continue
        n += 1
        dl = diag[0]
        why = None
        # a factor `!diagonal_pins` of the source set
        for fac in and_factors(iter_source(src) or ("none",)):
            d = deep_strip(fac)
            if isinstance(d, tuple) and d and d[0] == "call" and d[1].endswith("Not>::not") and deep_strip(d[2][0])[:2] == ("arg", dl):
                why = "its source pawns exclude every diagonally pinned pawn"
        # a dominating `contains(diagonal_pins, pawn)` == false
        for (e, pol, w) in (guard_conditions(f, bb, expand_named=True) if bb is not None else []):
            d = deep_strip(e)
            if pol is False and isinstance(d, tuple) and d and d[0] == "call" and d[1].endswith("Bitboard::contains") and deep_strip(d[2][0])[:2] == ("arg", dl):
                why = "it is generated only if the pawn is not diagonally pinned"
        # a comparison of "the pawn is pinned" with "the target lies on a pin ray" (`pinned(start) == on_ray(target)`): the mask is
        # the union of all diagonal pin rays, so an *unpinned* pawn whose target happens to lie on another piece's ray is refused
        for (e, pol, w) in (guard_conditions(f, bb, expand_named=True) if bb is not None else []):
            co = cmp_op(deep_strip(e)) if isinstance(deep_strip(e), tuple) else None
            if not co or co[0] not in ("Eq", "Ne") or pol is None:
                continue
            def is_pin_test(x):
                x = deep_strip(x)
                return isinstance(x, tuple) and x and x[0] == "call" and str(x[1]).endswith("Bitboard::contains") and deep_strip(x[2][0])[:2] == ("arg", dl)
            if is_pin_test(co[1]) and is_pin_test(co[2]):
                same = (co[0] == "Eq") == bool(pol)
                # allowed(pinned_start, target_on_ray) must hold for (False, True) and (False, False)
                if same:
                    why = "it is generated only if `pawn is pinned` equals `target lies on a pin ray`: an unpinned pawn whose target lies on another piece's pin ray is refused"
                else:
                    why = "it is generated only if `pawn is pinned` differs from `target lies on a pin ray`: an unpinned pawn with a target off every pin ray is refused"
        good = why is None
        rep.obligation(good)
        if not good:
            ok = False
            rep.violation("C01-PINRAY", f"C01-PINRAY/{norm(f.name).split('::')[-1]}/{ctor}", f"`{f.name}` line {t.get('line')} builds Move::{ctor} for a pawn, but {why}: a pawn pinned on a diagonal can still capture along that diagonal, so a legal move is missing",
                          {"fn": f.name, "file": f.file, "line": t.get("line")})
    rep.rule("C01-PINRAY", n, 3, ok, "diagonally pinned pawns keep their captures along the pin ray")


# ---- C01-PINS ------------------------------------------------------------------------------

PIN_ROLES = ("orthogonal_pins", "diagonal_pins", "check_mask")


_PAIR_MEMO = {}


def pair_field_from_get_pins(fx, fname):
    """the cache field `fname` is written (outside its constructor literal) only with the result of pins::get_pins"""
    key = (id(fx), fname)
    if key not in _PAIR_MEMO:
        srcs = []
        for b in fx.fn_bodies():
            if not norm(b.name).startswith("chess::movegen::gen::"):
                continue
            for bb, j, s in b.stmts():
                if s["k"] == "assign" and any(isinstance(p, dict) and p.get("n") == fname and norm(p.get("adt", "")).endswith("MovegenCache") for p in s["lhs"].get("p", [])):
                    e = b.expr(s["rv"].get("op"), expand_named=True, at=bb) if s["rv"]["k"] == "use" else None
                    srcs.append(bool(e) and bool(find_calls(e, "pins::get_pins")) and isinstance(deep_strip(e), tuple) and deep_strip(e)[0] == "call")
            for bb, t in b.calls():
                d = t["dest"]
                if any(isinstance(p, dict) and p.get("n") == fname and norm(p.get("adt", "")).endswith("MovegenCache") for p in d.get("p", [])):
                    srcs.append(norm(callee_name(t) or "").endswith("pins::get_pins"))
        _PAIR_MEMO[key] = bool(srcs) and all(srcs)
    return _PAIR_MEMO[key]


def param_roles(fx, f):
    """{param index: role} for the parameters of a piece generator that, at every call site, receive the orthogonal pin mask,
    the diagonal pin mask or the check mask (from pins::get_pins / the movegen cache / the `check_mask` local)"""
    roles = {}
    for (cb, bb, t) in fx.callers_of(lambda n: n == norm(f.name)):
        for i, a in enumerate(t["args"]):
            e = deep_strip(cb.expr(a, expand_named=True, at=bb))
            r = None
            if isinstance(e, tuple) and e[0] == "field" and e[2] in PIN_ROLES:
                r = e[2]
            elif isinstance(e, tuple) and e[0] == "field" and e[2] in ("0", "1") and find_calls(e[1], "pins::get_pins"):
                r = {"0": "orthogonal_pins", "1": "diagonal_pins"}[e[2]]
            elif isinstance(e, tuple) and e[0] == "field" and e[2] in ("0", "1") and isinstance(deep_strip(e[1]), tuple) and deep_strip(e[1])[0] == "field" and \
                    pair_field_from_get_pins(fx, deep_strip(e[1])[2]):
                # the two masks kept as one tuple field of the cache, filled from pins::get_pins
                r = {"0": "orthogonal_pins", "1": "diagonal_pins"}[e[2]]
            else:
                e2 = deep_strip(cb.expr(a, expand_named=False, at=bb))
                if isinstance(e2, tuple) and e2[0] == "var" and e2[1] == "check_mask":
                    r = "check_mask"
            if r:
                roles.setdefault(i + 1, set()).add(r)
    return {k: next(iter(v)) for k, v in roles.items() if len(v) == 1}


def site_pin_roles(fx, f, bb, t, roles):
    """roles that can influence the constructor call: through the definition of the source set it iterates, or through any use
    (of the mask or of a value computed from it) inside the per-piece loop body leading to the call"""
    memo = {}

    def roles_of_local(l):
        if l not in memo:
            memo[l] = set()
            sl, _ = f.slice_back([l])
            memo[l] = {roles[x] for x in sl | {l} if x in roles}
        return memo[l]
    out = set()
    srcl = f.operand_locals(t["args"][0])
    sl, _ = f.slice_back(srcl)
    for l in sl:
        if l in roles:
            out.add(roles[l])
    nexts = [b2 for b2, t2 in f.calls() if norm(callee_name(t2) or "").endswith("Iterator>::next") and t2["dest"]["l"] in sl]
    for nb in nexts:
        tgt = f.blocks[nb]["term"].get("target")
        fwd = f.reachable(tgt, removed_blocks=[nb]) if tgt is not None else set()
        for b in fwd:
            if bb not in f.reachable(b, removed_blocks=[nb]) and b != bb:
                continue
            blk = f.blocks[b]
            ops = []
            for st in blk["stmts"]:
                rv = st.get("rv")
                if rv:
                    ops += [x for o in f.rvalue_operands(rv) for x in f.operand_locals(o)]
            tt = blk["term"]
            if tt["k"] == "call":
                ops += [x for a in tt["args"] for x in f.operand_locals(a)]
            if tt["k"] == "switch":
                ops += f.operand_locals(tt["discr"])
            for l in set(ops):
                out |= roles_of_local(l)
    return out


def rule_pins(fx, rep):
    """Every move of a pawn, knight or slider is subject to both pin masks and to the check mask: each such constructor call
    is influenced (dataflow of its source set, or uses inside its per-piece loop) by the orthogonal pin mask, the diagonal pin
    mask and the check mask its generator receives. Which squares the masks allow is not decided - only that none is ignored."""
    ok = True
    n = 0
    seen = {}
    for site_b, bb, t, ctor, b, src, dst in ctor_sites(fx):
        if site_b is not b:
            continue  # helper whose squares are parameters: the masks act in the caller's loop (checked there through the call)
        roles = param_roles(fx, site_b)
        if set(roles.values()) != set(PIN_ROLES):
            continue  # king generators (no masks) or a generator this rule cannot map
        n += 1
        got = site_pin_roles(fx, site_b, bb, t, roles)
        missing = sorted(set(PIN_ROLES) - got)
        good = not missing
        rep.obligation(good)
        k = f"{norm(site_b.name).split('::')[-1]}/{ctor}"
        seen[k] = seen.get(k, 0) + 1
        if not good:
            ok = False
            rep.violation("C01-PINS", f"C01-PINS/{k}" + (f"/{seen[k]}" if seen[k] > 1 else ""), f"`{site_b.name}` line {t.get('line')} builds Move::{ctor} without {missing} having any influence on it: "
                          f"a piece pinned that way (or a move that does not answer a check) would still be generated", {"fn": site_b.name, "file": site_b.file, "line": t.get("line")})
    rep.rule("C01-PINS", n, 12, ok, "pin masks and check mask influence every pawn / knight / slider move")


# ---- C01-ATTACKERS -----------------------------------------------------------------------


def accessor_kinds(fx, name):
    """PieceKind constants mentioned in the cone of a Board accessor (its own definition of which pieces it returns)"""
    b = fx.body(name)
    if b is None or "chess::board::Board::" not in norm(b.name):
        return None
    kinds = set()
    for nm in fx.cone([b.name]):
        for bb, j, st in fx.bodies[nm].stmts():
            rv = st.get("rv")
            if rv and rv["k"] == "agg" and rv.get("agg") == "adt" and norm(rv["adt"]).endswith("PieceKind"):
                kinds.add(rv["variant"])
    return kinds


def rule_attackers(fx, rep):
    """The attacker set every legality probe relies on is the union, over all piece kinds, of (that kind's attack
    pattern from the probed square) & (the opponent's pieces of that kind)."""
    ga = fx.one("attackers::generate_attackers_of")
    need = {"pawn_attacks": {"Pawn"}, "knight_attacks": {"Knight"}, "bishop_attacks": {"Bishop", "Queen"}, "rook_attacks": {"Rook", "Queen"}, "king_attacks": {"King"}}
    got = {k: set() for k in need}
    bad_args = []
    bodies = [ga] + [fx.body(callee_name(t)) for bb, t in ga.calls() if callee_name(t) and fx.body(callee_name(t)) is not None and
                     norm(fx.body(callee_name(t)).name).startswith("chess::movegen::attackers::")]
    pairs = 0
    term_blocks = {}
    for b in bodies:
        for bb, t in b.calls():
            cn = norm(callee_name(t) or "")
            if not cn.endswith("BitAnd>::bitand"):
                continue
            ops = [b.expr(a, expand_named=True, at=bb) for a in t["args"]]
            for i in (0, 1):
                tab = deep_strip(ops[i])
                if not (isinstance(tab, tuple) and tab and tab[0] == "call" and isinstance(tab[1], str) and tab[1].split("::")[-1] in need and "movegen::tables::" in tab[1]):
                    continue
                tname = tab[1].split("::")[-1]
                other = ops[1 - i]
                for c in [x for x in walk(other) if isinstance(x, tuple) and x and x[0] == "call" and isinstance(x[1], str)]:
                    ks = accessor_kinds(fx, c[1])
                    if not ks:
                        continue
                    pairs += 1
                    got[tname] |= ks
                    term_blocks.setdefault(tname, []).append((b, bb))
                    if b is ga:
                        # pattern taken from the probed square; pieces of the opponent of the probed player
                        sq_ok = deep_strip(tab[2][0])[:2] == ("arg", 3)
                        pl = deep_strip(c[2][1]) if len(c[2]) > 1 else None
                        them_ok = isinstance(pl, tuple) and pl[0] == "call" and pl[1].endswith("Player::other") and deep_strip(pl[2][0])[:2] == ("arg", 2)
                        pawn_ok = tname != "pawn_attacks" or deep_strip(tab[2][1])[:2] == ("arg", 2)
                        if not (sq_ok and them_ok and pawn_ok):
                            bad_args.append((tname, show(tab)[:80], show(c)[:80]))
    ok = True
    if pairs == 0:
        rep.notes.append("C01-ATTACKERS: generate_attackers_of is not a union of (pattern table & piece set) terms in a recognisable form; clause not decided")
        rep.rule("C01-ATTACKERS", 0, 0, True, "attacker set not in recognisable form: not decided")
        return
    for tname, kinds in need.items():
        good = kinds <= got[tname]
        rep.obligation(good)
        rep.sample({"rule": "C01-ATTACKERS", "pattern": tname, "intersected_with_kinds": sorted(got[tname])})
        if not good:
            ok = False
            rep.violation("C01-ATTACKERS", f"C01-ATTACKERS/{tname}", f"generate_attackers_of does not intersect `{tname}` with the opponent's {sorted(kinds - got[tname])}: attacks by that piece kind are invisible to every legality probe (king moves, castling path, en passant, check detection)",
                          {"fn": ga.name, "file": ga.file, "line": ga.line})
    good = not bad_args
    rep.obligation(good)
    if not good:
        ok = False
        rep.violation("C01-ATTACKERS", "C01-ATTACKERS/args", f"attack patterns are not taken from the probed square against the probed player's opponent: {bad_args[:3]}", {"fn": ga.name, "file": ga.file, "line": ga.line})
    # the union is complete on every path: no return of the function can be reached without passing every term
    # (generate_captures counts the set to tell single from double check, so "some attacker" is not enough)
    n_union = 0
    for b in {id(x): x for x in bodies}.values():
        live = b.live_blocks()
        loops = any(i in b.reachable(j) for i in live for j in b.succ(i))
        rets = [r for r in b.return_blocks() if r in live]
        for tname, lst in term_blocks.items():
            blocks = [bb for (bx, bb) in lst if bx is b]
            if not blocks or loops:
                continue
            n_union += 1
            good = b.must_pass(0, blocks, rets)
            rep.obligation(good)
            if not good:
                ok = False
                rep.violation("C01-ATTACKERS", f"C01-ATTACKERS/partial/{tname}", f"`{short(b.name)}` can return without having added the `{tname}` term: the set it returns is then not the full attacker set, and generate_captures / generate_quiets count it to tell a single check (blocks and captures of the checker allowed) from a double check (king moves only)",
                              {"fn": b.name, "file": b.file, "line": b.line})
    if ok and n_union < len(need):
        rep.notes.append("C01-ATTACKERS: completeness of the union on every path decided for %d of %d terms only (loops in the attacker function)" % (n_union, len(need)))
    # every probe of the generator goes through this function (or Board::king_in_check, which calls it)
    rep.rule("C01-ATTACKERS", len(need) + 1 + n_union, 6, ok, "attacker set = union over all piece kinds of pattern & opponent's pieces, complete on every return path")


# ---- shared: probes ------------------------------------------------------------------------


def keep_state(body):
    """expand everything except locals holding a Board / Game (state-carrying scratch copies)."""
    def pred(l):
        ty = body.local_ty(l)
        return ty not in ("chess::board::Board", "chess::game::Game")
    return pred


def probes_guarding(body, bb):
    """Safety probes among the guards of block bb: [(board_expr, player_expr, square_expr, probe_bb)]
    for guards of the form `attackers_of(board, player, sq).is_empty()` true / `.any()` false /
    `board.king_in_check(player)` false."""
    out = []
    for (e, pol, where) in guard_conditions(body, bb, expand_named=keep_state(body)):
        if not isinstance(e, tuple) or e[0] != "call" or not isinstance(e[1], str):
            continue
        safe = None
        if e[1].endswith("Bitboard::is_empty") and pol is True:
            safe = e[2][0]
        elif e[1].endswith("Bitboard::any") and pol is False:
            safe = e[2][0]
        elif e[1].endswith("Board::king_in_check") and pol is False:
            out.append((e[2][0], e[2][1], ("kingsq",), where[0]))
            continue
        if safe is None:
            continue
        inner = strip_refs(safe)
        if isinstance(inner, tuple) and inner[0] == "call" and inner[1].endswith("generate_attackers_of"):
            out.append((inner[2][0], inner[2][1], inner[2][2], where[0]))
    return out


def board_local(e):
    e = strip_refs(e)
    if isinstance(e, tuple) and e[0] == "var":
        return e[2]
    return None


def is_game_board(e):
    """expression is (a reference to) game.board of a Game argument"""
    e = strip_refs(e)
    return isinstance(e, tuple) and e[0] == "field" and e[2] == "board" and isinstance(strip_refs(e[1]), tuple) and strip_refs(e[1])[0] == "arg"


def is_game_player(e):
    e = strip_refs(e)
    return isinstance(e, tuple) and e[0] == "field" and e[2] == "player" and isinstance(strip_refs(e[1]), tuple) and strip_refs(e[1])[0] == "arg"


_fx = None


def scratch_edits(body, L, before_bb):
    """Edits applied to scratch board local L that dominate block before_bb:
    [('remove', sq_expr) | ('set', sq_expr, piece_expr)]; also returns whether L is a clone of game.board."""
    ds = body.defs().get(L, [])
    is_clone = False
    if len(ds) == 1 and ds[0][0] == "call":
        t = ds[0][2]
        if is_call_to(t, "Clone>::clone") or (callee_name(t) and norm(callee_name(t)).endswith("Clone>::clone")):
            is_clone = is_game_board(body.expr(t["args"][0], expand_named=True))
    edits = []
    others = []
    if len(ds) == 1 and ds[0][0] == "call" and not is_clone and _fx is not None:
        # the scratch board is built by a helper (`board_without_king(game, king)`): take the helper's own clone + edits,
        # with its parameters replaced by the call's arguments
        t0 = ds[0][2]
        hb = _fx.body(callee_name(t0)) if callee_name(t0) else None
        if hb is not None and norm(hb.name).startswith("chess::movegen::") and hb.local_ty(0) == "chess::board::Board":
            from facts import substitute_args
            actual = tuple(body.expr(a, expand_named=True, at=ds[0][1]) for a in t0["args"])
            rets = hb.return_blocks()
            # the local returned: `_0 = move _L`
            src = [st["rv"]["op"]["pl"]["l"] for bb0, j0, st in hb.stmts() if st["k"] == "assign" and st["lhs"]["l"] == 0 and not st["lhs"].get("p") and
                   st["rv"]["k"] == "use" and "pl" in st["rv"]["op"] and not st["rv"]["op"]["pl"].get("p")]
            if len(src) == 1 and len(rets) == 1:
                hds = hb.defs().get(src[0], [])
                if len(hds) == 1 and hds[0][0] == "call" and norm(callee_name(hds[0][2]) or "").endswith("Clone>::clone"):
                    is_clone = is_game_board(substitute_args(hb.expr(hds[0][2]["args"][0], expand_named=True), actual))
                h_clone, h_edits, h_others = scratch_edits(hb, src[0], rets[0])
                for e in h_edits:
                    edits.append(tuple([e[0]] + [substitute_args(x, actual) for x in e[1:]]))
                others.extend(h_others)
    for bb, t in body.calls():
        if not t["args"]:
            continue
        a0 = body.expr(t["args"][0], expand_named=False)
        if not (isinstance(a0, tuple) and a0[0] == "ref" and isinstance(a0[1], tuple) and a0[1][0] == "var" and a0[1][2] == L):
            continue
        # is it a mutable borrow?
        mutable = body.local_ty(t["args"][0]["pl"]["l"]).startswith("&mut") if "pl" in t["args"][0] else False
        if not mutable:
            continue
        if bb == before_bb or not body.block_dominates(bb, before_bb):
            others.append((bb, norm(callee_name(t))))
            continue
        if is_call_to(t, "Board::remove_at"):
            edits.append(("remove", body.expr(t["args"][1], expand_named=True)))
        elif is_call_to(t, "Board::set_at"):
            edits.append(("set", body.expr(t["args"][1], expand_named=True), body.expr(t["args"][2], expand_named=True)))
        else:
            others.append((bb, norm(callee_name(t))))
    return is_clone, edits, others


def king_square_expr(e):
    """`board.king(player).single()` of the game's board"""
    e = strip_refs(e)
    if isinstance(e, tuple) and e[0] == "call" and e[1].endswith("Bitboard::single"):
        k = strip_refs(e[2][0])
        if isinstance(k, tuple) and k[0] == "call" and k[1].endswith("Board::king"):
            return is_game_board(k[2][0]) and is_game_player(k[2][1])
    return False


def arg_is_king_square(fx, body, argidx, _depth=0):
    """Every caller passes the mover's king square (board.king(player).single()) for parameter argidx."""
    callers = fx.callers_of(lambda n: fx.body(n) is not None and fx.body(n).name == body.name)
    if not callers or _depth > 3:
        return False
    for (cb, bb, t) in callers:
        e = cb.expr(t["args"][argidx - 1], expand_named=True)
        if king_square_expr(e):
            continue
        e2 = strip_refs(e)
        if isinstance(e2, tuple) and e2[0] == "arg" and arg_is_king_square(fx, cb, e2[1], _depth + 1):
            continue
        return False
    return True


def is_king_square(fx, body, e):
    if king_square_expr(e):
        return True
    e2 = strip_refs(e)
    if isinstance(e2, tuple) and e2[0] == "arg":
        return arg_is_king_square(fx, body, e2[1])
    return False


# ---- C01-EP --------------------------------------------------------------------------------


def rule_ep(fx, rep):
    ok = True
    sites = fx.callers_of(lambda n: n.endswith("Move::en_passant"))
    for (b, bb, t) in sites:
        src = b.expr(t["args"][0], expand_named=True)
        dst = b.expr(t["args"][1], expand_named=True)
        good, why = False, "no king-safety probe guards the construction of the en-passant move"
        recs = []
        for (pb, pp, psq, probe_bb) in probes_guarding(b, bb):
            L = board_local(pb)
            if L is None:
                recs.append(None)
                continue
            recs.append((pp, psq) + tuple(scratch_edits(b, L, probe_bb)))
        # the probe may sit in a bool-valued helper of the generator (`!en_passant_reveals_check(game, king, from, target, victim)`):
        # its scratch-board edits and probe arguments are taken from the helper, with its parameters replaced by the arguments
        from facts import substitute_args as _sa, decision_paths as _dp
        for (ge, gpol, gw) in guard_conditions(b, bb, expand_named=keep_state(b)):
            gd = strip_refs(ge)
            hb = fx.body(gd[1]) if isinstance(gd, tuple) and gd and gd[0] == "call" and isinstance(gd[1], str) else None
            if hb is None or not norm(hb.name).startswith("chess::movegen::gen::") or (hb.local_ty(0) or "") != "bool":
                continue
            for hbb, ht in hb.calls():
                if not norm(callee_name(ht) or "").endswith("generate_attackers_of"):
                    continue
                # polarity: the helper's result is `.any()` (true = attacked) or `.is_empty()` (true = safe) of that call
                rets = [pp_[1] for pp_ in _dp(hb, 16) if pp_[1] is not None]
                r0 = strip_refs(rets[0]) if len(rets) == 1 else None
                attacked_means = None
                if isinstance(r0, tuple) and r0 and r0[0] == "call" and str(r0[1]).endswith("Bitboard::any"):
                    attacked_means = True
                elif isinstance(r0, tuple) and r0 and r0[0] == "call" and str(r0[1]).endswith("Bitboard::is_empty"):
                    attacked_means = False
                if attacked_means is None or (gpol is True) == attacked_means:
                    continue
                hargs = [hb.expr(a, expand_named=keep_state(hb), at=hbb) for a in ht["args"]]
                L = board_local(hargs[0])
                if L is None:
                    recs.append(None)
                    continue
                is_clone, edits, others = scratch_edits(hb, L, hbb)
                actual = gd[2]
                edits = [tuple([ed[0]] + [_sa(x, actual) for x in ed[1:]]) for ed in edits]
                recs.append((_sa(hargs[1], actual), _sa(hargs[2], actual), is_clone, edits, others))
        for rec in recs:
            if rec is None:
                why = "the king-safety probe runs on the unmodified position (must be a scratch copy edited to the position after the capture)"
                continue
            pp, psq, is_clone, edits, others = rec
            if not is_clone:
                why = "the probed scratch board is not a clone of the position's board"
                continue
            if not is_game_player(pp):
                why = f"the probe asks about attacks on `{show(pp)}`'s king, not the side to move"
                continue
            if not (psq == ("kingsq",) or is_king_square(fx, b, psq)):
                why = f"the probed square `{show(psq)[:80]}` is not the mover's king square"
                continue
            removed = [e[1] for e in edits if e[0] == "remove"]
            sets = [e for e in edits if e[0] == "set"]
            victim_ok = any(any(c[2][0] == dst for c in find_calls(r, "Square::backward")) and r != src for r in removed)
            if src not in removed:
                why = "the capturing pawn is not removed from the probe board"
            elif not victim_ok:
                why = "the captured pawn (one rank behind the en-passant target) is not removed from the probe board"
            elif len(removed) != 2:
                why = f"the probe board has {len(removed)} removals (expected exactly the two pawns)"
            elif not any(s[1] == dst for s in sets):
                why = ("the capturing pawn is not placed on the en-passant target square of the probe board, so a slider whose ray "
                       "crosses the target square is wrongly seen as attacking the king")
            elif len(sets) != 1:
                why = f"the probe board has {len(sets)} placements (expected exactly the capturing pawn)"
            else:
                piece = sets[0][2]
                pe = strip_refs(piece)
                piece_ok = False
                if isinstance(pe, tuple) and pe[0] == "call" and pe[1].endswith("Piece::new"):
                    kind = strip_refs(pe[2][1])
                    piece_ok = is_game_player(pe[2][0]) and isinstance(kind, tuple) and kind[0] == "agg" and str(kind[1]).endswith("PieceKind::Pawn")
                elif find_calls(piece, "Board::piece_at") and any(c[2][1] == src for c in find_calls(piece, "Board::piece_at")):
                    piece_ok = True
                if not piece_ok:
                    why = f"the piece placed on the target square `{show(piece)[:80]}` is not the mover's pawn"
                elif others:
                    why = f"other mutations of the probe board: {others}"
                else:
                    good, why = True, ""
            if good:
                break
        rep.obligation(good)
        rep.sample({"rule": "C01-EP", "fn": b.name, "line": t.get("line"), "ok": good})
        if not good:
            ok = False
            rep.violation("C01-EP", f"C01-EP/{norm(b.name)}", f"`{b.name}` builds an en-passant move but {why}",
                          {"fn": b.name, "file": b.file, "line": t.get("line")})
    # while in check, an en-passant capture helps in two ways: it removes a checking pawn (the *captured* pawn is in the check mask)
    # or it interposes (the *target* square is in the check mask). A check-mask test in front of the en-passant moves must admit
    # both (seed C01-7b kept only the first)
    n_mask = 0
    for (b, bb, t) in sites:
        if "::tests::" in b.name:
            continue
        for (e, pol, w) in guard_conditions(b, bb, expand_named=True):
            if pol is not True or not any(isinstance(x, tuple) and x and x[0] in ("var", "arg") and "check_mask" in str(x[1:]) for x in walk(e)) and "check_mask" not in show(e):
                continue
            sq_args = []
            for c in [x for x in walk(e) if isinstance(x, tuple) and x and x[0] == "call" and isinstance(x[1], str)]:
                if c[1].endswith("Square::bb") and c[2]:
                    sq_args.append(deep_strip(c[2][0]))
                elif c[1].endswith("Bitboard::contains") and len(c[2]) == 2:
                    sq_args.append(deep_strip(c[2][1]))

            def is_target(x):
                return isinstance(x, tuple) and x and x[0] == "field" and x[2] == "0" and "en_passant_target" in show(x) and not find_calls(x, "Square::backward", "Square::forward")

            def is_victim(x):
                return isinstance(x, tuple) and x and x[0] == "call" and str(x[1]).endswith("Square::backward") and "en_passant_target" in show(x)
            if not sq_args or not any(is_target(x) or is_victim(x) for x in sq_args):
                continue
            n_mask += 1
            has_t, has_v = any(is_target(x) for x in sq_args), any(is_victim(x) for x in sq_args)
            good = has_t and has_v
            rep.obligation(good)
            if not good:
                ok = False
                missing = "the en-passant target square itself (a capture that interposes there)" if not has_t else "the captured pawn's square (a capture of the checking pawn)"
                rep.violation("C01-EP", f"C01-EP/check-mask/{norm(b.name).split('::')[-1]}", f"`{b.name}`: the check-mask test in front of the en-passant moves (`{show(e)[:120]}`) does not admit {missing}: that legal capture is never generated while in check",
                              {"fn": b.name, "file": b.file, "line": t.get("line")})
    rep.rule("C01-EP", len(sites) + n_mask, 1, ok, "en-passant constructions guarded by an after-capture probe; check-mask gate admits both squares")


# ---- C01-KING ------------------------------------------------------------------------------

CTORS = ("Move::quiet", "Move::capture", "Move::quiet_promotion", "Move::capture_promotion", "Move::en_passant")


def rule_king(fx, rep):
    ok = True
    n = 0
    for (b, bb, t) in fx.callers_of(lambda nme: any(nme.endswith(c) for c in CTORS)):
        if b.name.startswith("chess::moves::") or "::tests::" in b.name:
            continue
        src = b.expr(t["args"][0], expand_named=True)
        if not is_king_square(fx, b, src):
            continue
        n += 1
        dst = b.expr(t["args"][1], expand_named=True)
        good, why = False, "no attack probe of the destination guards the king move"
        for (pb, pp, psq, probe_bb) in probes_guarding(b, bb):
            L = board_local(pb)
            if L is None:
                why = "the destination is probed on the unmodified board: squares behind the king on a slider's ray look safe"
                continue
            is_clone, edits, others = scratch_edits(b, L, probe_bb)
            removed = [e[1] for e in edits if e[0] == "remove"]
            if not is_clone:
                why = "the probed scratch board is not a clone of the position's board"
            elif src not in removed:
                why = "the king is not lifted off the probe board"
            elif len(edits) != 1 or others:
                why = f"unexpected extra edits of the probe board: {[(e[0], show(e[1])) for e in edits]} {others}"
            elif psq != dst:
                why = f"the probed square `{show(psq)[:60]}` is not the move's destination `{show(dst)[:60]}`"
            elif not is_game_player(pp):
                why = "the probe is not asked for the side to move"
            else:
                good, why = True, ""
            if good:
                break
        rep.obligation(good)
        rep.sample({"rule": "C01-KING", "fn": b.name, "line": t.get("line"), "ok": good})
        if not good:
            ok = False
            rep.violation("C01-KING", f"C01-KING/{norm(b.name)}", f"`{b.name}` builds a king move but {why}",
                          {"fn": b.name, "file": b.file, "line": t.get("line")})
    rep.rule("C01-KING", n, 2, ok, "king moves guarded by a destination probe on a king-less clone")


# ---- C01-CASTLE ----------------------------------------------------------------------------


def rule_castle(fx, rep):
    ok = True
    n = 0

    def bad(key, msg, b, line=None):
        nonlocal ok
        ok = False
        rep.violation("C01-CASTLE", f"C01-CASTLE/{key}", msg, {"fn": b.name, "file": b.file, "line": line or b.line})

    sites = [s for s in fx.callers_of(lambda nme: nme.endswith("Move::castles")) if "::tests::" not in s[0].name]
    for (b, bb, t) in sites:
        a_src = b.expr(t["args"][0], expand_named=True)
        a_dst = b.expr(t["args"][1], expand_named=True)
        cs = find_calls(a_dst, "bitboards::castle_squares")
        # operands
        n += 1
        ks = strip_refs(a_src)
        good = isinstance(ks, tuple) and ks[0] == "call" and ks[1].endswith("squares::king_start") and is_game_player(ks[2][0])
        rep.obligation(good)
        if not good:
            bad(f"{norm(b.name)}/src", f"castling move's source `{show(a_src)[:80]}` is not squares::king_start(side to move)", b, t.get("line"))
        n += 1
        d = strip_refs(a_dst)
        good = isinstance(d, tuple) and d[0] == "field" and d[2] == "1" and bool(cs) and is_game_player(cs[0][2][0])
        rep.obligation(good)
        if not good:
            bad(f"{norm(b.name)}/dst", f"castling move's destination `{show(a_dst)[:80]}` is not the target square of bitboards::castle_squares(side to move)", b, t.get("line"))
            continue
        cs_call = cs[0]

        def cs_field(e, i):
            e = strip_refs(e)
            return isinstance(e, tuple) and e[0] == "field" and e[2] == str(i) and strip_refs(e[1]) == cs_call

        conds = guard_conditions(b, bb, expand_named=True)
        # (2) empty path
        n += 1
        good = False
        for (e, pol, where) in conds:
            if isinstance(e, tuple) and e[0] == "call" and e[1].endswith("Bitboard::is_empty") and pol is True:
                x = strip_refs(e[2][0])
                if isinstance(x, tuple) and x[0] == "call" and x[1].endswith("BitAnd>::bitand"):
                    ops = [strip_refs(x[2][0]), strip_refs(x[2][1])]
                    req = [o for o in ops if cs_field(o, 0)]
                    occ = [o for o in ops if not cs_field(o, 0)]
                    if req and occ and is_occupancy(fx, b, occ[0]):
                        good = True
        rep.obligation(good)
        if not good:
            bad(f"{norm(b.name)}/empty", "castling move is not guarded by `(required_empty_squares & occupancy).is_empty()`", b, t.get("line"))
        # (3)(4) transit and target unattacked
        pr = probes_guarding(b, bb)
        for idx, what in ((2, "transit"), (1, "target")):
            n += 1
            good = any(is_game_board(pb) and is_game_player(pp) and cs_field(psq, idx) for (pb, pp, psq, _) in pr)
            rep.obligation(good)
            if not good:
                bad(f"{norm(b.name)}/{what}", f"castling move is not guarded by an attack probe of the {what} square on the position's board", b, t.get("line"))
        # (1) right and (5) not in check: through the call chain
        n += 1
        kingside_param = cs_call  # generic arg of castle_squares call decides the side
        good, why = check_right_chain(fx, b)
        rep.obligation(good)
        if not good:
            bad(f"{norm(b.name)}/right", f"castling move generation is not guarded by the side's castling right: {why}", b, t.get("line"))
        n += 1
        good, why = check_not_in_check_chain(fx, b)
        rep.obligation(good)
        if not good:
            bad(f"{norm(b.name)}/incheck", f"castling is generated while in check: {why}", b, t.get("line"))
    rep.rule("C01-CASTLE", n, 7, ok, "castling preconditions (right, empty path, not in check, transit/target unattacked) and operands")


def is_occupancy(fx, body, e, _depth=0):
    e = strip_refs(e)
    if isinstance(e, tuple) and e[0] == "call" and e[1].endswith("Board::occupancy") and is_game_board(e[2][0]):
        return True
    if isinstance(e, tuple) and e[0] == "arg" and _depth < 3:
        callers = fx.callers_of(lambda n: fx.body(n) is not None and fx.body(n).name == body.name)
        return bool(callers) and all(is_occupancy(fx, cb, cb.expr(t["args"][e[1] - 1], expand_named=True), _depth + 1) for (cb, bb, t) in callers)
    return False


def generic_bool_arg(t):
    ga = t["func"].get("gargs", [])
    for g in ga:
        if g in ("true", "false"):
            return g == "true"
    return None


def check_right_chain(fx, b):
    """Every call site of the castle-move generator `b` is guarded by the matching right of the side to move."""
    callers = fx.callers_of(lambda n: fx.body(n) is not None and fx.body(n).name == b.name)
    if not callers:
        return False, "no caller"
    # which side does b generate? decided by its const generic, forwarded to bitboards::castle_squares
    for (cb, bb, t) in callers:
        side = generic_bool_arg(t)
        want = {True: "king_side", False: "queen_side"}.get(side)
        found = False
        for (e, pol, where) in guard_conditions(cb, bb, expand_named=True):
            e2 = strip_refs(e)
            if isinstance(e2, tuple) and e2[0] == "field" and e2[2] in ("king_side", "queen_side") and pol is True:
                owner = find_calls(e2, "ByPlayer::for_player")
                if e2[2] == want and owner and is_game_player(owner[0][2][1]) and \
                        isinstance(strip_refs(owner[0][2][0]), tuple) and strip_refs(owner[0][2][0])[0] == "field" and strip_refs(owner[0][2][0])[2] == "castle_rights":
                    found = True
            if isinstance(e2, tuple) and e2[0] == "call" and e2[1].endswith("CastleRights::can_castle_to_side") and pol is True:
                found = True  # alternative idiom
        if not found:
            return False, f"call at {cb.name}:{t.get('line')} (KINGSIDE={side}) is not under `castle_rights.for_player(player).{want}`"
    # the generic flag is forwarded unchanged to the squares table
    for bb, t in b.calls_to("bitboards::castle_squares"):
        if t["func"].get("gargs") not in (["KINGSIDE"],):
            return False, f"castle_squares is instantiated with {t['func'].get('gargs')} instead of the generator's own side parameter"
    return True, ""


def check_not_in_check_chain(fx, b, _depth=0):
    """Some guard on every call chain into `b` says `checkers` (attackers of the mover's king) is empty."""
    callers = fx.callers_of(lambda n: fx.body(n) is not None and fx.body(n).name == b.name)
    if not callers or _depth > 3:
        return False, f"no 'not in check' guard found above {b.name}"
    for (cb, bb, t) in callers:
        found = False
        for (e, pol, where) in guard_conditions(cb, bb, expand_named=True):
            if isinstance(e, tuple) and e[0] == "call" and ((e[1].endswith("Bitboard::any") and pol is False) or (e[1].endswith("Bitboard::is_empty") and pol is True)):
                x = strip_refs(e[2][0])
                if isinstance(x, tuple) and x[0] == "field" and x[2] == "checkers":
                    found = checkers_field_ok(fx)
                elif isinstance(x, tuple) and x[0] == "call" and x[1].endswith("generate_attackers_of") and is_game_board(x[2][0]) and is_game_player(x[2][1]) and is_king_square(fx, cb, x[2][2]):
                    found = True
            if isinstance(e, tuple) and e[0] == "call" and e[1].endswith("is_king_in_check") and pol is False:
                found = True
        if not found:
            okk, why = check_not_in_check_chain(fx, cb, _depth + 1)
            if not okk:
                return False, why
    return True, ""


def checkers_field_ok(fx):
    """MovegenCache.checkers is written (outside its constructor) only from attackers_of(game.board, game.player, king)."""
    writes = []
    for b in fx.fn_bodies():
        for bb, j, s in b.stmts():
            if s["k"] == "assign":
                flds = [p for p in s["lhs"].get("p", []) if isinstance(p, dict) and p.get("n") == "checkers" and norm(p.get("adt", "")).endswith("MovegenCache")]
                if flds:
                    e = b.expr(s["rv"].get("op"), expand_named=True) if s["rv"]["k"] == "use" else None
                    writes.append((b, e))
    if not writes:
        return False
    for (b, e) in writes:
        x = strip_refs(e) if e else None
        if not (isinstance(x, tuple) and x[0] == "call" and x[1].endswith("generate_attackers_of") and is_game_board(x[2][0]) and is_game_player(x[2][1]) and is_king_square(fx, b, x[2][2])):
            return False
    return True


# ---- C01-FLAGS -----------------------------------------------------------------------------


def rule_flags(fx, rep):
    ok = True
    n = 0

    def bad(key, msg, b=None, line=None):
        nonlocal ok
        ok = False
        rep.violation("C01-FLAGS", f"C01-FLAGS/{key}", msg, {"fn": b.name if b else None, "file": b.file if b else "src/chess/moves.rs", "line": line or (b.line if b else None)})

    mnew = fx.one("Move::new")
    # (i) constructors
    builders = set()
    for b in fx.fn_bodies():
        if "::tests::" in b.name:
            continue
        for bb, j, s in b.stmts():
            rv = s.get("rv")
            if not rv:
                continue
            if rv["k"] == "agg" and rv.get("agg") == "adt" and norm(rv["adt"]) == MOVE:
                builders.add(b.name)
            if rv["k"] == "cast" and "Transmute" in rv.get("cast", "") and (rv["to"] == MOVE or rv["to"].endswith("moves::Flags")):
                if not (b.name.endswith("Flags::from_u8")):
                    builders.add(b.name + " (transmute)")
    n += 1
    good = builders == {mnew.name}
    rep.obligation(good)
    if not good:
        bad("builders", f"Move values are constructed in {sorted(builders)}; only Move::new may (so that the flag nibble is always a declared Flags value)", mnew)
    n += 1
    sig_ok = mnew.local_ty(3).endswith("moves::Flags")
    rep.obligation(sig_ok)
    if not sig_ok:
        bad("new-sig", f"Move::new takes its flags as `{mnew.local_ty(3)}`, not as the Flags enum", mnew)
    callers = {b.name for (b, bb, t) in fx.callers_of(lambda nme: nme.endswith("Move::new")) if "::tests::" not in b.name}
    allowed = {fx.one(c).name for c in ("Move::quiet", "Move::capture", "Move::castles", "Move::en_passant", "Move::quiet_promotion", "Move::capture_promotion")}
    n += 1
    good = callers <= allowed
    rep.obligation(good)
    if not good:
        bad("new-callers", f"Move::new is called from {sorted(callers - allowed)} besides the six labelled constructors", mnew)
    fu = {b.name for (b, bb, t) in fx.callers_of(lambda nme: nme.endswith("Flags::from_u8"))}
    n += 1
    good = fu <= {fx.one("Move::flags").name}
    rep.obligation(good)
    if not good:
        bad("from_u8-callers", f"Flags::from_u8 (transmute) is called from {sorted(fu)}; only Move::flags may", mnew)
    # each constructor passes its own label
    want = {"Move::quiet": "Quiet", "Move::capture": "Capture", "Move::castles": "Castle", "Move::en_passant": "EnPassant"}
    for c, v in want.items():
        cb = fx.one(c)
        n += 1
        calls = cb.calls_to("Move::new")
        good = len(calls) == 1
        if good:
            f = strip_refs(cb.expr(calls[0][1]["args"][2], expand_named=True))
            good = isinstance(f, tuple) and f[0] == "agg" and str(f[1]).endswith("Flags::" + v) and \
                cb.expr(calls[0][1]["args"][0], expand_named=True) == ("arg", 1, cb.local_name(1)) and \
                cb.expr(calls[0][1]["args"][1], expand_named=True) == ("arg", 2, cb.local_name(2))
        rep.obligation(good)
        if not good:
            bad(f"ctor/{c}", f"`{c}` does not build Move::new(src, dst, Flags::{v})", cb)
    # (ii) constants
    flags = {v["name"]: v["discr"] for v in fx.adt("moves::Flags")["variants"]}
    cap = fx.const("moves::CAPTURE_FLAG_BIT")["int"]
    pro = fx.const("moves::PROMOTION_FLAG_BIT")["int"]
    def opt_const(name):
        try:
            return fx.const(name)["int"]
        except Exception:
            return None
    capm = opt_const("moves::CAPTURE_BIT_MASK")
    prom = opt_const("moves::PROMOTION_BIT_MASK")
    srcm = fx.const("moves::SRC_MASK")["int"]
    dstm = fx.const("moves::DST_MASK")["int"]
    dsh = fx.const("moves::DST_SHIFT")["int"]
    fsh = fx.const("moves::FLAGS_SHIFT")["int"]
    rep.sample({"rule": "C01-FLAGS", "discriminants": flags, "CAPTURE_FLAG_BIT": cap, "PROMOTION_FLAG_BIT": pro})
    cap_set = {"Capture", "EnPassant", "CaptureAndPromoteToBishop", "CaptureAndPromoteToKnight", "CaptureAndPromoteToRook", "CaptureAndPromoteToQueen"}
    pro_set = {k for k in flags if "PromoteTo" in k}
    checks = [
        ("12 labels", len(flags) == 12 and len(set(flags.values())) == 12),
        ("labels fit the nibble", all(0 <= v < 16 for v in flags.values())),
        ("capture bit exactly in capturing labels", all(((v & cap) != 0) == (k in cap_set) for k, v in flags.items())),
        ("promotion bit exactly in promoting labels", all(((v & pro) != 0) == (k in pro_set) for k, v in flags.items()) and len(pro_set) == 8),
        ("bit masks agree with flag bits", (capm is None or capm == cap << fsh) and (prom is None or prom == pro << fsh)),
        ("field masks partition 16 bits", srcm & dstm == 0 and (srcm | dstm | (0xF << fsh)) == 0xFFFF and dstm == 0x3F << dsh and srcm == 0x3F),
        ("Quiet is 0", flags.get("Quiet") == 0),
    ]
    for name, good in checks:
        n += 1
        rep.obligation(good)
        if not good:
            bad(f"const/{name.replace(' ', '-')}", f"move-label constants inconsistent: {name} fails (discriminants {flags})", mnew)
    # (ii') the label predicates, evaluated by the analyser on every declared label: is_capture is true exactly for the capturing
    # labels (whether it tests the capture bit or matches on the decoded label; seed C01-6a left one label out of the match)
    import pC16
    for pred, want_set in (("Move::is_capture", cap_set),):
        pbs = fx.find(pred)
        if len(pbs) != 1:
            continue
        wrong, undecided = [], False
        for name, dv in sorted(flags.items()):
            r = pC16.bits_eval(fx, ("call", pbs[0].name, (("arg", 1),)), {1: (dv << fsh) | 0x041})
            if r is None:
                undecided = True
                break
            if bool(r) != (name in want_set):
                wrong.append((name, bool(r)))
        if undecided:
            rep.notes.append(f"C01-FLAGS: `{pred}` could not be evaluated on the declared labels; not decided")
            continue
        n += 1
        rep.obligation(not wrong)
        if wrong:
            bad(f"pred/{pred}", f"`{pred}` answers {wrong[0][1]} for a move labelled {wrong[0][0]}" + (f" (and {len(wrong) - 1} more labels)" if len(wrong) > 1 else ""), pbs[0])
    # (iii) promotion tables: writer (kind -> label) and reader (label -> kind) agree
    kinds = {v["discr"]: v["name"] for v in fx.adt("piece::PromotionPieceKind")["variants"]}
    fl_by_discr = {v: k for k, v in flags.items()}
    rbody = fx.one("Move::promotion")
    reader = match_table(rbody)
    if not any(v != "otherwise" for v in reader):
        # the label -> kind table may sit in a method of Flags the accessor delegates to (`self.flags().promotion()`)
        for hbb, ht in rbody.calls():
            hb = fx.body(callee_name(ht)) if callee_name(ht) else None
            if hb is not None and hb is not rbody and "PromotionPieceKind" in (hb.local_ty(0) or "") and (hb.local_ty(1) or "").endswith("moves::Flags"):
                reader = match_table(hb)
    reader_known = any(v != "otherwise" for v in reader)
    rd = {}
    for val, tags in reader.items():
        k = [t.split("::")[-1] for t in tags if "PromotionPieceKind::" in t]
        if val != "otherwise" and k:
            rd[fl_by_discr.get(val, val)] = k[0]
    undecided_promo = 0
    if not reader_known:
        rep.notes.append("C01-FLAGS: the label -> kind table of `Move::promotion` is not a `match` in the accessor or in a Flags method it calls; promotion tables not decided")
        undecided_promo = 9
    for ctor, prefix in (("Move::quiet_promotion", "PromoteTo"), ("Move::capture_promotion", "CaptureAndPromoteTo")) if reader_known else ():
        cbody = fx.one(ctor)
        tbl = match_table(cbody)
        if not any(v != "otherwise" for v in tbl):
            # the kind -> label table may sit in a helper returning Flags that is handed the promotion kind
            for hbb, ht in cbody.calls():
                hb = fx.body(callee_name(ht)) if callee_name(ht) else None
                if hb is not None and hb is not cbody and (hb.local_ty(0) or "").endswith("moves::Flags") and \
                        any(deep_strip(cbody.expr(a, expand_named=True, at=hbb))[:2] == ("arg", 3) for a in ht["args"]):
                    tbl = match_table(hb)
        if not any(v != "otherwise" for v in tbl):
            rep.notes.append(f"C01-FLAGS: the kind -> label table of `{ctor}` is not a `match` in the constructor or in a Flags-valued helper it calls; not decided")
            undecided_promo += 4
            continue
        for val, tags in tbl.items():
            if val == "otherwise":
                continue
            n += 1
            kind = kinds.get(val)
            lab = [t.split("::")[-1] for t in tags if "Flags::" in t]
            good = bool(lab) and kind is not None and lab[0] == prefix + kind and rd.get(lab[0]) == kind
            rep.obligation(good)
            rep.sample({"rule": "C01-FLAGS", "ctor": ctor, "kind": kind, "label": lab[:1], "reader_maps_back_to": rd.get(lab[0]) if lab else None})
            if not good:
                bad(f"promo/{ctor}/{kind}", f"`{ctor}` labels a promotion to {kind} as {lab[:1]}, which Move::promotion reads back as {rd.get(lab[0]) if lab else None}", fx.one(ctor))
    n += 1
    good = set(rd) == pro_set or not reader_known
    rep.obligation(good)
    if not good:
        bad("promo/reader", f"Move::promotion recognises {sorted(rd)} as promotions, expected exactly {sorted(pro_set)}", fx.one("Move::promotion"))
    # is_en_passant / is_castling compare against their own label
    for fn, lab in (("Move::is_en_passant", "EnPassant"), ("Move::is_castling", "Castle")):
        fb = fx.one(fn)
        n += 1
        good = False
        for bb, t in fb.calls():
            if callee_name(t) and norm(callee_name(t)).endswith("PartialEq>::eq"):
                es = [strip_refs(fb.expr(a, expand_named=True)) for a in t["args"]]
                good = any(isinstance(x, tuple) and x[0] == "agg" and str(x[1]).endswith("Flags::" + lab) for x in es) and \
                    any(isinstance(x, tuple) and x[0] == "call" and x[1].endswith("Move::flags") for x in es)
        rep.obligation(good)
        if not good:
            bad(f"pred/{fn}", f"`{fn}` does not compare the move's flags with Flags::{lab}", fb)
    rep.rule("C01-FLAGS", n, 25 - undecided_promo, ok, "move-label encoding: constructors, constants, promotion tables")


def match_table(body):
    """{switch value: [aggregate tags produced on that arm]} for the first discriminant switch of `body`
    (first non-bool SwitchInt in block order from the entry)."""
    sw = None
    for i in sorted(body.live_blocks()):
        t = body.blocks[i]["term"]
        if t["k"] == "switch" and t["dty"] != "bool":
            sw = (i, t)
            break
    if sw is None:
        return {}
    i, t = sw
    out = {}
    arms = [(v, tg) for v, tg in t["targets"]] + [("otherwise", t["otherwise"])]
    for v, tg in arms:
        tags = []
        seen = set()
        cur = tg
        while cur is not None and cur not in seen:
            seen.add(cur)
            blk = body.blocks[cur]
            for s in blk["stmts"]:
                rv = s.get("rv")
                if rv and rv["k"] == "agg" and rv.get("agg") == "adt":
                    tags.append(norm(rv["adt"]) + "::" + rv["variant"])
            tt = blk["term"]
            if tt["k"] == "goto":
                # stop at merge points (blocks with several predecessors)
                nxt = tt["target"]
                if len(body.preds()[nxt]) > 1:
                    break
                cur = nxt
            else:
                break
        out[v] = tags
    return out


# ---- C01-CHECK -----------------------------------------------------------------------------


def rule_check(fx, rep):
    ok = True
    n = 0
    kic = fx.one("Board::king_in_check")
    n += 1
    good = False
    for bb, t in kic.calls_to("generate_attackers_of"):
        b_ = strip_refs(kic.expr(t["args"][0], expand_named=True))
        p_ = kic.expr(t["args"][1], expand_named=True)
        s_ = strip_refs(kic.expr(t["args"][2], expand_named=True))
        if b_ == ("arg", 1, "self") and p_ == ("arg", 2, kic.local_name(2)) and isinstance(s_, tuple) and s_[0] == "call" and s_[1].endswith("Bitboard::single"):
            k = strip_refs(s_[2][0])
            if isinstance(k, tuple) and k[0] == "call" and k[1].endswith("Board::king") and k[2][1] == p_:
                good = True
    # result is `.any()` of that set
    ret = [kic.expr({"l": 0, "p": []}, expand_named=True)]
    good = good and any(isinstance(r, tuple) and r[0] == "call" and r[1].endswith("Bitboard::any") for r in ret)
    rep.obligation(good)
    if not good:
        ok = False
        rep.violation("C01-CHECK", "C01-CHECK/king_in_check", "Board::king_in_check does not return attackers_of(self, player, self.king(player).single()).any()",
                      {"fn": kic.name, "file": kic.file, "line": kic.line})
    g = fx.one("Game::is_king_in_check")
    n += 1
    good = False
    for bb, t in g.calls_to("Board::king_in_check"):
        good = is_game_board(g.expr(t["args"][0], expand_named=True)) and is_game_player(g.expr(t["args"][1], expand_named=True))
    rep.obligation(good)
    if not good:
        ok = False
        rep.violation("C01-CHECK", "C01-CHECK/is_king_in_check", "Game::is_king_in_check does not ask about the side to move on the game's board",
                      {"fn": g.name, "file": g.file, "line": g.line})
    rep.rule("C01-CHECK", n, 2, ok, "in-check verdict probes the mover's own king")


# ---- C01-LABEL / C01-PROMO -------------------------------------------------------------------


def and_factors(e):
    """factors of a nested `&` expression (BitAnd calls), looking through iterator plumbing"""
    e = deep_strip(e)
    if isinstance(e, tuple) and e and e[0] == "call" and isinstance(e[1], str) and e[1].endswith("BitAnd>::bitand"):
        return and_factors(e[2][0]) + and_factors(e[2][1])
    return [e]


def iter_source(e):
    """the set a loop variable iterates over: (next(&into_iter(S)) as Some).0 -> S"""
    e = deep_strip(e)
    if isinstance(e, tuple) and e and e[0] == "field" and e[2] == "0" and isinstance(e[1], tuple) and e[1][0] == "as":
        nx = e[1][1]
        if isinstance(nx, tuple) and nx[0] == "call" and nx[1].endswith("::next"):
            it = deep_strip(nx[2][0])
            if isinstance(it, tuple) and it[0] == "call" and it[1].endswith("into_iter"):
                return deep_strip(it[2][0])
    return None


def arg_passed_as(fx, body, argidx, pred, _depth=0):
    callers = fx.callers_of(lambda n: fx.body(n) is not None and fx.body(n).name == body.name)
    if not callers or _depth > 3:
        return False
    for (cb, bb, t) in callers:
        e = deep_strip(cb.expr(t["args"][argidx - 1], expand_named=True, at=bb))
        if pred(e):
            continue
        if isinstance(e, tuple) and e[0] == "arg" and arg_passed_as(fx, cb, e[1], pred, _depth + 1):
            continue
        return False
    return True


def is_occ_all(e):
    return isinstance(e, tuple) and e and e[0] == "call" and e[1].endswith("Board::occupancy") and is_game_board(e[2][0])


def is_occ_theirs(e):
    if isinstance(e, tuple) and e and e[0] == "call" and e[1].endswith("Board::occupancy_for") and is_game_board(e[2][0]):
        p = deep_strip(e[2][1])
        return isinstance(p, tuple) and p[0] == "call" and p[1].endswith("Player::other") and is_game_player(p[2][0])
    return False


def factor_is(fx, body, f, pred):
    f = deep_strip(f)
    if pred(f):
        return True
    if isinstance(f, tuple) and f and f[0] == "arg":
        return arg_passed_as(fx, body, f[1], pred)
    return False


def has_their_pieces(fx, body, s):
    return any(factor_is(fx, body, f, is_occ_theirs) for f in and_factors(s))


def has_not_all_pieces(fx, body, s):
    for f in and_factors(s):
        f = deep_strip(f)
        if isinstance(f, tuple) and f and f[0] == "call" and f[1].endswith("Not>::not") and factor_is(fx, body, f[2][0], is_occ_all):
            return True
    return False


def ctor_sites(fx):
    """Every Move::{capture,quiet,capture_promotion,quiet_promotion} call in movegen::gen as
    (site_body, bb, term, ctor, ctx_body, src_expr, dst_expr). When the call sits in a helper whose source / destination
    is simply a parameter, the expressions are taken from each in-module caller (one level), with ctx_body that caller."""
    out = []
    for b in fx.fn_bodies():
        if not norm(b.name).startswith("chess::movegen::gen::") or "::tests::" in b.name:
            continue
        for bb, t in b.calls():
            cn = norm(callee_name(t) or "")
            if not cn.startswith("chess::moves::Move::"):
                continue
            ctor = cn.split("::")[-1]
            if ctor not in ("capture", "quiet", "capture_promotion", "quiet_promotion"):
                continue
            src = b.expr(t["args"][0], expand_named=True, at=bb)
            dst = b.expr(t["args"][1], expand_named=True, at=bb)
            ps, pd = deep_strip(src), deep_strip(dst)
            is_param = lambda e: isinstance(e, tuple) and len(e) >= 2 and e[0] == "arg" and isinstance(e[1], int)
            if is_param(ps) and is_param(pd):  # both come from the caller: analyse them in the caller's context
                callers = [(cb, cbb, ct) for (cb, cbb, ct) in fx.callers_of(lambda nm: nm == norm(b.name))
                           if norm(cb.name).startswith("chess::movegen::gen::") and "::tests::" not in cb.name]
                for cb, cbb, ct in callers:
                    s2 = cb.expr(ct["args"][ps[1] - 1], expand_named=True, at=cbb)
                    d2 = cb.expr(ct["args"][pd[1] - 1], expand_named=True, at=cbb)
                    out.append((b, bb, t, ctor, cb, s2, d2))
                continue
            out.append((b, bb, t, ctor, b, src, dst))
    return out


def rule_label(fx, rep):
    ok = True
    n = 0

    def bad(key, msg, b, line):
        nonlocal ok
        ok = False
        rep.violation("C01-LABEL", f"C01-LABEL/{key}", msg, {"fn": b.name, "file": b.file, "line": line})

    promo = {"capture_promotion": [], "quiet_promotion": []}
    seen = {}
    counted = set()
    if True:
        for site_b, bb, t, ctor, b, src, dst in ctor_sites(fx):
            kinds_here = [None]
            if ctor.endswith("promotion"):
                kinds_here = promo_kinds(fx, site_b, bb, t)
            n += len(kinds_here)
            if ctor.endswith("promotion") and (site_b.name, bb) not in counted:
                counted.add((site_b.name, bb))
                for kd in kinds_here:
                    promo[ctor].append((norm(site_b.name), kd, t.get("line")))
            dset = iter_source(dst)
            good, why = False, ""
            if ctor in ("capture", "capture_promotion"):
                good = dset is not None and has_their_pieces(fx, b, dset)
                why = "its destination set is not restricted to the opponent's pieces"
            else:
                if dset is not None:
                    good = has_not_all_pieces(fx, b, dset)
                    why = "its destination set is not restricted to empty squares"
                else:
                    # pawn pushes: dst = forward(..forward(pawn)) with pawn drawn from a set built from backward(!all_pieces & ..)
                    d = deep_strip(dst)
                    steps = 0
                    while isinstance(d, tuple) and d and d[0] == "call" and d[1].endswith("Square::forward"):
                        steps += 1
                        d = deep_strip(d[2][0])
                    pset = iter_source(d)
                    if steps >= 1 and pset is not None:
                        backs = [x for f in and_factors(pset) for x in walk(f) if isinstance(x, tuple) and x and x[0] == "call" and isinstance(x[1], str) and x[1].endswith("Bitboard::backward")]
                        good = any(has_not_all_pieces(fx, b, deep_strip(x[2][0])) or any(has_not_all_pieces(fx, b, deep_strip(y[2][0])) for y in walk(x[2][0]) if isinstance(y, tuple) and y and y[0] == "call" and isinstance(y[1], str) and y[1].endswith("Bitboard::backward")) for x in backs)
                        if good and steps == 2:
                            # double push: the intermediate square must be empty as well
                            good = any(isinstance(deep_strip(f), tuple) and deep_strip(f)[0] == "call" and deep_strip(f)[1].endswith("Not>::not") and
                                       find_calls(deep_strip(f)[2][0], "Bitboard::backward") for f in and_factors(pset))
                        why = "the square(s) in front of the pawn are not required to be empty"
                    else:
                        why = "its destination is not drawn from a set of empty squares"
            rep.obligation(good)
            k = f"{norm(site_b.name).split('::')[-1]}/{ctor}"
            seen[k] = seen.get(k, 0) + 1
            if not good:
                bad(k + (f"/{seen[k]}" if seen[k] > 1 else ""), f"`{site_b.name}` line {t.get('line')} builds Move::{ctor} but {why}: a move would carry the wrong capture/quiet label (make_move and move ordering trust it)", site_b, t.get("line"))
    rep.rule("C01-LABEL", n, 19, ok, "capture/quiet labels match the occupancy of the destination set")
    rule_promorank(fx, rep)
    # promotions: each of the four kinds exactly once per kind of promotion
    ok2 = True
    for ctor, lst in promo.items():
        kinds = sorted(k for (_, k, _) in lst if k)
        good = kinds == ["Bishop", "Knight", "Queen", "Rook"]
        rep.obligation(good)
        rep.sample({"rule": "C01-PROMO", "ctor": ctor, "sites": [(f.split("::")[-1], k) for (f, k, _) in lst]})
        if not good:
            ok2 = False
            rep.violation("C01-PROMO", f"C01-PROMO/{ctor}", f"Move::{ctor} is generated for kinds {kinds}; every promoting pawn move must be listed exactly once for each of Queen, Rook, Knight, Bishop", {"file": "src/chess/movegen/gen.rs", "line": lst[0][2] if lst else None})
    glm = fx.one("gen::generate_legal_moves")
    good = len(glm.calls_to("gen::generate_captures")) == 1 and len(glm.calls_to("gen::generate_quiets")) == 1
    rep.obligation(good)
    if not good:
        ok2 = False
        rep.violation("C01-PROMO", "C01-PROMO/stages", "generate_legal_moves does not run the capture stage and the quiet stage exactly once each", {"fn": glm.name, "file": glm.file, "line": glm.line})
    rep.rule("C01-PROMO", len(promo["capture_promotion"]) + len(promo["quiet_promotion"]) + 1, 9, ok2, "promotion kinds listed exactly once; both stages run once")


def is_pawn_set(fx, body, f):
    """factor is the side to move's pawn set"""
    def pred(e):
        return isinstance(e, tuple) and e and e[0] == "call" and e[1].endswith("Board::pawns") and is_game_board(e[2][0]) and is_game_player(e[2][1])
    return factor_is(fx, body, f, pred)


def rank_mask_kind(f):
    """'promo' for pawn_back_rank(other(player)) (the rank from which a pawn promotes), 'start' for pawn_back_rank(player);
    prefixed with '!' when negated"""
    f = deep_strip(f)
    neg = False
    if isinstance(f, tuple) and f and f[0] == "call" and f[1].endswith("Not>::not"):
        neg = True
        f = deep_strip(f[2][0])
    if isinstance(f, tuple) and f and f[0] == "call" and f[1].endswith("bitboards::pawn_back_rank"):
        a = deep_strip(f[2][0])
        if is_game_player(a):
            return ("!" if neg else "") + "start"
        if isinstance(a, tuple) and a[0] == "call" and a[1].endswith("Player::other") and is_game_player(a[2][0]):
            return ("!" if neg else "") + "promo"
    return None


def rule_promorank(fx, rep):
    """A pawn standing on its pre-promotion rank may only produce promotion-labelled moves and vice versa: the source
    set of every pawn move is split by the promotion-rank mask."""
    ok = True
    n = 0
    seen = {}
    if True:
        for site_b, bb, t, ctor, b, src, dst in ctor_sites(fx):
            sset = iter_source(src)
            if sset is None:
                continue
            factors = and_factors(sset)
            if not any(is_pawn_set(fx, b, f) for f in factors):
                continue
            n += len(promo_kinds(fx, site_b, bb, t)) if ctor.endswith("promotion") else 1
            kinds = {rank_mask_kind(f) for f in factors} - {None}
            if ctor.endswith("promotion"):
                good = "promo" in kinds
                why = "its source pawns are not restricted to the pre-promotion rank"
            else:
                good = "!promo" in kinds or "start" in kinds
                why = "its source pawns are not kept off the pre-promotion rank: a pawn reaching the last rank would be listed without promoting"
            rep.obligation(good)
            k = f"{norm(site_b.name).split('::')[-1]}/{ctor}"
            seen[k] = seen.get(k, 0) + 1
            if not good:
                ok = False
                rep.violation("C01-PROMORANK", f"C01-PROMORANK/{k}" + (f"/{seen[k]}" if seen[k] > 1 else ""),
                              f"`{site_b.name}` line {t.get('line')} builds a pawn Move::{ctor} but {why}", {"fn": site_b.name, "file": site_b.file, "line": t.get("line")})
    rep.rule("C01-PROMORANK", n, 11, ok, "pawn moves split by the promotion-rank mask")


def promo_kinds(fx, b, bb, t):
    """promotion kinds a constructor call stands for: the constant kind, or - when the kind is the variable of a loop over a
    constant array of kinds - every element of that array"""
    e = b.expr(t["args"][2], expand_named=True, at=bb)
    k = enum_name_of(e)
    if k is not None:
        return [k]
    src = iter_source(e)
    if src is not None:
        d = deep_strip(src)
        arr = None
        if isinstance(d, tuple) and d[0] == "agg" and d[1] == "array":
            arr = d
        elif isinstance(d, tuple) and d[0] == "constpath":
            cb = fx.body(d[1])
            if cb is not None:
                rets = [p for p in decision_paths(cb, 4) if p[1] is not None]
                if len(rets) == 1 and isinstance(deep_strip(rets[0][1]), tuple) and deep_strip(rets[0][1])[0] == "agg" and deep_strip(rets[0][1])[1] == "array":
                    arr = deep_strip(rets[0][1])
        if arr is not None:
            ks = [enum_name_of(x) for x in arr[2]]
            if all(ks):
                return ks
    return [None]


def enum_name_of(e):
    e = deep_strip(e)
    if isinstance(e, tuple) and e and e[0] == "agg" and isinstance(e[1], str) and not e[2]:
        return e[1].split("::")[-1]
    return None


GEN = "src/chess/movegen/gen.rs"
MV = "src/chess/moves.rs"
MUTANTS = [
    {"name": "pin test of the en-passant block as pinned(start) == on_ray(target) (seed C01-13a)", "expect": "C01-PINRAY/generate_pawn_captures/en_passant",
     "edits": __import__("shared_mutants").edits_from_patch("seeded/C01-13a/patch.diff")},
    {"name": "rook filler stops in front of the full blocker subset (seed C01-8a)", "expect": "C01-TABLES/C07-FILL/rook",
     "edits": [("src/chess/movegen/tables/magics.rs", "        let occupancy_subsets = SubsetsOf::new(occupancies);\n\n        for blockers in occupancy_subsets {\n            let idx = table_index_rook(s, blockers);\n\n            unsafe {\n                ATTACKS_TABLE[idx] = attacks::generate_rook_attacks(s, blockers);\n            }\n        }", "        let mut blockers = Bitboard::EMPTY;\n\n        while blockers != occupancies {\n            let idx = table_index_rook(s, blockers);\n\n            unsafe {\n                ATTACKS_TABLE[idx] = attacks::generate_rook_attacks(s, blockers);\n            }\n\n            blockers = (blockers - occupancies) & occupancies;\n        }")]},
    {"name": "en passant refused for every diagonally pinned pawn (seed C17-4a)", "expect": "C01-PINRAY/generate_pawn_captures/en_passant",
     "edits": [(GEN, "                if !diagonal_pins.contains(potential_en_passant_capture_start)\n                    || diagonal_pins.contains(en_passant_target)\n                {", "                if !diagonal_pins.contains(potential_en_passant_capture_start) {")]},
    {"name": "queen promotion push ignores diagonal pins (seed C01-4a)", "expect": "C01-PINS/generate_pawn_captures/quiet_promotion",
     "edits": [(GEN, "    for pawn in can_push_once_pawns & will_promote_rank {\n        let target = pawn.forward(game.player);\n\n        // Pawns cannot push forward if they are pinned orthogonally\n        // There's no 'moving along the pin ray' for these pieces, since the target square is empty\n        if !orthogonal_pins.contains(pawn) {\n            moves.push(Move::quiet_promotion(\n                pawn,\n                target,\n                PromotionPieceKind::Queen,",
                "    for pawn in can_capture_pawns & single_push_available_move_pawns & will_promote_rank {\n        let target = pawn.forward(game.player);\n\n        // Pawns cannot push forward if they are pinned orthogonally\n        // There's no 'moving along the pin ray' for these pieces, since the target square is empty\n        if !orthogonal_pins.contains(pawn) {\n            moves.push(Move::quiet_promotion(\n                pawn,\n                target,\n                PromotionPieceKind::Queen,")]},
    {"name": "knight captures ignore the check mask", "expect": "C01-PINS/generate_knight_captures",
     "edits": [(GEN, "        let destinations = tables::knight_attacks(knight) & check_mask;\n\n        let capture_destinations = destinations & their_pieces;", "        let destinations = tables::knight_attacks(knight);\n        let _ = check_mask;\n\n        let capture_destinations = destinations & their_pieces;")]},
    {"name": "enemy king no longer counted as an attacker (seed C01-2)", "expect": "C01-ATTACKERS/king_attacks",
     "edits": [("src/chess/movegen/attackers.rs", "    attackers |= tables::king_attacks(square) & board.king(them);\n\n    attackers\n}\n\npub fn all_attackers_of", "    attackers\n}\n\npub fn all_attackers_of")]},
    {"name": "attacker set cut short once a pawn attacker is found (seed C01-5b)", "expect": "C01-ATTACKERS/partial",
     "edits": [("src/chess/movegen/attackers.rs", "    // Knights: A square is attacked by any squares a knight could reach if it were on that square\n    attackers |=", "    if attackers.any() {\n        return attackers;\n    }\n    attackers |=")]},
    {"name": "is_capture by a match that leaves out the knight capture-promotion (seed C01-6a)", "expect": "C01-FLAGS/pred/Move::is_capture",
     "edits": [(MV, "        (self.data() & CAPTURE_BIT_MASK) == CAPTURE_BIT_MASK\n", "        matches!(\n            self.flags(),\n            Flags::Capture\n                | Flags::EnPassant\n                | Flags::CaptureAndPromoteToBishop\n                | Flags::CaptureAndPromoteToRook\n                | Flags::CaptureAndPromoteToQueen\n        )\n"),
               (MV, "const CAPTURE_BIT_MASK: u16 = 0b0001_0000_0000_0000;\n", "")]},
    {"name": "benign: is_capture by a match over all six capturing labels", "benign": True,
     "edits": [(MV, "        (self.data() & CAPTURE_BIT_MASK) == CAPTURE_BIT_MASK\n", "        matches!(\n            self.flags(),\n            Flags::Capture\n                | Flags::EnPassant\n                | Flags::CaptureAndPromoteToBishop\n                | Flags::CaptureAndPromoteToKnight\n                | Flags::CaptureAndPromoteToRook\n                | Flags::CaptureAndPromoteToQueen\n        )\n"),
               (MV, "const CAPTURE_BIT_MASK: u16 = 0b0001_0000_0000_0000;\n", "")]},
    {"name": "en-passant gate while in check tests only the captured pawn's square (seed C01-7b)", "expect": "C01-EP/check-mask",
     "edits": [(GEN, "        if (check_mask & (en_passant_target.bb() | captured_pawn.bb())).any() {", "        if check_mask.contains(captured_pawn) {")]},
    {"name": "move list capacity below the 218-move maximum (seed C01-5a)", "expect": "C01-CAPACITY",
     "edits": [("src/chess/moves.rs", "const MAX_LEGAL_MOVES: usize = 218;", "const MAX_LEGAL_MOVES: usize = 200;")]},
    {"name": "diagonal attackers exclude queens", "expect": "C01-ATTACKERS/bishop_attacks",
     "edits": [("src/chess/movegen/attackers.rs", "    attackers |= tables::bishop_attacks(square, all_pieces) & board.diagonal_sliders(them);", "    attackers |= tables::bishop_attacks(square, all_pieces) & board.bishops(them);")]},
    {"name": "pawn attack pattern of the wrong colour", "expect": "C01-ATTACKERS/args",
     "edits": [("src/chess/movegen/attackers.rs", "    attackers |= tables::pawn_attacks(square, player) & board.pawns(them);", "    attackers |= tables::pawn_attacks(square, them) & board.pawns(them);")]},
    {"name": "en-passant probe without the capturing pawn on the target (original defect)", "expect": "C01-EP",
     "edits": [(GEN, "                    board_without_en_passant_participants.set_at(\n                        en_passant_target,\n                        Piece::new(game.player, PieceKind::Pawn),\n                    );\n", "                    let _ = (Piece::new(game.player, PieceKind::Pawn), PieceKind::Pawn);\n")]},
    {"name": "en-passant probe forgets to remove the victim", "expect": "C01-EP",
     "edits": [(GEN, "                    board_without_en_passant_participants.remove_at(captured_pawn);\n", "")]},
    {"name": "en-passant probe on the real board", "expect": "C01-EP",
     "edits": [(GEN, "                    let king_in_check = attackers::generate_attackers_of(\n                        &board_without_en_passant_participants,", "                    let king_in_check = attackers::generate_attackers_of(\n                        &game.board,")]},
    {"name": "en-passant pushed regardless of the probe", "expect": "C01-EP",
     "edits": [(GEN, "                    if !king_in_check {\n                        moves.push(Move::en_passant(", "                    if !king_in_check || true {\n                        moves.push(Move::en_passant(")]},
    {"name": "king quiets probed with the king still on the board", "expect": "C01-KING",
     "edits": [(GEN, "    let mut board_without_king = game.board.clone();\n    board_without_king.remove_at(king);\n\n    for dst in destinations & !all_pieces {", "    let board_without_king = game.board.clone();\n\n    for dst in destinations & !all_pieces {")]},
    {"name": "king captures probe the king square instead of the destination", "expect": "C01-KING",
     "edits": [(GEN, "        if attackers::generate_attackers_of(&board_without_king, game.player, dst).is_empty() {\n            moves.push(Move::capture(king, dst));", "        if attackers::generate_attackers_of(&board_without_king, game.player, king).is_empty() {\n            moves.push(Move::capture(king, dst));")]},
    {"name": "castling ignores attacks on the transit square", "expect": "C01-CASTLE",
     "edits": [(GEN, "        && attackers::generate_attackers_of(&game.board, game.player, middle_square).is_empty()\n", "")]},
    {"name": "castling allowed while in check", "expect": "C01-CASTLE",
     "edits": [(GEN, "    if !checkers.any() {\n        generate_castles(moves, game, all_pieces);\n    }", "    generate_castles(moves, game, all_pieces);")]},
    {"name": "queenside castling generated under the kingside right", "expect": "C01-CASTLE",
     "edits": [(GEN, "    if castle_rights_for_player.queen_side {", "    if castle_rights_for_player.king_side {")]},
    {"name": "castling move built to the transit square", "expect": "C01-CASTLE",
     "edits": [(GEN, "        moves.push(Move::castles(king_start_square, target_square));", "        moves.push(Move::castles(king_start_square, middle_square));")]},
    {"name": "knight promotion labelled as rook", "expect": "C01-FLAGS/promo",
     "edits": [(MV, "                PromotionPieceKind::Knight => Flags::PromoteToKnight,", "                PromotionPieceKind::Knight => Flags::PromoteToRook,")]},
    {"name": "PromoteToKnight given the castle nibble", "expect": "C01-FLAGS/const",
     "edits": [(MV, "    PromoteToKnight = PROMOTION_FLAG_BIT | flag_bits(false, true),", "    PromoteToKnight = flag_bits(false, true),")]},
    {"name": "reader maps capture-promote-to-bishop to knight", "expect": "C01-FLAGS/promo",
     "edits": [(MV, "            Flags::PromoteToBishop | Flags::CaptureAndPromoteToBishop => Some(Bishop),\n            Flags::PromoteToKnight | Flags::CaptureAndPromoteToKnight => Some(Knight),", "            Flags::PromoteToBishop => Some(Bishop),\n            Flags::PromoteToKnight | Flags::CaptureAndPromoteToKnight | Flags::CaptureAndPromoteToBishop => Some(Knight),")]},
    {"name": "in-check verdict asks about the other side", "expect": "C01-CHECK",
     "edits": [("src/chess/game.rs", "        self.board.king_in_check(self.player)", "        self.board.king_in_check(self.player.other())")]},
    {"name": "knight captures drawn from all occupied squares (own pieces capturable)", "expect": "C01-LABEL",
     "edits": [(GEN, "        let capture_destinations = destinations & their_pieces;\n        for dst in capture_destinations {\n            moves.push(Move::capture(knight, dst));", "        let capture_destinations = destinations & !(!their_pieces & !destinations);\n        for dst in capture_destinations {\n            moves.push(Move::capture(knight, dst));")]},
    {"name": "king quiet moves labelled from the capture set", "expect": "C01-LABEL",
     "edits": [(GEN, "    for dst in destinations & !all_pieces {\n        if attackers::generate_attackers_of(&board_without_king, game.player, dst).is_empty() {\n            moves.push(Move::quiet(king, dst));", "    for dst in destinations & (!all_pieces | game.board.occupancy_for(game.player.other())) {\n        if attackers::generate_attackers_of(&board_without_king, game.player, dst).is_empty() {\n            moves.push(Move::quiet(king, dst));")]},
    {"name": "knight under-promotion listed in both stages", "expect": "C01-PROMO",
     "edits": [(GEN, "            moves.push(Move::quiet_promotion(\n                pawn,\n                target,\n                PromotionPieceKind::Queen,\n            ));\n        }\n    }\n\n    // Non-promoting captures", "            moves.push(Move::quiet_promotion(\n                pawn,\n                target,\n                PromotionPieceKind::Queen,\n            ));\n            moves.push(Move::quiet_promotion(\n                pawn,\n                target,\n                PromotionPieceKind::Knight,\n            ));\n        }\n    }\n\n    // Non-promoting captures")]},
    {"name": "pinned pawns captured in a separate loop without the promotion split (seed C01-1)", "expect": "C01-PROMORANK",
     "edits": [(GEN, "    // Non-promoting captures: All pawns can capture diagonally\n    for pawn in can_capture_pawns & !will_promote_rank {", "    // Non-promoting captures: All pawns can capture diagonally\n    for pawn in can_capture_pawns & !(will_promote_rank & !diagonal_pins) {")]},
    {"name": "benign: rename scratch board and reorder removals", "benign": True,
     "edits": [(GEN, "                    board_without_en_passant_participants\n                        .remove_at(potential_en_passant_capture_start);\n                    board_without_en_passant_participants.remove_at(captured_pawn);\n",
                "                    board_without_en_passant_participants.remove_at(captured_pawn);\n                    board_without_en_passant_participants\n                        .remove_at(potential_en_passant_capture_start);\n")]},
    {"name": "benign: castle guard via local bools", "benign": True,
     "edits": [(GEN, "    if (required_empty_squares & all_pieces).is_empty()\n        && attackers", "    let path_clear = (required_empty_squares & all_pieces).is_empty();\n    if path_clear\n        && attackers")]},
]
