"""Runner infrastructure: fact generation (through cargo + the factgen wrapper, on /repo's current
working tree), fact cache keyed by source hash, Report/evidence/known-findings handling."""
import fcntl
import hashlib
import json
import os
import shutil
import subprocess
import sys
import tempfile
import time
import uuid

VERIF = os.path.dirname(os.path.dirname(os.path.dirname(os.path.abspath(__file__))))
CACHE = os.path.join(VERIF, ".cache")
FACTGEN_DIR = os.path.join(VERIF, "engine", "factgen")
FACTGEN_TARGET = os.path.join(CACHE, "factgen-target")
DRIVER = os.path.join(FACTGEN_TARGET, "debug", "factgen")
REPO = os.environ.get("VERIF_REPO", "/repo")

CONFIGS = {
    "default": [],
    "release": ["--no-default-features", "--features", "release"],
    "tuner": ["--features", "tuner"],
}


QUIET = False


def log(*a):
    if not QUIET:
        print(*a, flush=True)


def sysroot_lib():
    out = subprocess.run(["rustc", "+nightly", "--print", "sysroot"], capture_output=True, text=True, check=True)
    return os.path.join(out.stdout.strip(), "lib")


def base_env():
    env = dict(os.environ)
    env["CARGO_NET_OFFLINE"] = "true"
    env["LD_LIBRARY_PATH"] = sysroot_lib() + (":" + env["LD_LIBRARY_PATH"] if env.get("LD_LIBRARY_PATH") else "")
    return env


def ensure_driver():
    """Build factgen if the binary is missing or older than its sources."""
    os.makedirs(CACHE, exist_ok=True)
    srcs = [os.path.join(FACTGEN_DIR, "src", f) for f in os.listdir(os.path.join(FACTGEN_DIR, "src"))]
    srcs.append(os.path.join(FACTGEN_DIR, "Cargo.toml"))
    newest = max(os.path.getmtime(p) for p in srcs)
    if os.path.exists(DRIVER) and os.path.getmtime(DRIVER) >= newest:
        return
    with open(os.path.join(CACHE, "driver.lock"), "w") as lk:
        fcntl.flock(lk, fcntl.LOCK_EX)
        if os.path.exists(DRIVER) and os.path.getmtime(DRIVER) >= newest:
            return
        env = base_env()
        env["CARGO_TARGET_DIR"] = FACTGEN_TARGET
        r = subprocess.run(["cargo", "build", "--offline"], cwd=FACTGEN_DIR, env=env, capture_output=True, text=True)
        if r.returncode != 0 or not os.path.exists(DRIVER):
            raise AnalysisError("factgen driver failed to build:\n" + r.stderr[-3000:])


def source_hash(repo):
    """SHA-256 over every file under repo except target/ and .git/ (paths and contents)."""
    h = hashlib.sha256()
    for root, dirs, files in os.walk(repo):
        rel = os.path.relpath(root, repo)
        if rel == ".":
            dirs[:] = [d for d in dirs if d not in ("target", ".git")]
        dirs.sort()
        for f in sorted(files):
            p = os.path.join(root, f)
            h.update(os.path.relpath(p, repo).encode())
            h.update(b"\0")
            try:
                with open(p, "rb") as fh:
                    h.update(fh.read())
            except OSError:
                h.update(b"<unreadable>")
            h.update(b"\0")
    return h.hexdigest()


class AnalysisError(Exception):
    pass


def driver_stamp():
    st = os.stat(DRIVER)
    return f"{int(st.st_mtime)}-{st.st_size}"


def gen_facts(config="default", repo=None):
    """Return the path of a fact file describing `repo`'s current working tree in `config`.
    Always recomputes the source hash; regenerates the facts through cargo when no cached file for
    that hash exists."""
    repo = repo or REPO
    ensure_driver()
    os.makedirs(os.path.join(CACHE, "facts"), exist_ok=True)
    h = source_hash(repo)
    out = os.path.join(CACHE, "facts", f"{h[:24]}-{config}-{driver_stamp()}.json")
    if os.path.exists(out):
        return out, h, True
    lockp = os.path.join(CACHE, f"gen-{config}.lock")
    with open(lockp, "w") as lk:
        fcntl.flock(lk, fcntl.LOCK_EX)
        if os.path.exists(out):
            return out, h, True
        nonce = uuid.uuid4().hex
        env = base_env()
        tdir = os.path.join(CACHE, f"target-{config}")
        env.update({
            "RUSTFLAGS": "-Zmir-opt-level=0 -Awarnings",
            "RUSTC_WORKSPACE_WRAPPER": DRIVER,
            "CARGO_TARGET_DIR": tdir,
            "FACTGEN_OUT": out + ".part",
            "FACTGEN_NONCE": nonce,
            "FACTGEN_CONFIG": config,
            "FACTGEN_ARGS_OUT": os.path.join(CACHE, f"rustc-args-{config}.json"),
        })
        # cargo's freshness cache would skip the wrapper: drop the workspace member's fingerprints
        fp = os.path.join(tdir, "debug", ".fingerprint")
        if os.path.isdir(fp):
            for d in os.listdir(fp):
                if d.startswith("engine-"):
                    shutil.rmtree(os.path.join(fp, d), ignore_errors=True)
        if os.path.exists(out + ".part"):
            os.remove(out + ".part")
        cmd = ["cargo", "+nightly", "check", "--offline", "--bin", "engine"] + CONFIGS[config]
        r = subprocess.run(cmd, cwd=repo, env=env, capture_output=True, text=True)
        if r.returncode != 0:
            raise AnalysisError(f"cargo check failed for config {config} (the tree does not compile?):\n" + r.stderr[-4000:])
        if not os.path.exists(out + ".part"):
            raise AnalysisError("factgen wrote no fact file (wrapper was skipped?)")
        with open(out + ".part") as f:
            head = f.read(400)
        if nonce not in head:
            raise AnalysisError("stale fact file: nonce mismatch")
        os.replace(out + ".part", out)
        # keep the cache small
        prune_cache(os.path.join(CACHE, "facts"), keep=24)
    return out, h, False


def gen_facts_direct(srcdir, config="default"):
    """Facts for a scratch copy (mutant) by replaying the recorded rustc command line directly on it.
    The scratch copy must have the same layout as the repo. No cargo involved; ~2 s."""
    ensure_driver()
    argsp = os.path.join(CACHE, f"rustc-args-{config}.json")
    if not os.path.exists(argsp):
        gen_facts(config)
    with open(argsp) as f:
        rec = json.load(f)
    args = list(rec["args"])
    tmpout = tempfile.mkdtemp(prefix="fg-out-", dir=srcdir)
    # redirect outputs into the scratch dir, drop incremental
    new = []
    skip = False
    for i, a in enumerate(args):
        if skip:
            skip = False
            continue
        if a == "--out-dir":
            new += ["--out-dir", tmpout]
            skip = True
            continue
        if a == "-C" and i + 1 < len(args) and args[i + 1].startswith("incremental="):
            skip = True
            continue
        if a.startswith("--error-format") or a.startswith("--json"):
            continue
        new.append(a)
    env = base_env()
    env.update(rec["env"])
    env["CARGO_MANIFEST_DIR"] = srcdir
    out = os.path.join(srcdir, "facts.json")
    nonce = uuid.uuid4().hex
    env.update({"FACTGEN_OUT": out, "FACTGEN_NONCE": nonce, "FACTGEN_CONFIG": config})
    env.pop("FACTGEN_ARGS_OUT", None)
    env.pop("RUSTC_WORKSPACE_WRAPPER", None)
    r = subprocess.run([DRIVER] + new[1:], cwd=srcdir, env=env, capture_output=True, text=True)
    if r.returncode != 0 or not os.path.exists(out):
        raise AnalysisError("direct factgen failed (mutant does not compile?):\n" + r.stderr[-3000:])
    return out


def prune_cache(d, keep):
    fs = sorted((os.path.getmtime(os.path.join(d, f)), f) for f in os.listdir(d) if f.endswith(".json"))
    for _, f in fs[:-keep]:
        try:
            os.remove(os.path.join(d, f))
        except OSError:
            pass


# -------------------------------------------------------------------------------------------


class Report:
    """Collects rule results, violations, evidence for one property run."""

    def __init__(self, prop, tier):
        self.prop = prop
        self.tier = tier
        self.rules = []  # dicts
        self.violations = []  # dicts with key
        self.samples = []
        self.obligations = 0
        self.discharged = 0
        self.assumptions = []
        self.notes = []
        self.analysed = {}
        self.t0 = time.time()

    def rule(self, rid, instances, floor, ok, what=""):
        """Record the outcome of one rule: `instances` sites examined, `floor` = number confirmed by hand."""
        st = "ok" if ok and instances >= floor else "FAIL"
        self.rules.append({"rule": rid, "instances": instances, "floor": floor, "status": st, "what": what})
        log(f"RULE {rid} instances={instances} floor={floor} {st}" + (f"  # {what}" if what else ""))
        if instances < floor:
            self.violation(rid, f"{rid}/floor", f"rule {rid} matched {instances} site(s), fewer than the {floor} confirmed by reading: "
                           "the anchor moved or the rule no longer sees the code (fail closed)", {})

    def obligation(self, ok=True, n=1):
        self.obligations += n
        if ok:
            self.discharged += n

    def sample(self, s):
        if len(self.samples) < 40:
            self.samples.append(s)

    def violation(self, rule, key, msg, site):
        if any(v["key"] == key for v in self.violations):
            return  # one report per construct
        self.violations.append({"rule": rule, "key": key, "msg": msg, "site": site})

    def assume(self, s):
        if s not in self.assumptions:
            self.assumptions.append(s)


def load_known():
    p = os.path.join(VERIF, "known_findings.json")
    if not os.path.exists(p):
        return {"findings": [], "fixed": []}
    with open(p) as f:
        return json.load(f)


COMMON_TRUSTED = [
    "rustc nightly MIR construction, type checking, Instance resolution and const evaluation",
    "cargo builds the same sources for the product (cfg(test) code excluded on purpose)",
    "library leaves (std, nom, arrayvec, rand) summarised, not analysed",
    "factgen driver + python rule engine under /verif/engine",
]


def finish(rep, facts_info, explanation, level="other"):
    """Print verdict lines, write evidence + replay files, return the exit status."""
    known = load_known()
    known_keys = {(k["property"], k["key"]): k for k in known.get("findings", [])}
    evdir = os.path.join(VERIF, "evidence")
    rpdir = os.path.join(evdir, "replay")
    os.makedirs(rpdir, exist_ok=True)
    real = []
    for v in rep.violations:
        kk = (rep.prop, v["key"])
        if kk in known_keys:
            log(f"KNOWN-FINDING: property={rep.prop} {known_keys[kk].get('what', v['msg'])}")
            continue
        real.append(v)
    for v in real:
        safe = "".join(c if c.isalnum() or c in "-_." else "_" for c in v["key"])[:120]
        rp = os.path.join(rpdir, f"{rep.prop}-{safe}.json")
        with open(rp, "w") as f:
            json.dump({"property": rep.prop, **v, "facts": facts_info}, f, indent=1)
        log(f"  {v['rule']}: {v['msg']}")
        if v["site"]:
            log(f"    at {v['site']}")
        log(f"VIOLATION property={rep.prop} replay={rp}")
    wall = time.time() - rep.t0
    ev = {
        "property_id": rep.prop,
        "tier": rep.tier,
        "seed": int(os.environ.get("VERIF_SEED", "0") or 0),
        "level": level,
        "coverage": {
            "explanation": explanation,
            "obligations": rep.obligations,
            "discharged": rep.discharged,
            "rule": "one obligation per enumerated syntactic site (call site, field write, return, "
                    "arithmetic op, match arm, constant relation) of the rules listed under `rules`",
            "rules": rep.rules,
            "samples": rep.samples or ["(no sites)"],
            "checker_cmd": f"./check {rep.prop} --tier {rep.tier}",
            "trusted_base": COMMON_TRUSTED,
            "analysed": {**rep.analysed, **facts_info},
            "exhaustive": True,
            "notes": rep.notes,
        },
        "assumptions": rep.assumptions,
        "wall_s": round(wall, 3),
        "violations": len(real),
    }
    with open(os.path.join(evdir, f"{rep.prop}.json"), "w") as f:
        json.dump(ev, f, indent=1)
    log(f"SUMMARY property={rep.prop} tier={rep.tier} rules={len(rep.rules)} obligations={rep.obligations} "
        f"discharged={rep.discharged} violations={len(real)} known={len(rep.violations) - len(real)} wall={wall:.1f}s")
    return 1 if real else 0
