"""Vocabulary normalisation: keep the rules' anchors valid across behaviour-preserving renames and moves.

The rules name functions, struct fields and constants of the repository (`Game::try_remove_castle_rights`,
`MovePicker.first_quiet`, `magics::ROOK_SHIFT`). A maintainer who renames a private item, or moves a private function
to a sibling module, changes no behaviour, yet every rule that names the item would lose its anchor. `vocab.json`
(frozen from the tree the rules were written against, regenerated with tools/freeze_vocab.py) records for every
in-crate function its path, signature and callee set, for every struct its field types in order, and for every
constant its type and value. When the fact file of the tree under analysis lacks a frozen name and contains exactly
one new, unfrozen item of the same kind that matches it structurally (same module / impl and same signature, or same
name and signature in another module; same field position and type; same constant type and value), the fact file is
rewritten into the frozen vocabulary before the rules run, and the substitution is reported in the evidence notes.
Anything ambiguous is left alone (the anchor then fails closed as before). Nothing here looks at behaviour: a rename
is accepted only as a pure relabelling of a structurally identical item.
"""
import json
import os
import re

HERE = os.path.dirname(os.path.abspath(__file__))
VOCAB = os.path.join(HERE, "vocab.json")

_GEN = re.compile(r"::<[^<>]*(?:<[^<>]*(?:<[^<>]*>[^<>]*)*>[^<>]*)*>")


def _norm(name):
    prev = None
    while prev != name:
        prev = name
        name = _GEN.sub("", name)
    return name


def _is_item_fn(name, b):
    return b.get("kind") in ("Fn", "AssocFn") and "{closure" not in name and "::tests::" not in name and not name.startswith("<")


def _sig(b):
    loc = b["locals"]
    n = b["arg_count"]
    return [loc[i]["ty"] if isinstance(loc[i], dict) else str(loc[i]) for i in range(0, n + 1)] if len(loc) > n else []


def _callees(b):
    out = set()
    for blk in b["blocks"]:
        t = blk["term"]
        if t.get("k") == "call":
            f = t.get("func", {})
            nm = f.get("res") or f.get("fn")
            if nm:
                out.add(_norm(nm))
    return sorted(out)


def freeze(raw):
    """vocabulary of a parsed fact file"""
    fns = {}
    for k, b in raw["bodies"].items():
        if _is_item_fn(k, b):
            fns[k] = {"sig": _sig(b), "callees": _callees(b)}
    adts = {}
    for k, a in raw["adts"].items():
        if a.get("kind") == "struct" and len(a.get("variants", [])) == 1:
            adts[k] = [[f["name"], f["ty"]] for f in a["variants"][0]["fields"]]
    consts = {}
    for k, c in raw["consts"].items():
        if k.startswith("<") or "{" in k:
            continue
        val = {x: c[x] for x in ("int", "float", "str", "bits", "bytes") if x in c}
        consts[k] = {"ty": c.get("ty"), "val": val}
    return {"fns": fns, "adts": adts, "consts": consts}


def _parent(name):
    n = _norm(name)
    return n.rsplit("::", 1)[0] if "::" in n else ""


def _last(name):
    return _norm(name).rsplit("::", 1)[-1]


def _jaccard(a, b):
    a, b = set(a), set(b)
    return len(a & b) / len(a | b) if (a | b) else 1.0


def plan(raw, vocab):
    """-> (fn_renames {new: old}, field_renames {adt: {new: old}}, const_renames {new: old}, notes)"""
    notes = []
    cur = freeze(raw)
    # ---- functions
    old_missing = [k for k in vocab["fns"] if k not in cur["fns"]]
    new_unknown = [k for k in cur["fns"] if k not in vocab["fns"]]
    fn_ren = {}
    used = set()
    for o in sorted(old_missing):
        osig = vocab["fns"][o]["sig"]
        oc = vocab["fns"][o]["callees"]
        # renamed in place: same module / impl, same signature; or moved: same name, same signature elsewhere
        cands = [n for n in new_unknown if n not in used and cur["fns"][n]["sig"] == osig and (_parent(n) == _parent(o) or _last(n) == _last(o))]
        pick = None
        if len(cands) == 1:
            pick = cands[0]
        elif len(cands) > 1:
            scored = sorted(((_jaccard(oc, cur["fns"][n]["callees"]), n) for n in cands), reverse=True)
            if scored[0][0] >= 0.5 and scored[0][0] - scored[1][0] >= 0.2:
                pick = scored[0][1]
        if pick is not None and _jaccard(oc, cur["fns"][pick]["callees"]) >= 0.3:
            fn_ren[pick] = o
            used.add(pick)
            notes.append(f"vocabulary: function `{pick}` is analysed as the frozen anchor `{o}` (same signature; renamed or moved)")
    # ---- struct fields (by position and type)
    fld_ren = {}
    for a, flds in vocab["adts"].items():
        cf = cur["adts"].get(a)
        if cf is None or len(cf) != len(flds):
            continue
        if [t for _, t in cf] != [t for _, t in flds]:
            continue
        m = {cn: on for (cn, _), (on, _) in zip(cf, flds) if cn != on}
        # a pure relabelling: no new name collides with another frozen name of the struct
        if m and not (set(m) & {on for on, _ in flds}):
            fld_ren[a] = m
            notes.append(f"vocabulary: fields of `{a}` renamed {m} (same position and type) are analysed under their frozen names")
    # ---- constants
    c_old = [k for k in vocab["consts"] if k not in cur["consts"]]
    c_new = [k for k in cur["consts"] if k not in vocab["consts"]]
    c_ren = {}
    usedc = set()
    for o in sorted(c_old):
        ov = vocab["consts"][o]
        cands = [n for n in c_new if n not in usedc and cur["consts"][n] == ov and (_parent(n) == _parent(o) or _last(n) == _last(o))]
        if len(cands) == 1:
            c_ren[cands[0]] = o
            usedc.add(cands[0])
            notes.append(f"vocabulary: constant `{cands[0]}` is analysed as the frozen `{o}` (same type and value)")
    return fn_ren, fld_ren, c_ren, notes


def _rename_fields(x, fld_ren_norm):
    if isinstance(x, dict):
        a = x.get("adt")
        if isinstance(a, str):
            m = fld_ren_norm.get(_norm(a))
            if m:
                if "n" in x and x["n"] in m:
                    x["n"] = m[x["n"]]
                if isinstance(x.get("fields"), list):
                    x["fields"] = [m.get(f, f) for f in x["fields"]]
        for v in x.values():
            _rename_fields(v, fld_ren_norm)
    elif isinstance(x, list):
        for v in x:
            _rename_fields(v, fld_ren_norm)


def normalise(text):
    """fact-file text -> (parsed raw in the frozen vocabulary, notes)"""
    raw = json.loads(text)
    if not os.path.exists(VOCAB):
        return raw, []
    with open(VOCAB) as f:
        vocab = json.load(f)
    fn_ren, fld_ren, c_ren, notes = plan(raw, vocab)
    if not (fn_ren or fld_ren or c_ren):
        return raw, []
    ren = dict(fn_ren)
    ren.update(c_ren)
    if ren:
        # longest first so that a name that is a prefix of another is not rewritten inside it
        for new in sorted(ren, key=len, reverse=True):
            text = re.sub(re.escape(new) + r"(?![A-Za-z0-9_])", ren[new].replace("\\", "\\\\"), text)
            nn, on = _norm(new), _norm(ren[new])
            if nn != new:
                text = re.sub(re.escape(nn) + r"(?![A-Za-z0-9_])", on.replace("\\", "\\\\"), text)
        raw = json.loads(text)
    if fld_ren:
        m = {_norm(a): v for a, v in fld_ren.items()}
        _rename_fields(raw["bodies"], m)
        for a, mm in fld_ren.items():
            ad = raw["adts"].get(a)
            if ad:
                for fdef in ad["variants"][0]["fields"]:
                    fdef["name"] = mm.get(fdef["name"], fdef["name"])
    return raw, notes
